#!/bin/bash
# usage: cross_seed.sh <seed-id> <check> [<check> ...]  : run other properties' checks against a stored seed
sid=$1; shift
wt=/tmp/cross_${sid}_$$
git -C /repo worktree add -q --detach $wt HEAD
git -C $wt apply /verif/seeded/$sid/patch.diff || { echo "patch failed"; git -C /repo worktree remove --force $wt; exit 3; }
cd /verif
for c in "$@"; do
  PYMBOLIC_SRC=$wt ./check $c --tier quick > /tmp/cross_${sid}_$c.log 2>&1
  rc=$?
  echo "$sid vs $c: exit $rc $(grep -m1 VIOLATION /tmp/cross_${sid}_$c.log | cut -c1-80)"
  python3 - <<PY
import json
p='/verif/seeded/$sid/meta.json'
m=json.load(open(p))
m.setdefault('checks_run',{})['$c']={"exit":$rc,"violation_line":[l for l in open('/tmp/cross_${sid}_$c.log') if l.startswith('VIOLATION')][:1],"cross_check":True}
m['detected']=any(v['exit']==1 for v in m['checks_run'].values())
json.dump(m,open(p,'w'),indent=1)
PY
done
git -C /repo worktree remove --force $wt
