#!/bin/sh
# Offline setup: verify the tools, SANY-parse every specification module, create the work dir.
set -e
cd "$(dirname "$0")"
command -v java >/dev/null
test -f /opt/veriftools/tla/tla2tools.jar
/venv/bin/python -c "import pymbolic, numpy, immutabledict" 
mkdir -p .work evidence
fail=0
for f in spec/*.tla; do
  java -DTLA-Library=spec:/opt/veriftools/tlapm/lib/tlapm/stdlib -cp /opt/veriftools/tla/tla2tools.jar:/opt/veriftools/tla/CommunityModules-deps.jar tla2sany.SANY "$f" >.work/sany.log 2>&1 || true
  if grep -q "Semantic errors\|Fatal errors\|Parse Error\|Could not" .work/sany.log; then
    echo "WARNING: SANY reports errors in $f (the check using it will report a machinery failure)"; tail -5 .work/sany.log
  fi
done
exit $fail
