#!/bin/bash
# Re-run the property's quick check against every stored seeded change of the given properties
# (regression after a check was strengthened).  usage: tools_recheck_seeds.sh C02 C03 ...
cd /verif
for p in "$@"; do
  for d in seeded/${p}_*; do
    sid=$(basename $d)
    ./tools_seed.py $d $sid $p 2>&1 | tail -2 | tr '\n' ' ' | cut -c1-260; echo
  done
done
