#!/usr/bin/env python3
"""Rewrites the generated blocks of DESIGN.md (between <!-- BEGIN:name --> / <!-- END:name -->)
from the files that hold the facts: manifest_entries.json, evidence/, known_findings*,
seeded/*/meta.json, spec/."""
import glob
import json
import os
import re
import subprocess

HERE = os.path.dirname(os.path.abspath(__file__))


def findings():
    res = []
    for p in [os.path.join(HERE, "known_findings.json")] + sorted(glob.glob(os.path.join(HERE, "known_findings.d", "*.json"))):
        res += json.load(open(p)).get("findings", [])
    return res


def block_asbuilt():
    ents = json.load(open(os.path.join(HERE, "manifest_entries.json")))
    fs = findings()
    lines = ["| id | specification modules (spec/) | quick tier, last run: TLC states / traces judged / calls into pymbolic / wall | open findings | repaired | seeded changes caught |",
             "|---|---|---|---|---|---|"]
    for pid in sorted(ents):
        mods = sorted(os.path.basename(p)[:-4] for p in glob.glob(os.path.join(HERE, "spec", pid + "_*.tla")))
        evp = os.path.join(HERE, "evidence", pid + ".json")
        ev = json.load(open(evp)) if os.path.exists(evp) else None
        if ev:
            c = ev["coverage"]
            evs = f"{c.get('states', 0):,} / {c.get('traces_validated_against_impl', 0):,} / {c.get('evaluations', 0):,} / {ev['wall_s']:.0f} s"
        else:
            evs = "-"
        op = sorted({f["id"] for f in fs if f["property"] == pid and f["status"] == "open"})
        fx = sorted({f.get("commit", "?") for f in fs if f["property"] == pid and f["status"] == "fixed"})
        seeds = []
        for m in sorted(glob.glob(os.path.join(HERE, "seeded", pid + "_*", "meta.json"))):
            mm = json.load(open(m))
            seeds.append(os.path.basename(os.path.dirname(m)) + ("" if mm.get("detected") else " (MISSED)"))
        lines.append(f"| {pid} | {', '.join(mods)} | {evs} | {len(op)}" + (f" ({op[0]}..{op[-1]})" if len(op) > 1 else (f" ({op[0]})" if op else ""))
                     + f" | {len(fx)}" + (f" ({', '.join(fx)})" if fx else "") + f" | {', '.join(seeds) or '-'} |")
    return "\n".join(lines)


def block_fixes():
    log = subprocess.run(["git", "-C", "/repo", "log", "--reverse", "--format=%h %s"], capture_output=True, text=True).stdout
    fs = findings()
    by = {}
    for f in fs:
        if f["status"] == "fixed":
            by.setdefault(f.get("commit"), set()).add(f["property"])
    lines = ["| commit | repair (subject line) | found by |", "|---|---|---|"]
    for l in log.splitlines():
        h, s = l.split(" ", 1)
        if s.startswith("fix:"):
            lines.append(f"| {h} | {s[5:]} | {', '.join(sorted(by.get(h, []))) or '-'} |")
    return "\n".join(lines)


def block_seeds():
    lines = ["| seeded change | property | what it changes / what it needs to manifest | detected by |", "|---|---|---|---|"]
    for m in sorted(glob.glob(os.path.join(HERE, "seeded", "*", "meta.json"))):
        mm = json.load(open(m))
        sid = os.path.basename(os.path.dirname(m))
        det = ", ".join(f"./check {c}" for c, r in mm.get("checks_run", {}).items() if r["exit"] == 1) or "MISSED"
        summ = " ".join((mm.get("summary") or "").split())[:230]
        lines.append(f"| {sid} | {mm.get('property')} | {summ} | {det} |")
    return "\n".join(lines)


def main():
    p = os.path.join(HERE, "DESIGN.md")
    s = open(p).read()
    for name, fn in (("asbuilt", block_asbuilt), ("fixes", block_fixes), ("seeds", block_seeds)):
        pat = re.compile(r"(<!-- BEGIN:%s -->).*?(<!-- END:%s -->)" % (name, name), re.S)
        if not pat.search(s):
            print("marker missing:", name)
            continue
        s = pat.sub(lambda m: m.group(1) + "\n" + fn() + "\n" + m.group(2), s)
    open(p, "w").write(s)


if __name__ == "__main__":
    main()
