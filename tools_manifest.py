#!/usr/bin/env python3
"""Regenerates MANIFEST.json from the table below (kept next to it so that the
manifest stays valid and current)."""
import json
import os

HERE = os.path.dirname(os.path.abspath(__file__))
BASELINE = ("cd /repo && /venv/bin/python -m pytest -ra -q -p no:cacheprovider --timeout=900 "
            "--continue-on-collection-errors")

# property -> {text, note, technique}: kept in manifest_entries.json
BUILT = {k: (v["text"], v["note"], v["technique"])
         for k, v in json.load(open(os.path.join(HERE, "manifest_entries.json"))).items()}

REASON_NOT_YET = "check not built yet in this round (planned, see DESIGN.md section 13)"


def main():
    props = [json.loads(l) for l in open(os.path.join(HERE, "properties.jsonl"))]
    checks, na = [], []
    for p in props:
        pid = p["id"]
        have = os.path.exists(os.path.join(HERE, "harness", pid.lower() + ".py"))
        if pid in BUILT and have:
            text, note, tech = BUILT[pid]
            checks.append({
                "property_id": pid,
                "quick_cmd": f"./check {pid} --tier quick",
                "thorough_cmd": f"./check {pid} --tier thorough",
                "evidence_file": f"/verif/evidence/{pid}.json",
                "replay_cmd_template": f"./check {pid} --replay {{path}}",
                "engine": "tlc",
                "level_claimed": {"category": "model_checking", "text": text,
                                  "design_ref": f"DESIGN.md section 8, {pid}"},
                "level_note": note,
                "technique": tech,
            })
        else:
            na.append({"property_id": pid, "reason": REASON_NOT_YET})
    m = {
        "version": 1,
        "setup_cmd": "./setup.sh",
        "hooks": {"guard": "PYMBOLIC_VERIF",
                  "enable": "none needed: observation is through the public API, harness-side subclasses and "
                            "projected state; the guard name is reserved",
                  "baseline_off_cmd": BASELINE, "source_commits": [], "add_only": True},
        "engines": [{"name": "tlc", "path": "/opt/veriftools/tla/tla2tools.jar",
                     "serves_properties": [c["property_id"] for c in checks],
                     "kind_free_text": "TLC 1.8 explicit-state model checker: checks the model, enumerates the "
                                       "behaviours, judges traces recorded from the implementation"}],
        "checks": checks,
        "notes": "Pipeline per property (DESIGN.md section 3): TLC model check + generation -> Python driver "
                 "replays into /repo's pymbolic -> TLC judges the recorded traces -> classification against "
                 "known_findings.json (+ known_findings.d/).  Exit 0/1/2 = held / violation / machinery failure.",
        "not_applicable": na,
    }
    json.dump(m, open(os.path.join(HERE, "MANIFEST.json"), "w"), indent=1)
    print(f"{len(checks)} checks, {len(na)} not applicable")


if __name__ == "__main__":
    main()
