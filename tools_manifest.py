#!/usr/bin/env python3
"""Regenerates MANIFEST.json from the table below (kept next to it so that the
manifest stays valid and current)."""
import json
import os

HERE = os.path.dirname(os.path.abspath(__file__))
BASELINE = ("cd /repo && /venv/bin/python -m pytest -ra -q -p no:cacheprovider --timeout=900 "
            "--continue-on-collection-errors")

# property -> (level text, level note, technique)
BUILT = {
 "C02": ("TLC enumerates the bounded tree space exhaustively (root kind x typed holes), checks on the model that "
         "the implementation-shaped evaluator (C02_EvalImpl) refines the denotation (Eval) in every environment "
         "of the box, and judges every result recorded from the four real evaluator entry points against the "
         "denotation (value, exception class, unknown-variable name, agreement of plain/cached/kw variants).",
         "trusted: CPython semantics as transcribed in spec/PyNum.tla (sanity laws checked by TLC), TLC, the JSON "
         "boundary; bounded to the generated space (depth <= 2 over all evaluable node kinds, 6 environments); "
         "values outside the exact 32-bit model are skipped and counted",
         "TLA+ denotational spec + TLC bounded-exhaustive generation + TLC trace validation of recorded results"),
 "C03": ("TLC enumerates operator programs (every operator x left kind x right kind, nested operator pairs, unary, "
         "constructor methods, ordering comparisons, call/subscript/attribute), checks on the model whether the "
         "transcribed operator methods (Build, A-layer) preserve the plain computation (Plain, M-layer) - which "
         "yields the design-level failure classes before any code runs - and judges every object the real "
         "operators built against Plain in 7 environments; the transcription's prediction is compared as drift.",
         "trusted: PyNum.tla, TLC; refusals for boolean operands tolerated; non-commuting witnesses not yet "
         "modelled (operand order is checked through -, /, //, %, **, <<, >> only)",
         "TLA+ transcription of the operator methods vs plain-number meaning, TLC-generated programs, TLC-judged "
         "recorded trees"),
 "C06": ("TLC enumerates the printable fragment (every node kind with every child position open over leaves and one "
         "representative per kind, slices, tuples, three-level nestings over a reduced alphabet); each tree is printed, "
         "parsed and printed again by the real code and TLC judges the recorded round trip against the statement: "
         "parses, same tree after flattening nested sums/products (constants by value), identical second text, same "
         "value in 7 environments (Eval).",
         "trusted: PyNum/Eval, TLC; failing cases are attributed to listed (parent, position, child) edges by "
         "containment (DESIGN 7.2), so a new defect is reported through its minimal witness; the A-layer transcription "
         "of printer and parser is not part of this check yet",
         "TLC-generated trees, recorded print/parse/print round trips, TLC-judged against Norm/Eval"),
 "C07": ("TLC fills the operator slots of token skeletons exhaustively (every ordered pair of the 20 binary operators, "
         "triples, prefix operators and conditional expressions in every operand position, postfix chains, tuples, "
         "literals, truncated strings); the real parser and the real Python-AST importer are run on every string and "
         "TLC judges the trees they return by evaluating them (Eval) in 16 environments against CPython's own eval "
         "of the same text, plus 'whole input consumed or ParseError'.",
         "trusted: CPython's eval as ground truth (recorded per environment), PyNum/Eval for the meaning of the returned "
         "tree, TLC; a reference Python grammar in TLA+ (design-level comparison) is not part of this check yet; "
         "failing strings are attributed to listed operator-pair patterns",
         "TLC-generated token strings, recorded parser/importer trees and CPython values, TLC-judged by evaluation"),
 "C13": ("TLC enumerates (tree, listed-variable tuple) pairs over the Python-expressible fragment; the real compile(), "
         "its pickle round trip, to_python_ast + compile/eval, to_evaluatable_python_function + exec, and the from-AST "
         "importer are run on each and TLC judges every recorded value against Eval in 6 environments (value or "
         "arithmetic exception class) and the recorded parameter order against 'listed first, rest by name'.",
         "trusted: PyNum/Eval as the evaluator's meaning (bound to the real evaluator by C02), CPython executing the "
         "generated code, TLC; logical operators only over boolean operands; paths are excused only for node kinds "
         "they document as unsupported (NotImplementedError on Comparison/Min/Max/CSE in to-AST)",
         "TLC-generated trees x argument lists, generated code executed, TLC-judged against the denotation"),
 "C11": ("TLC enumerates the polynomial/rational fragment (three levels over a reduced alphabet) and trees of other "
         "node kinds over polynomial children, checks ring laws of the normal-form oracle on every generated tree, and "
         "judges what flatten, both constant folders, the term collector and distribute/expand (commutative, "
         "non-commutative, with parameters) really returned: value preservation decided per instance by exact "
         "rational-function normal form (Poly.tla), Eval on a box for non-polynomial kinds, the shape post-conditions "
         "of the statement (flat, at most one constant, expanded, like terms merged) and 'does not fail on its fragment'.",
         "trusted: Poly.tla (exact arithmetic over Q with 32-bit overflow guard: guarded cases are skipped and counted), "
         "PyNum/Eval, TLC; the A-layer transcription of the rewrite algorithms is not part of this check",
         "TLC-generated inputs, recorded rewrite results, TLC-judged by rational-function normal form and shape predicates"),
 "C15": ("TLC enumerates (expression, target set) pairs and all small integer 2x2 affine systems (entries in a small box, "
         "unknowns and parameters on both sides), checks on the model that Cramer's solution of every regular "
         "generated system satisfies it (oracle sanity), and judges what CoefficientCollector and "
         "solve_affine_equations_for really returned: affineness and reconstruction decided exactly by rational-"
         "function normal forms, coefficients free of targets, raises on non-affine input, returned assignments "
         "satisfy every equation identically, singular systems refused.",
         "trusted: Poly.tla, TLC; a refusal of a syntactically non-obvious affine input and a solver refusal of a "
         "solvable system are tabulated, not judged; 3x3 systems are not generated",
         "TLC-generated expressions/systems, recorded results, TLC-judged by exact normal forms and determinants"),
}

REASON_NOT_YET = "check not built yet in this round (planned, see DESIGN.md section 13)"


def main():
    props = [json.loads(l) for l in open(os.path.join(HERE, "properties.jsonl"))]
    checks, na = [], []
    for p in props:
        pid = p["id"]
        have = os.path.exists(os.path.join(HERE, "harness", pid.lower() + ".py"))
        if pid in BUILT and have:
            text, note, tech = BUILT[pid]
            checks.append({
                "property_id": pid,
                "quick_cmd": f"./check {pid} --tier quick",
                "thorough_cmd": f"./check {pid} --tier thorough",
                "evidence_file": f"/verif/evidence/{pid}.json",
                "replay_cmd_template": f"./check {pid} --replay {{path}}",
                "engine": "tlc",
                "level_claimed": {"category": "model_checking", "text": text,
                                  "design_ref": f"DESIGN.md section 8, {pid}"},
                "level_note": note,
                "technique": tech,
            })
        else:
            na.append({"property_id": pid, "reason": REASON_NOT_YET})
    m = {
        "version": 1,
        "setup_cmd": "./setup.sh",
        "hooks": {"guard": "PYMBOLIC_VERIF",
                  "enable": "none needed: observation is through the public API, harness-side subclasses and "
                            "projected state; the guard name is reserved",
                  "baseline_off_cmd": BASELINE, "source_commits": [], "add_only": True},
        "engines": [{"name": "tlc", "path": "/opt/veriftools/tla/tla2tools.jar",
                     "serves_properties": [c["property_id"] for c in checks],
                     "kind_free_text": "TLC 1.8 explicit-state model checker: checks the model, enumerates the "
                                       "behaviours, judges traces recorded from the implementation"}],
        "checks": checks,
        "notes": "Pipeline per property (DESIGN.md section 3): TLC model check + generation -> Python driver "
                 "replays into /repo's pymbolic -> TLC judges the recorded traces -> classification against "
                 "known_findings.json (+ known_findings.d/).  Exit 0/1/2 = held / violation / machinery failure.",
        "not_applicable": na,
    }
    json.dump(m, open(os.path.join(HERE, "MANIFEST.json"), "w"), indent=1)
    print(f"{len(checks)} checks, {len(na)} not applicable")


if __name__ == "__main__":
    main()
