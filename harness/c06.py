"""C06 - printing an expression and parsing the text gives the expression back."""
from __future__ import annotations

import json
import warnings

from harness import kit, ser


def drive_case(case, extra):
    """The tree printed and parsed back; the same with every number given as a numpy scalar
    (recorded - and judged like any other record - only where that changes anything)."""
    rec = _drive_one(case, ser.from_json(case["e"]))
    if '"Const"' in json.dumps(case["e"]):
        alt = _drive_one(case, ser.from_json_numpy(case["e"]))
        if any(alt[k] != rec[k] for k in ("s1", "p", "s2", "toks")):
            alt["id"] = f"{case['id']}n"
            alt["numpy_constants"] = True
            return [rec, alt]
    return [rec]


def _drive_one(case, e):
    from pymbolic import parse
    with warnings.catch_warnings():
        warnings.simplefilter("ignore")
        from pymbolic.mapper.stringifier import PREC_NONE, StringifyMapper
        strify = lambda obj: StringifyMapper()(obj, PREC_NONE)  # noqa: E731  (what str(expr) does)
        try:
            s1 = strify(e)
        except RecursionError:
            raise
        except Exception as exc:  # noqa: BLE001  (printing itself refuses: a verdict, not a machinery failure)
            return {"id": case["id"], "e": case["e"], "s1": "<" + type(exc).__name__ + ">",
                    "p": {"r": "noprint", "v": ser.exc_to_json(exc)}, "s2": "", "toks": []}
        p = ser.obj_to_json(lambda: parse(s1))
        s2 = ""
        if p["r"] == "ok":
            try:
                s2 = strify(parse(s1))
            except Exception as exc:  # noqa: BLE001
                s2 = "<" + type(exc).__name__ + ">"
    from harness.lexer import tokenize
    return {"id": case["id"], "e": case["e"], "s1": s1, "p": p, "s2": s2, "toks": tokenize(s1)}


def edges(e, acc=None):
    """(parent kind, child position, child kind) triples of a tree, finest form:
    comparison operators and constant classes are part of the kind."""
    acc = set() if acc is None else acc

    def kind(n):
        t = n["t"]
        if t == "Slice":
            return "Slice:" + "".join("N" if c["t"] == "None" else "x" for c in n["c"])
        if t == "Const":
            v = n["v"]
            if v["k"] == "fstr":
                return "Const:float-e"
            return "Const:" + v["k"] + (":neg" if v.get("n", 0) < 0 else "")
        if t == "Tup":
            return f"Tup/{len(n['c'])}"
        return t

    def kids(n):
        t = n["t"]
        if "c" in n and t != "Call" and t != "CallKw":
            return [(f"c{i + 1}", c) for i, c in enumerate(n["c"])]
        if t in ("Call", "CallKw"):
            r = [("f", n["f"])] + [("arg", c) for c in n["c"]]
            if t == "CallKw":
                r += [("kw", k["e"]) for k in n["kw"]]
            return r
        if t == "If":
            return [("cond", n["i"]), ("then", n["th"]), ("else", n["el"])]
        r = []
        if "a" in n:
            r.append(("a", n["a"]))
        if "b" in n:
            r.append(("b", n["b"]))
        return r

    for pos, c in kids(e):
        acc.add((kind(e), pos, kind(c)))
        edges(c, acc)
    if e["t"] in ("BitOr", "BitXor", "BitAnd", "LogOr", "LogAnd") and len(e["c"]) != 2:
        acc.add((kind(e), "arity", str(len(e["c"]))))
    if not kids(e):
        acc.add((kind(e), "-", "-"))
    if e["t"] == "Slice":
        acc.add((kind(e), "node", "-"))
    return acc


def classify(out, verdicts, byid):
    known_edges = []
    for k in out.known:
        sig = json.loads(k)
        if "edge" in sig:
            known_edges.append((tuple(sig["edge"]), sig))
    for v in verdicts:
        if "drift" in v:
            out.drift += 1
            out.extra.setdefault("drift_examples", [])
            if len(out.extra["drift_examples"]) < 5:
                out.extra["drift_examples"].append({"text": byid[v["id"]]["s1"], "what": list(v["drift"])})
            continue
        cl = list(v["cl"])
        if cl == ["SKIP"]:
            out.skipped += 1
            continue
        rec = byid[v["id"]]
        es = edges(rec["e"])
        # no listed finding is about printing raising: such a case is never attributed to one
        hit = None if "print-raises" in cl else next((sig for edge, sig in known_edges if edge in es), None)
        if hit is not None:
            sig = hit
        else:
            sig = {"clauses": cl, "edges": sorted(list(x) for x in es)}
        out.fail(sig, {"case": {"id": rec["id"], "e": rec["e"]}, "s1": rec["s1"], "reparsed": rec["p"],
                       "s2": rec["s2"], "clauses": cl})


def judge(out, recs, wd):
    shards = kit.write_shards(recs, wd / "trace", "c06", 12000)
    verdicts, st, tr = kit.judge_shards("C06_Judge", "C06_Judge", shards)
    out.states += st
    out.transitions += tr
    out.traces += len(recs)
    classify(out, verdicts, {r["id"]: r for r in recs})
    return verdicts


def run(tier, seed, out):
    wd = kit.fresh_workdir("C06")
    gen = kit.run_tlc("C06_Gen", f"C06_Gen_{tier}")
    kit.require_clean(gen, "C06 generation")
    out.add_tlc(gen)
    printed = gen.printed()
    cases = [p for p in printed if "e" in p]
    design = [p for p in printed if "design" in p]
    out.extra["design_level_failures_on_model"] = len(design)
    if tier == "thorough":
        rnd, st = kit.simulate_many("C06_Rand", "C06_Rand", runs=8, num=4000, depth=120, seed=seed)
        out.states += st
        out.transitions += st
        out.extra["random_deep_trees"] = len(rnd)
        cases += [p for p in rnd if "e" in p]
    for i, c in enumerate(cases):
        c["id"] = i
    kit.log(f"C06: TLC generated {len(cases)} trees ({gen.wall:.1f}s)")
    recs = [r for rs in kit.drive("harness.c06", "drive_case", cases, None, chunk=500) for r in rs]
    out.extra["numpy_constant_builds_that_differ"] = sum(1 for r in recs if r.get("numpy_constants"))
    out.evaluations += 3 * len(recs)

    def corrupt(r):      # the second printed form differs from the first in one character
        if r["p"].get("r") == "ok" and r["s1"] == r["s2"] and r["e"]["t"] == "Sum":
            r["s2"] = r["s2"] + " "
            return r
        return None
    out.extra["corrupted_records_rejected"] = kit.corruption_control(
        "C06_Judge", "C06_Judge", recs, corrupt, wd, flagged=lambda v: "cl" in v and list(v["cl"]) != ["SKIP"])
    judge(out, recs, wd)
    for r in recs:
        out.note_case(r["e"], nontrivial=r["e"]["t"] not in ("Var", "Const"))
    out.samples = [{"tree": r["e"], "text": r["s1"], "reparsed": r["p"], "text2": r["s2"]}
                   for r in recs[:: max(1, len(recs) // 3)][:3]]
    out.rule = ("TLC enumerates every printable node kind with every child position open over "
                "(leaves + one representative per kind), plus three-level nestings over a reduced alphabet; "
                "one case = one tree printed, parsed, printed again; non-trivial = composite root")
    out.exhaustive = True
    out.assumptions += ["value clause decided in 7 environments by Eval (PyNum.tla)",
                        "failing cases are attributed to listed (parent, position, child) edges (DESIGN 7.2)"]


def replay(path, out):
    wd = kit.fresh_workdir("C06")
    d = json.loads(open(path).read())
    case = dict(d["detail"]["case"])
    case["id"] = str(case["id"]).rstrip("n")
    recs = [r for rs in kit.drive("harness.c06", "drive_case", [case], None) for r in rs]
    judge(out, recs, wd)
