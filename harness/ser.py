"""Serialisation between pymbolic objects / Python values and the JSON shapes of
spec/Expr.tla and spec/PyNum.tla.  Nothing in here judges anything."""
from __future__ import annotations

import json
import math
from fractions import Fraction

LIMIT = 30000


# ---------------------------------------------------------------- values
def val_to_json(v):
    """Python value -> PyNum value record."""
    import numpy as np
    if isinstance(v, (bool, np.bool_)):
        return {"k": "bool", "n": int(bool(v)), "d": 1}
    if isinstance(v, (int, np.integer)):
        v = int(v)
        if abs(v) > LIMIT:
            return {"k": "unrep"}
        return {"k": "int", "n": v, "d": 1}
    if isinstance(v, Fraction):
        if abs(v.numerator) > LIMIT or v.denominator > LIMIT:
            return {"k": "unrep"}
        return {"k": "frac", "n": v.numerator, "d": v.denominator}
    if isinstance(v, (float, np.floating)):
        v = float(v)
        if not math.isfinite(v):
            return {"k": "unrep"}
        n, d = v.as_integer_ratio()
        if abs(n) > LIMIT or d > LIMIT:
            return {"k": "unrep"}
        return {"k": "flt", "n": n, "d": d}
    if getattr(v, "_verif_kind", None) == "map":
        return {"k": "map", "name": v._verif_name}
    if isinstance(v, tuple):
        return {"k": "tup", "items": [val_to_json(i) for i in v]}
    if isinstance(v, list):
        return {"k": "list", "items": [val_to_json(i) for i in v]}
    if type(v).__name__ == "Word" and hasattr(v, "letters"):
        return {"k": "word", "w": list(v.letters)}
    name = getattr(v, "_verif_name", None)
    kind = getattr(v, "_verif_kind", None)
    if name is not None and kind is not None:
        return {"k": kind, "name": name}
    return {"k": "unrep"}


def exc_to_json(exc):
    name = type(exc).__name__
    arg = ""
    if name == "UnknownVariableError" and exc.args:
        arg = str(exc.args[0])
    return {"k": "err", "e": name, "a": arg}


def json_to_val(j):
    """PyNum value record -> Python value (for constants and environments)."""
    from harness import envobjs
    k = j["k"]
    if k == "bool":
        return bool(j["n"])
    if k == "int":
        return int(j["n"])
    if k == "frac":
        return Fraction(j["n"], j["d"])
    if k == "flt":
        return j["n"] / j["d"]
    if k == "fstr":          # a float constant carried by its repr (outside the exact model)
        return float(j["s"])
    if k == "tup":
        return tuple(json_to_val(i) for i in j["items"])
    if k == "list":
        return [json_to_val(i) for i in j["items"]]
    if k == "word":
        return envobjs.Word(j["w"])
    if k == "fn":
        return envobjs.FUNCS[j["name"]]
    if k == "obj":
        return envobjs.OBJS[j["name"]]
    if k == "map":
        return envobjs.MAPS[j["name"]]
    raise ValueError(f"cannot build a value from {j!r}")


def call_to_json(thunk):
    """Run thunk(); return its value record or its exception record."""
    import warnings
    try:
        with warnings.catch_warnings():
            warnings.simplefilter("ignore")
            return val_to_json(thunk())
    except RecursionError:
        raise
    except MemoryError:
        # the worker's address-space limit (kit.drive) stopped an astronomically large
        # intermediate value: beyond every model bound, not an observation of the code
        return {"k": "unrep"}
    except Exception as exc:  # noqa: BLE001 - the exception class *is* the observation
        return exc_to_json(exc)


# ---------------------------------------------------------------- expressions
_NARY = {
    "Sum": "Sum", "Product": "Product", "BitOr": "BitwiseOr", "BitXor": "BitwiseXor",
    "BitAnd": "BitwiseAnd", "LogOr": "LogicalOr", "LogAnd": "LogicalAnd",
    "Min": "Min", "Max": "Max", "Slice": "Slice",
}
_BIN = {
    "Quotient": "Quotient", "FloorDiv": "FloorDiv", "Remainder": "Remainder",
    "Power": "Power", "LShift": "LeftShift", "RShift": "RightShift", "Sub": "Subscript",
}
_UN = {"BitNot": "BitwiseNot", "LogNot": "LogicalNot"}
_NARY_R = {v: k for k, v in _NARY.items()}
_BIN_R = {v: k for k, v in _BIN.items()}
_UN_R = {v: k for k, v in _UN.items()}


_SHARE = None      # memo of from_json_shared: canonical JSON -> the one object built for it


def from_json(j):
    """Expr.tla record (as JSON) -> pymbolic object, built with the constructors
    (never with the overloaded operators).  Equal subtrees are distinct objects, unless the
    call comes from from_json_shared."""
    if _SHARE is None:
        return _from_json_raw(j)
    key = json.dumps(j, sort_keys=True)
    if key not in _SHARE:
        _SHARE[key] = _from_json_raw(j)
    return _SHARE[key]


def from_json_shared(j):
    """Like from_json, but every repeated subtree (leaves included) is ONE shared object:
    object identity is part of the input space of code that compares with `is`."""
    global _SHARE
    _SHARE = {}
    try:
        return from_json(j)
    finally:
        _SHARE = None


_NUMPY = False     # from_json_numpy: numeric constants as numpy scalars


def from_json_numpy(j):
    """Like from_json, but every int / float / bool constant is the numpy scalar of the same value
    (numpy.int64 / numpy.float64 / numpy.bool_): the representation of a number is an input
    dimension of its own (coefficients read out of arrays are numpy scalars)."""
    global _NUMPY
    _NUMPY = True
    try:
        return from_json(j)
    finally:
        _NUMPY = False


def _from_json_raw(j):
    import pymbolic.primitives as p
    from immutabledict import immutabledict
    t = j["t"]
    if t == "Var":
        return p.Variable(j["name"])
    if t == "Const":
        v = json_to_val(j["v"])
        if _NUMPY:
            import numpy as np
            if type(v) is bool:
                return np.bool_(v)
            if type(v) is int and abs(v) < 2**62:
                return np.int64(v)
            if type(v) is float:
                return np.float64(v)
        return v
    if t == "None":
        return None
    if t in _NARY:
        return getattr(p, _NARY[t])(tuple(from_json(c) for c in j["c"]))
    if t == "Tup":
        return tuple(from_json(c) for c in j["c"])
    if t == "List":
        return [from_json(c) for c in j["c"]]
    if t in _BIN:
        return getattr(p, _BIN[t])(from_json(j["a"]), from_json(j["b"]))
    if t in _UN:
        return getattr(p, _UN[t])(from_json(j["a"]))
    if t == "Cmp":
        return p.Comparison(from_json(j["a"]), j["op"], from_json(j["b"]))
    if t == "If":
        return p.If(from_json(j["i"]), from_json(j["th"]), from_json(j["el"]))
    if t == "Call":
        return p.Call(from_json(j["f"]), tuple(from_json(c) for c in j["c"]))
    if t == "CallKw":
        return p.CallWithKwargs(
            from_json(j["f"]), tuple(from_json(c) for c in j["c"]),
            immutabledict({kw["name"]: from_json(kw["e"]) for kw in j["kw"]}))
    if t == "Look":
        return p.Lookup(from_json(j["a"]), j["name"])
    if t == "CSE":
        return p.CommonSubexpression(
            from_json(j["a"]), j["prefix"] or None, j["scope"])
    if t == "Subst":
        return p.Substitution(from_json(j["a"]), tuple(j["names"]),
                              tuple(from_json(c) for c in j["c"]))
    if t == "Deriv":
        return p.Derivative(from_json(j["a"]), tuple(j["names"]))
    if t == "Wild":
        return {"Wildcard": p.Wildcard, "DotWildcard": p.DotWildcard,
                "StarWildcard": p.StarWildcard}[j["cls"]](
                    *(() if j["cls"] == "Wildcard" else (j["name"],)))
    if t == "FunctionSymbol":
        return p.FunctionSymbol()
    raise ValueError(f"unknown node kind {t!r}")


class Unserialisable(Exception):
    pass


def to_json(e):
    """pymbolic object -> Expr.tla record (as JSON)."""
    import numpy as np
    import pymbolic.primitives as p
    if e is None:
        return {"t": "None"}
    if isinstance(e, (bool, int, float, Fraction, np.number, np.bool_)):
        v = val_to_json(e)
        if v["k"] == "unrep":
            if isinstance(e, float) and math.isfinite(e):
                return {"t": "Const", "v": {"k": "fstr", "s": repr(e)}}
            raise Unserialisable(repr(e))
        return {"t": "Const", "v": v}
    if isinstance(e, tuple):
        return {"t": "Tup", "c": [to_json(c) for c in e]}
    if isinstance(e, list):
        return {"t": "List", "c": [to_json(c) for c in e]}
    if not isinstance(e, p.Expression):
        raise Unserialisable(repr(e))
    cls = type(e).__name__
    if cls == "Variable":
        return {"t": "Var", "name": e.name}
    if cls in _NARY_R:
        return {"t": _NARY_R[cls], "c": [to_json(c) for c in e.children]}
    if cls in ("Quotient", "FloorDiv", "Remainder"):
        return {"t": cls, "a": to_json(e.numerator), "b": to_json(e.denominator)}
    if cls == "Power":
        return {"t": "Power", "a": to_json(e.base), "b": to_json(e.exponent)}
    if cls in ("LeftShift", "RightShift"):
        return {"t": _BIN_R[cls], "a": to_json(e.shiftee), "b": to_json(e.shift)}
    if cls == "Subscript":
        return {"t": "Sub", "a": to_json(e.aggregate), "b": to_json(e.index)}
    if cls in _UN_R:
        return {"t": _UN_R[cls], "a": to_json(e.child)}
    if cls == "Comparison":
        return {"t": "Cmp", "a": to_json(e.left), "op": e.operator, "b": to_json(e.right)}
    if cls == "If":
        return {"t": "If", "i": to_json(e.condition), "th": to_json(e.then),
                "el": to_json(e.else_)}
    if cls == "Call":
        return {"t": "Call", "f": to_json(e.function),
                "c": [to_json(c) for c in e.parameters]}
    if cls == "CallWithKwargs":
        return {"t": "CallKw", "f": to_json(e.function),
                "c": [to_json(c) for c in e.parameters],
                "kw": [{"name": k, "e": to_json(v)} for k, v in e.kw_parameters.items()]}
    if cls == "Lookup":
        return {"t": "Look", "a": to_json(e.aggregate), "name": e.name}
    if cls == "CommonSubexpression":
        return {"t": "CSE", "a": to_json(e.child), "prefix": e.prefix or "",
                "scope": e.scope}
    if cls == "Substitution":
        return {"t": "Subst", "a": to_json(e.child), "names": list(e.variables),
                "c": [to_json(c) for c in e.values]}
    if cls == "Derivative":
        return {"t": "Deriv", "a": to_json(e.child), "names": list(e.variables)}
    raise Unserialisable(f"{cls}: {e!r}")


def obj_to_json(thunk):
    """Run thunk() that should return a pymbolic object; record the tree or the
    exception class.  {"ok": tree} | {"err": {...}} | {"unser": text}"""
    import warnings
    try:
        with warnings.catch_warnings():
            warnings.simplefilter("ignore")
            res = thunk()
    except RecursionError:
        raise
    except Exception as exc:  # noqa: BLE001
        return {"r": "err", "v": exc_to_json(exc)}
    try:
        return {"r": "ok", "e": to_json(res)}
    except Unserialisable as exc:
        return {"r": "unser", "text": str(exc)[:200]}
