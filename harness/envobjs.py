"""The fixed environment objects; mirrors FnApply / ObjAttr of spec/Eval.tla."""
from __future__ import annotations


class _Fn:
    _verif_kind = "fn"

    def __init__(self, name, base, posw, kww):
        self._verif_name = name
        self.base, self.posw, self.kww = base, posw, kww
        self.calls = []          # call log (laziness / once-only observations)

    def __call__(*pos, **kw):     # (no named parameters: every keyword is the caller's)
        self, args = pos[0], pos[1:]
        if len(args) > 3:
            raise TypeError("too many positional arguments")
        for name in kw:
            if name not in self.kww:
                raise TypeError(f"unexpected keyword argument {name!r}")
        self.calls.append((args, kw.get("k1"), kw.get("k2")))
        res = self.base
        for w, a in zip(self.posw, args):
            res = res + w * a
        for name in self.kww:         # fixed order, not the caller's
            if kw.get(name) is not None:
                res = res + self.kww[name] * kw[name]
        return res


class _Obj:
    _verif_kind = "obj"

    def __init__(self, _verif_name, **attrs):
        self._verif_name = _verif_name
        self.__dict__.update(attrs)


from fractions import Fraction  # noqa: E402

FUNCS = {
    "f": _Fn("f", 1, (2, 3, 5), {"k1": 7, "k2": 11, "expr": 19, "self": 23, "args": 29, "kwargs": 31,
                                 "expression": 37, "context": 41}),
    "g": _Fn("g", 2, (3, 5, 7), {"k1": 13, "k2": 17, "expr": 20, "self": 24, "args": 30, "kwargs": 32,
                                 "expression": 38, "context": 42}),
}
OBJS = {
    "o1": _Obj("o1", p=5, q=Fraction(1, 2), aggregate=7, name=3, _u=9, __w__=-4),
    "o2": _Obj("o2", p=-2),
}


# ---- exact model of the elementary functions: mirrors MathApply of spec/Eval.tla ----
class _MathFn:
    _verif_kind = "fn"

    def __init__(self, name, fn):
        self._verif_name = name
        self.fn = fn

    def __call__(self, *args):
        return self.fn(*[Fraction(a) for a in args])


def _mk_math():
    one, two = Fraction(1), Fraction(2)
    ex = lambda u: one + u * u                      # noqa: E731
    sn = lambda u: two * u / (one + u * u)          # noqa: E731
    cs = lambda u: (one - u * u) / (one + u * u)    # noqa: E731
    sh = lambda u: (ex(u) - one / ex(u)) / two      # noqa: E731
    ch = lambda u: (ex(u) + one / ex(u)) / two      # noqa: E731
    fns = {
        "sin": sn, "cos": cs, "tan": lambda u: sn(u) / cs(u), "exp": ex,
        "expm1": lambda u: ex(u) - one, "sinh": sh, "cosh": ch, "tanh": lambda u: sh(u) / ch(u),
        "log": lambda u: Fraction(3) * u + Fraction(-1, 2),
        "fabs": lambda u: -u if u < 0 else u,
        "copysign": lambda a, b: (-abs(a) if b < 0 else abs(a)),
    }
    return {k: _MathFn(k, v) for k, v in fns.items()}


MATHFNS = _mk_math()
FUNCS.update(MATHFNS)
OBJS["math"] = _Obj("math", **MATHFNS)


class Word:
    """Element of a free monoid: * is concatenation, the number 1 is neutral, nothing else
    is defined.  Mirrors the "word" values of spec/PyNum.tla."""

    def __init__(self, letters):
        self.letters = tuple(letters)

    def __mul__(self, other):
        if isinstance(other, Word):
            return Word(self.letters + other.letters)
        if isinstance(other, int) and not isinstance(other, bool) and other == 1:
            return self
        return NotImplemented

    def __rmul__(self, other):
        if isinstance(other, int) and not isinstance(other, bool) and other == 1:
            return self
        return NotImplemented

    def __eq__(self, other):
        return isinstance(other, Word) and self.letters == other.letters

    def __hash__(self):
        return hash(self.letters)

    def __repr__(self):
        return "Word(%s)" % "".join(self.letters)


class _Map(dict):
    """A mapping keyed by integers and by tuples (mirrors MapGet of spec/Eval.tla)."""
    _verif_kind = "map"
    _verif_name = "m1"


MAPS = {"m1": _Map({(1,): 7, 1: 9, (0, 1): 11})}
