"""The fixed environment objects; mirrors FnApply / ObjAttr of spec/Eval.tla."""
from __future__ import annotations


class _Fn:
    _verif_kind = "fn"

    def __init__(self, name, base, posw, kww):
        self._verif_name = name
        self.base, self.posw, self.kww = base, posw, kww
        self.calls = []          # call log (laziness / once-only observations)

    def __call__(self, *args, k1=None, k2=None):
        if len(args) > 3:
            raise TypeError("too many positional arguments")
        self.calls.append((args, k1, k2))
        res = self.base
        for w, a in zip(self.posw, args):
            res = res + w * a
        if k1 is not None:
            res = res + self.kww["k1"] * k1
        if k2 is not None:
            res = res + self.kww["k2"] * k2
        return res


class _Obj:
    _verif_kind = "obj"

    def __init__(self, name, **attrs):
        self._verif_name = name
        self.__dict__.update(attrs)


from fractions import Fraction  # noqa: E402

FUNCS = {
    "f": _Fn("f", 1, (2, 3, 5), {"k1": 7, "k2": 11}),
    "g": _Fn("g", 2, (3, 5, 7), {"k1": 13, "k2": 17}),
}
OBJS = {
    "o1": _Obj("o1", p=5, q=Fraction(1, 2)),
    "o2": _Obj("o2", p=-2),
}
