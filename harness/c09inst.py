"""C09, instance histories: one DependencyMapper / CachedDependencyMapper /
FlopCounter / CSEAwareFlopCounter / NodeCountMapper instance is called on a
TLC-generated history of expressions; after every call the result and the
projection of the instance's hidden state (memo tables, CSE cache, seen set,
count) are recorded.  TLC (C09_InstJudge) evaluates the state machine's
invariants on every recorded state.  Nothing here decides a verdict."""
from __future__ import annotations

import concurrent.futures as cf
import json
import warnings

from harness import kit, ser

KIND_NAMES = {"dm": "DependencyMapper", "cdm": "CachedDependencyMapper", "fc": "FlopCounter",
              "cse": "CSEAwareFlopCounter", "ncm": "NodeCountMapper"}


def _trees(objs):
    ts = [ser.to_json(x) for x in objs]
    ts.sort(key=lambda t: json.dumps(t, sort_keys=True))
    return ts


def _project(kind, inst):
    """The abstract state hidden in the instance (DESIGN section 6: projected after
    every step)."""
    proj = {"pa": True, "memo": [], "csememo": [], "imemo": [], "seen": [], "count": 0}
    try:
        if kind == "cdm":
            proj["memo"] = sorted(({"e": ser.to_json(k[1]), "val": _trees(v)}
                                   for k, v in inst._cache.items()),
                                  key=lambda t: json.dumps(t, sort_keys=True))
        if kind in ("dm", "cdm"):
            ccd = getattr(inst, "_cse_cache_dict", {})
            proj["csememo"] = sorted(({"e": ser.to_json(k[0]), "val": _trees(v)}
                                      for k, v in ccd.items()),
                                     key=lambda t: json.dumps(t, sort_keys=True))
        if kind == "fc":
            proj["imemo"] = sorted(({"e": ser.to_json(k[1]), "n": int(v)}
                                    for k, v in inst._cache.items()),
                                   key=lambda t: json.dumps(t, sort_keys=True))
        if kind == "cse":
            proj["seen"] = _trees(inst.cse_seen_set)
        if kind == "ncm":
            proj["count"] = int(inst.count)
    except Exception:  # noqa: BLE001 - hidden state not where this projection expects it
        proj = {"pa": False, "memo": [], "csememo": [], "imemo": [], "seen": [], "count": 0}
    return proj


def drive_hist(case, extra):
    from harness.c09 import flag_kwargs
    from pymbolic.mapper.analysis import NodeCountMapper
    from pymbolic.mapper.dependency import CachedDependencyMapper, DependencyMapper
    from pymbolic.mapper.flop_counter import CSEAwareFlopCounter, FlopCounter

    kind = case["kind"]
    kw = flag_kwargs(extra["flags"][case["raw"] - 1])
    with warnings.catch_warnings():
        warnings.simplefilter("ignore")
        inst = {"dm": lambda: DependencyMapper(**kw), "cdm": lambda: CachedDependencyMapper(**kw),
                "fc": FlopCounter, "cse": CSEAwareFlopCounter, "ncm": NodeCountMapper}[kind]()
    obs = []
    for ej in case["h"]:
        expr = ser.from_json(ej)
        res = {"r": "ok", "s": [], "n": 0}
        try:
            with warnings.catch_warnings():
                warnings.simplefilter("ignore")
                val = inst(expr)
            if kind in ("dm", "cdm"):
                if isinstance(val, (set, frozenset)):
                    res["s"] = _trees(val)
                else:
                    res = {"r": "bad", "s": [], "n": 0}
            elif kind in ("fc", "cse"):
                if isinstance(val, int) and not isinstance(val, bool) and abs(val) < 10**6:
                    res["n"] = val
                else:
                    res = {"r": "bad", "s": [], "n": 0}
        except RecursionError:
            raise
        except ser.Unserialisable:
            res = {"r": "bad", "s": [], "n": 0}
        except Exception as exc:  # noqa: BLE001
            res = {"r": "err", "s": [], "n": 0, "v": ser.exc_to_json(exc)}
        o = _project(kind, inst)
        o["res"] = res
        obs.append(o)
        # the caller's expression goes away before the next one is built (addresses are reused)
        expr = val = None
    return {"id": case["id"], "kind": kind, "raw": case["raw"], "h": case["h"], "obs": obs}


def _flagstr(raw):
    return "subscripts=%s,lookups=%s,calls=%s,cses=%s,composite_leaves=%s" % (
        raw["is"], raw["il"], raw["ic"], raw["ics"], raw["cl"])


def judge_and_classify(recs, wd, out, flags):
    shards = kit.write_shards(recs, wd / "itrace", "c09inst", max(500, min(4000, len(recs) // 2 + 1)))
    verdicts, st, tr = kit.judge_shards("C09_InstJudge", "C09_InstJudge", shards)
    out.states += st
    out.transitions += tr
    out.traces += len(recs)
    byid = {r["id"]: r for r in recs}
    nfail = 0
    for v in verdicts:
        if v.get("v") == "SKIP":
            out.skipped += v.get("n", 1)
            continue
        if v.get("v") == "DRIFT":
            out.drift += v.get("n", 1)
            continue
        rec = byid[v["id"]]
        for f in sorted(v["fails"], key=lambda f: (f["step"], f["cl"])):
            nfail += 1
            i = f["step"]
            sig = {"clause": f["cl"], "mapper": KIND_NAMES[rec["kind"]], "step": i,
                   "history": [h["t"] for h in rec["h"][:i]]}
            if rec["kind"] in ("dm", "cdm"):
                sig["flags"] = _flagstr(flags[rec["raw"] - 1])
            out.fail(sig, {"history": {"kind": rec["kind"], "raw": rec["raw"], "h": rec["h"]},
                           "failing": f, "recorded_after_step": rec["obs"][i - 1]})
    return nfail


INST_NEG = ["csememo_body", "seen_reset", "count_visits"]


def negative_controls(out):
    def one(bug):
        return bug, kit.run_tlc("C09_Inst", f"C09_Inst_neg_{bug}", workers=2, heap="1g",
                                tag=f"C09_Inst.neg.{bug}")
    bad = []
    with cf.ThreadPoolExecutor(max_workers=3) as ex:
        for bug, r in ex.map(one, INST_NEG):
            out.add_tlc(r)
            if "InstInvHolds" not in r.invariant_violated:
                bad.append(bug)
    if bad:
        raise kit.MachineryError(f"C09 instance-model negative controls not refuted: {bad}")
    out.extra["instance_negative_control_runs_refuted"] = len(INST_NEG)


def run_instances(tier, seed, out, wd, flags):
    gen = kit.run_tlc("C09_Inst", f"C09_Inst_{tier}", workers=8)
    kit.require_clean(gen, "C09 instance state machine (invariants over all histories)")
    out.add_tlc(gen)
    cases = [p for p in gen.printed() if "h" in p]
    if not cases:
        raise kit.MachineryError("C09_Inst printed no histories")
    for i, c in enumerate(cases):
        c["id"] = i
    neg = [p["instnegcontrols"] for p in gen.printed() if "instnegcontrols" in p]
    if neg != [len(INST_NEG)]:
        raise kit.MachineryError("C09_Inst did not evaluate its negative controls")
    out.extra["instance_negative_controls_refuted"] = neg[0]
    if tier == "thorough":
        negative_controls(out)
    kit.log(f"C09: instance model: {gen.distinct} states, invariants hold; {len(cases)} maximal "
            f"histories emitted ({gen.wall:.1f}s); {len(INST_NEG)} seeded defects refuted")
    recs = kit.drive("harness.c09inst", "drive_hist", cases, {"flags": flags}, chunk=100)
    out.evaluations += sum(len(r["h"]) for r in recs)
    nfail = judge_and_classify(recs, wd, out, flags)
    out.extra["instance_histories"] = len(recs)
    out.extra["instance_model_states"] = gen.distinct
    kit.log(f"C09: {len(recs)} instance histories trace-validated, {nfail} failing clauses, "
            f"drift so far {out.drift}")
    for r in recs:
        out.note_case({"kind": r["kind"], "raw": r["raw"], "h": r["h"]}, nontrivial=True)
    out.samples.append({"instance_history": {"mapper": KIND_NAMES[recs[len(recs) // 2]["kind"]],
                                             "calls": recs[len(recs) // 2]["h"]},
                        "recorded_after_each_call": recs[len(recs) // 2]["obs"]})


def replay(detail, out):
    wd = kit.fresh_workdir("C09")
    meta = kit.run_tlc("C09_Gen", "C09_Gen_meta", workers=2)
    kit.require_clean(meta, "C09 flags table")
    flags = [p["flags"] for p in meta.printed() if "flags" in p][0]
    case = dict(detail["history"])
    case["id"] = 0
    recs = kit.drive("harness.c09inst", "drive_hist", [case], {"flags": flags})
    out.evaluations += len(case["h"])
    judge_and_classify(recs, wd, out, flags)
    out.samples = [{"instance_history": case, "recorded": recs[0]["obs"]}]
    out.rule = "replay of one stored instance history"
