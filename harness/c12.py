"""C12 - common-subexpression handling keeps meaning and shares work.

Pipeline (DESIGN 3.1):
  (1) TLC  C12_Gen            lists of expressions with heavy sharing + helper cells; model check of
                              the S-layer cache invariants and of the transcribed tagger
           C12_CSEEvalCache   S-layer state machine: every history of evaluations on fresh / reused
                              evaluator instances over a catalogue of hand-wrapped expressions
           Buggy_* cfgs       negative controls TLC must refute on the model
  (2) drive real pymbolic     tag_common_subexpressions, CSEWalkMapper/CSETagMapper, wrap_in_cse,
                              make_common_subexpression, instrumented EvaluationMapper instances;
                              every list once per object-sharing layout (build_list)
  (3) TLC  C12_Judge          tag / helper records judged with the M- and S-layer operators
           C12_HJudge         history traces: one TLC step per recorded event
  (4) classify, (5) evidence.
The driver records; it never decides."""
from __future__ import annotations

import concurrent.futures as cf
import json

from harness import kit, ser

_ENVS = None
# TLC evaluates the recursive operators on the Java stack; the default 1 MB thread stack was
# seen to overflow sporadically (JIT dependent) on deep random lists
JENV = {"JAVA_TOOL_OPTIONS": "-Xss16m"}

NEG_CONTROLS = [
    # (module, cfg, invariant TLC must report as violated, run in the quick tier?)
    ("C12_CSEEvalCache", "C12_CSEEvalCache_Buggy_NoCache", "Inv_ChildOncePerInstance", True),
    ("C12_CSEEvalCache", "C12_CSEEvalCache_Buggy_SharedCache", "Inv_ReturnedAllDone", True),
    ("C12_CSEEvalCache", "C12_CSEEvalCache_Buggy_KeyIgnoresPrefix", "Inv_ReturnedAllDone", False),
    ("C12_Gen", "C12_Gen_Buggy_KeyDropsCounts", "TagModelMeetsProperty", True),
    ("C12_Gen", "C12_Gen_Buggy_KeyDropsType", "TagModelMeetsProperty", False),
    ("C12_Gen", "C12_Gen_Buggy_NoCanonical", "TagModelMeetsProperty", True),
    ("C12_Gen", "C12_Gen_Buggy_NeverTag", "TagModelMeetsProperty", False),
    ("C12_Gen", "C12_Gen_Buggy_WrapNested", "TagModelMeetsProperty", False),
    # round 2: a handler's "nothing changed" shortcut that does not look at every child position
    ("C12_Gen", "C12_Gen_Buggy_ShortcutSkipsFunction", "TagModelMeetsProperty", True),
    ("C12_Gen", "C12_Gen_Buggy_ShortcutSkipsLast", "TagModelMeetsProperty", False),
    # round 3: a use-count walk that depends on which equal operands are ONE object
    ("C12_Gen", "C12_Gen_Buggy_WalkDedupsSharedOperands", "TagModelMeetsProperty", True),
    ("C12_Gen", "C12_Gen_Buggy_WalkSkipsSeenObjects", "TagModelMeetsProperty", False),
    # round 4: a use-count walk that does not go on below a pre-existing wrapper
    ("C12_Gen", "C12_Gen_Buggy_WrapperCountStopsAtChild", "TagModelMeetsProperty", True),
    ("C12_Gen", "C12_Gen_Buggy_WrapperCountSkipsChild", "TagModelMeetsProperty", False),
]
NO_LAYOUT = {"mode": "none", "gs": [], "cls": "none"}


def _envs(extra):
    global _ENVS
    if _ENVS is None:
        _ENVS = [{k: ser.json_to_val(v) for k, v in env.items()} for env in extra["envs"]]
    return _ENVS


# ------------------------------------------------------------------ driver side
class _Hang(Exception):
    """A single case ran for minutes: machinery failure, never a silent hang."""


def _on_alarm(signum, frame):
    raise _Hang("C12 driver: one case exceeded 120 s")


def _call_to_json(thunk):
    """ser.call_to_json, but the watchdog's exception is never taken for an observation."""
    import warnings
    try:
        with warnings.catch_warnings():
            warnings.simplefilter("ignore")
            return ser.val_to_json(thunk())
    except (_Hang, RecursionError):
        raise
    except Exception as exc:  # noqa: BLE001 - the exception class is the observation
        return ser.exc_to_json(exc)


class _NodeTable:
    """Distinct trees seen in events, referred to by index (keeps traces small)."""

    def __init__(self):
        self.nodes, self.index = [], {}

    def ix(self, expr):
        j = ser.to_json(expr)
        k = json.dumps(j, sort_keys=True)
        if k not in self.index:
            self.index[k] = len(self.nodes)
            self.nodes.append(j)
        return self.index[k]


def _instrumented(cls="plain"):
    from pymbolic.mapper.evaluator import CachedEvaluationMapper, EvaluationMapper
    base = CachedEvaluationMapper if cls == "cached" else EvaluationMapper

    class Instr(base):
        """(Cached)EvaluationMapper whose operation handlers and wrapper-child handler log
        their invocation before / around delegating to super()."""

        def __init__(self, context, log):
            super().__init__(context)
            self._vlog = log

        def map_sum(self, expr):
            self._vlog("op", expr)
            return super().map_sum(expr)

        def map_product(self, expr):
            self._vlog("op", expr)
            return super().map_product(expr)

        def map_quotient(self, expr):
            self._vlog("op", expr)
            return super().map_quotient(expr)

        def map_floor_div(self, expr):
            self._vlog("op", expr)
            return super().map_floor_div(expr)

        def map_remainder(self, expr):
            self._vlog("op", expr)
            return super().map_remainder(expr)

        def map_power(self, expr):
            self._vlog("op", expr)
            return super().map_power(expr)

        def map_call(self, expr):
            self._vlog("op", expr)
            return super().map_call(expr)

        def map_common_subexpression_uncached(self, expr):
            self._vlog("child", expr)
            res = super().map_common_subexpression_uncached(expr)
            self._vlog("done", expr)
            return res

    return Instr


def _evaluate_logged(inst, expr, emit, table):
    """One top-level evaluation: begin, (logged events), ret | raise."""
    import warnings
    emit({"ev": "begin", "n": table.ix(expr)})
    try:
        with warnings.catch_warnings():
            warnings.simplefilter("ignore")
            val = inst(expr)
    except (_Hang, RecursionError):
        raise
    except Exception as exc:  # noqa: BLE001 - the exception class is the observation
        emit({"ev": "raise", "val": ser.exc_to_json(exc)})
        return ser.exc_to_json(exc)
    v = ser.val_to_json(val)
    emit({"ev": "ret", "val": v})
    return v


def _ncalls():
    from harness import envobjs
    return sum(len(envobjs.FUNCS[name].calls) for name in ("f", "g"))


# ---- round 3: the list is built as its object-sharing layout says ----------------------
def _kids(j):
    """Children of a tree record in the order of Expr.tla's Kids."""
    t = j["t"]
    if t in ("Var", "Const", "None"):
        return []
    if t in ser._NARY or t in ("Tup", "List"):
        return list(j["c"])
    if t in ser._BIN or t == "Cmp":
        return [j["a"], j["b"]]
    if t in ser._UN or t in ("Look", "CSE"):
        return [j["a"]]
    if t == "If":
        return [j["i"], j["th"], j["el"]]
    if t == "Call":
        return [j["f"], *j["c"]]
    if t == "CallKw":
        return [j["f"], *j["c"], *[kw["e"] for kw in j["kw"]]]
    raise kit.MachineryError(f"C12 driver: no child order for node kind {t!r}")


def _construct(j, ks):
    """The node j over the already built child objects ks (constructors only, as ser.from_json)."""
    import pymbolic.primitives as p
    from immutabledict import immutabledict
    t = j["t"]
    if t in ("Var", "Const", "None"):
        return ser.from_json(j)
    if t == "Tup":
        return tuple(ks)
    if t == "List":
        return list(ks)
    if t in ser._NARY:
        return getattr(p, ser._NARY[t])(tuple(ks))
    if t in ser._BIN:
        return getattr(p, ser._BIN[t])(ks[0], ks[1])
    if t in ser._UN:
        return getattr(p, ser._UN[t])(ks[0])
    if t == "Cmp":
        return p.Comparison(ks[0], j["op"], ks[1])
    if t == "If":
        return p.If(ks[0], ks[1], ks[2])
    if t == "Call":
        return p.Call(ks[0], tuple(ks[1:]))
    if t == "CallKw":
        n = len(j["c"])
        return p.CallWithKwargs(ks[0], tuple(ks[1:1 + n]),
                                immutabledict({kw["name"]: k for kw, k in zip(j["kw"], ks[1 + n:])}))
    if t == "Look":
        return p.Lookup(ks[0], j["name"])
    if t == "CSE":
        return p.CommonSubexpression(ks[0], j["prefix"] or None, j["scope"])
    raise kit.MachineryError(f"C12 driver: cannot construct node kind {t!r}")


def build_list(ins, lay):
    """The list of input expressions with the object sharing the layout asks for:
    none - every node a new object; all - equal subtrees (leaves included) are one object;
    groups - the occurrences (paths in Kids order from the list) of one group are ONE object,
    built where the group's first path stands and re-used at the others; everything else is a
    new object at every occurrence."""
    mode = lay["mode"]
    if mode == "none":
        return [ser.from_json(e) for e in ins]
    if mode == "all":
        return list(ser.from_json_shared({"t": "Tup", "c": ins}))
    gid = {tuple(pth): gi for gi, g in enumerate(lay["gs"]) for pth in g}
    memo, used = {}, set()

    def build(j, path):
        gi = gid.get(path)
        if gi is not None:
            used.add(path)
            if gi in memo:
                if memo[gi][0] != j:
                    raise kit.MachineryError(f"C12 driver: layout group {gi} joins unequal subtrees")
                return memo[gi][1]
        obj = _construct(j, [build(k, path + (i + 1,)) for i, k in enumerate(_kids(j))])
        if gi is not None:
            memo[gi] = (j, obj)
        return obj

    objs = [build(e, (i + 1,)) for i, e in enumerate(ins)]
    if used != set(gid) or [ser.to_json(o) for o in objs] != ins:
        raise kit.MachineryError("C12 driver: layout paths do not fit the list / list not rebuilt faithfully")
    return objs


def drive_tag(case, extra):
    """One tagging case: the list is built once per object-sharing layout ("none" first) and the
    whole observation is recorded per layout; equal observations are stored once (runs[i] is
    the 1-based index of the observation of layout i)."""
    lays = [NO_LAYOUT] + list(case.get("shs", []))
    obs, keys, runs = [], {}, []
    for lay in lays:
        o = _observe_tag(case, build_list(case["ins"], lay), extra)
        k = json.dumps(o, sort_keys=True)
        if k not in keys:
            obs.append(o)
            keys[k] = len(obs)
        runs.append(keys[k])
    return {"id": case["id"], "kind": "tag", "ins": case["ins"], "shs": lays, "runs": runs, "obs": obs}


def _observe_tag(case, ins, extra):
    import warnings
    from pymbolic.cse import tag_common_subexpressions
    from pymbolic.mapper.cse_tagger import CSETagMapper, CSEWalkMapper
    Instr = _instrumented()
    envs = _envs(extra)
    rec = {"r": "ok", "outs": [],
           "nodes": [], "evs": [], "vals": [], "fcalls": 0, "houts": [], "hvals": []}
    try:
        with warnings.catch_warnings():
            warnings.simplefilter("ignore")
            outs = tag_common_subexpressions(ins)
        rec["outs"] = [ser.to_json(o) for o in outs]
    except (_Hang, RecursionError):
        raise
    except Exception as exc:  # noqa: BLE001
        rec["r"] = "err"
        rec["err"] = ser.exc_to_json(exc)
        return rec
    table = _NodeTable()
    for k, env in enumerate(envs):
        evs = []
        if k == 0:
            def log(kind, expr, evs=evs):
                evs.append({"ev": kind, "n": table.ix(expr)})
        else:
            def log(kind, expr):
                return None
        inst = Instr(env, log)            # ONE instance evaluates every output
        before = _ncalls()
        rec["vals"].append([_evaluate_logged(inst, o, evs.append, table) for o in outs])
        if k == 0:
            rec["evs"] = evs
            rec["fcalls"] = _ncalls() - before
    rec["nodes"] = table.nodes
    # the histogram-based tagger, one histogram over the whole list
    try:
        with warnings.catch_warnings():
            warnings.simplefilter("ignore")
            walk = CSEWalkMapper()
            for e in ins:
                walk(e)
            tagger = CSETagMapper(walk)
            houts = [tagger(e) for e in ins]
        rec["houts"] = [ser.to_json(o) for o in houts]
        for env in envs:
            inst = Instr(env, lambda kind, expr: None)
            rec["hvals"].append([_call_to_json(lambda o=o: inst(o)) for o in houts])
    except (_Hang, RecursionError):
        raise
    except Exception as exc:  # noqa: BLE001
        rec["houts"] = []
        rec["hvals"] = []
        rec["herr"] = ser.exc_to_json(exc)
    return rec


def drive_hist(case, extra):
    Instr = _instrumented(case.get("cls", "plain"))
    envs = _envs(extra)
    exprs = [ser.from_json(e) for e in case["exprs"]]
    table = _NodeTable()
    evs = []
    insts = {}
    for step in case["h"]:
        i, x = step["i"], step["x"]
        if i not in insts:                      # a fresh evaluator instance
            def log(kind, expr, i=i):
                evs.append({"i": i, "ev": kind, "n": table.ix(expr)})
            insts[i] = Instr(envs[(i - 1) % len(envs)], log)

        def emit(ev, i=i):
            ev["i"] = i
            evs.append(ev)
        _evaluate_logged(insts[i], exprs[x - 1], emit, table)
    return {"id": case["id"], "kind": "hist", "cls": case.get("cls", "plain"),
            "exprs": case["exprs"], "h": case["h"], "nodes": table.nodes, "evs": evs}


def _arg_from_json(j):
    import numpy as np
    t = j["t"]
    if t == "Arr":
        arr = np.empty(tuple(j["shape"]), dtype=object)
        for k, idx in enumerate(np.ndindex(*j["shape"])):
            arr[idx] = ser.from_json(j["c"][k])
        return arr
    if t == "MV":
        from pymbolic.geometric_algebra import MultiVector, Space
        return MultiVector({b: ser.from_json(c) for b, c in zip(j["bits"], j["c"])}, Space(3))
    return ser.from_json(j)


def _res_to_json(res):
    import numpy as np
    import pymbolic.primitives as p
    from pymbolic.geometric_algebra import MultiVector
    if isinstance(res, p.CommonSubexpression) and isinstance(res.child, (np.ndarray, MultiVector)):
        # a wrapper around a whole aggregate: recorded as such, the spec judges it
        return {"t": "CSE", "a": _res_to_json(res.child), "prefix": res.prefix or "",
                "scope": res.scope}
    if isinstance(res, np.ndarray):
        if res.dtype.char != "O":
            raise ser.Unserialisable("non-object array")
        return {"t": "Arr", "shape": list(res.shape),
                "c": [ser.to_json(res[idx]) for idx in np.ndindex(*res.shape)]}
    if isinstance(res, MultiVector):
        bits = sorted(res.data)
        return {"t": "MV", "bits": bits, "c": [ser.to_json(res.data[b]) for b in bits]}
    return ser.to_json(res)


def drive_wrap(case, extra):
    import warnings
    import pymbolic.primitives as p
    rec = {"id": case["id"], "kind": "wrap", "fn": case["fn"], "arg": case["arg"],
           "prefix": case["prefix"], "scope": case["scope"]}
    arg = _arg_from_json(case["arg"])
    prefix = case["prefix"] or None
    scope = case["scope"] or None
    try:
        with warnings.catch_warnings():
            warnings.simplefilter("ignore")
            if case["fn"] == "wrap_in_cse":
                res = p.wrap_in_cse(arg, prefix)
            else:
                res = p.make_common_subexpression(arg, prefix, scope)
    except (_Hang, RecursionError):
        raise
    except Exception as exc:  # noqa: BLE001
        rec["res"] = {"r": "err", "v": ser.exc_to_json(exc)}
        return rec
    try:
        rec["res"] = {"r": "ok", "e": _res_to_json(res)}
    except ser.Unserialisable as exc:
        rec["res"] = {"r": "unser", "text": str(exc)[:200]}
    return rec


def drive_case(case, extra):
    import signal
    signal.signal(signal.SIGALRM, _on_alarm)
    signal.alarm(120)
    try:
        return {"tag": drive_tag, "hist": drive_hist, "wrap": drive_wrap}[case["kind"]](case, extra)
    finally:
        signal.alarm(0)


# ------------------------------------------------------------------ check side
def _group(clause):
    if clause in ("not-shared", "RepeatedOpOnce", "call-count"):
        return "sharing"
    if clause.startswith("value") or clause == "ValuesRight":
        return "value"
    return clause


def classify(out, reports, byid, counters):
    for r in reports:
        rec = byid[r["id"]]
        if rec["kind"] == "hist":
            out.skipped += r.get("skip", 0)
            counters["drift"] += r.get("drift", 0)
            if r["v"] != "OK":
                sig = {"family": "history", "clause": r["v"], "event": r.get("ev", "")}
                if rec.get("cls", "plain") != "plain":
                    sig["evaluator"] = rec["cls"]
                out.fail(sig, {"case": {"id": rec["id"], "kind": "hist", "cls": rec.get("cls", "plain"),
                                        "exprs": rec["exprs"], "h": rec["h"]},
                               "recorded_events": rec["evs"], "nodes": rec["nodes"],
                               "verdict": r})
            continue
        out.skipped += r.get("skip", 0)
        for d in r.get("drift", []):
            counters["drift"] += 1
            counters.setdefault("drift_" + d, 0)
            counters["drift_" + d] += 1
        for o in r.get("obs", []):
            counters.setdefault("obs_" + o, 0)
            counters["obs_" + o] += 1
        seen = set()
        for f in r.get("fails", []):
            if rec["kind"] == "tag":
                sig = {"family": "tagging", "clause": _group(f["c"]), "pattern": f["pat"]}
                if f.get("hosts"):
                    # where (parent kind : child position) the unshared occurrences stand
                    sig["host"] = ",".join(sorted(set(f["hosts"])))
                if f.get("lay"):
                    # the failure is seen only when equal input nodes are ONE object: which ones
                    sig["objects"] = f["lay"]
                case = {"id": rec["id"], "kind": "tag", "ins": rec["ins"], "shs": rec["shs"][1:]}
                ob = rec["obs"][f.get("ob", 1) - 1]
                detail = {"case": case, "failing_clause": f["c"], "layouts": rec["shs"],
                          "observation_of_layout": rec["runs"], "outs": ob.get("outs"),
                          "vals": ob.get("vals"), "verdict": r}
            else:
                sig = {"family": "helper", "clause": f["c"], "pattern": f["pat"]}
                case = {k: rec[k] for k in ("id", "kind", "fn", "arg", "prefix", "scope")}
                detail = {"case": case, "recorded": rec.get("res"), "verdict": r}
            k = kit.sig_key(sig)
            if k in seen:
                continue
            seen.add(k)
            out.fail(sig, detail)
    out.drift += counters["drift"]


def _judge_shards(module, shard_paths, jvms=2, workers=8):
    """kit.judge_shards with the larger thread stack; a shard whose TLC run dies of an
    infrastructure error (seen sporadically on the heavily shared machine: stack overflow in
    a worker thread, JVM start-up failures) is judged once more - verdict lines are never
    retried or dropped, a second failure is a machinery failure with TLC's own message."""
    from pathlib import Path
    verdicts, states, trans = [], 0, 0

    def one(pth):
        last = None
        for attempt in (1, 2):
            e = dict(JENV)
            e["TRACE_FILE"] = str(pth)
            r = kit.run_tlc(module, module, workers=workers, env=e, heap="6g",
                            tag=f"{module}.{Path(pth).stem}.{attempt}")
            if r.rc == 0 and "Error:" not in r.out:
                return r
            lines = r.out.splitlines()
            msg = [ln for i, ln in enumerate(lines)
                   if any("Error" in x or "Exception" in x for x in lines[max(0, i - 2):i + 1])
                   and not ln.startswith('"')][:12]
            kit.log(f"C12: TLC run on {Path(pth).name} failed (attempt {attempt}, rc={r.rc}): "
                    + " | ".join(msg))
            last = msg
        raise kit.MachineryError(f"TLC failed twice in judging {pth}: " + " | ".join(last or []))

    with cf.ThreadPoolExecutor(max_workers=jvms) as ex:
        for r in ex.map(one, shard_paths):
            verdicts.extend(r.printed())
            states += r.distinct
            trans += r.generated
    return verdicts, states, trans


def judge(out, recs, wd, counters):
    tagw = [r for r in recs if r["kind"] in ("tag", "wrap")]
    hist = [r for r in recs if r["kind"] == "hist"]
    jobs = []
    if tagw:
        jobs.append(("C12_Judge", kit.write_shards(tagw, wd / "trace", "c12", 2500)))
    if hist:
        jobs.append(("C12_HJudge", kit.write_shards(hist, wd / "trace", "c12h", 2500)))
    reports = []
    with cf.ThreadPoolExecutor(max_workers=2) as ex:
        for reps, st, tr in ex.map(lambda j: _judge_shards(j[0], j[1]), jobs):
            reports += reps
            out.states += st
            out.transitions += tr
    out.traces += len(recs)
    classify(out, reports, {r["id"]: r for r in recs}, counters)


def negative_controls(everything=True):
    """Every Buggy_* configuration must make TLC report the named invariant violated
    (quick tier: the four cheapest / most important ones, thorough and selftest: all)."""
    def one(nc):
        res = kit.run_tlc(nc[0], nc[1], workers=2, heap="2g", env=JENV)
        return nc, res
    todo = [nc for nc in NEG_CONTROLS if everything or nc[3]]
    refuted = []
    with cf.ThreadPoolExecutor(max_workers=4) as ex:
        for (mod, cfg, inv, _q), res in ex.map(one, todo):
            if inv not in res.invariant_violated:
                tail = "\n".join(res.out.splitlines()[-25:])
                raise kit.MachineryError(
                    f"negative control {cfg}: TLC did not report {inv} violated\n{tail}")
            refuted.append(cfg)
    return refuted


def selftest():
    """All negative controls (also part of the thorough tier)."""
    return negative_controls(True)


def _has_wrapper(j):
    if isinstance(j, dict):
        return j.get("t") == "CSE" or any(_has_wrapper(v) for v in j.values())
    if isinstance(j, list):
        return any(_has_wrapper(v) for v in j)
    return False


def run(tier, seed, out):
    wd = kit.fresh_workdir("C12")
    counters = {"drift": 0}
    with cf.ThreadPoolExecutor(max_workers=3) as ex:
        fgen = ex.submit(kit.run_tlc, "C12_Gen", f"C12_Gen_{tier}", workers=10, env=JENV)
        fhis = ex.submit(kit.run_tlc, "C12_CSEEvalCache", f"C12_CSEEvalCache_{tier}", workers=4,
                         heap="4g", env=JENV)
        fneg = ex.submit(negative_controls, tier == "thorough")
        gen, his, refuted = fgen.result(), fhis.result(), fneg.result()
    kit.require_clean(gen, "C12_Gen (cache invariants on the model, helper tables, generation)")
    kit.require_clean(his, "C12_CSEEvalCache (S-layer invariants + CacheOnlyGrows over all histories)")
    out.add_tlc(gen)
    out.add_tlc(his)
    printed = gen.printed()
    envs = [p["envs"] for p in printed if "envs" in p]
    cases = [p for p in printed if p.get("kind") in ("tag", "wrap")]
    design = [p for p in printed if "design" in p]
    hcases = [p for p in his.printed() if p.get("kind") == "hist"]
    if len(envs) != 1 or not cases or not hcases:
        raise kit.MachineryError("C12 generators printed no environments / cases")
    nexh = len(cases)
    if tier == "thorough":
        rnd = kit.run_tlc("C12_Gen", "C12_Gen_rand", simulate="num=80", depth=12, seed=seed,
                          env=JENV)
        kit.require_clean(rnd, "C12 random lists (-simulate)")
        out.add_tlc(rnd)
        more = [p for p in rnd.printed() if p.get("kind") == "tag"]
        design += [p for p in rnd.printed() if "design" in p]
        seen = {json.dumps(c, sort_keys=True) for c in cases}
        for c in more:
            k = json.dumps(c, sort_keys=True)
            if k not in seen:
                seen.add(k)
                cases.append(c)
        kit.log(f"C12: -simulate seed={seed} added {len(cases) - nexh} distinct random lists "
                f"({rnd.wall:.1f}s)")
    if tier == "thorough":
        # the same histories on instances of the memoising evaluator as well
        hcases = hcases + [dict(h, cls="cached") for h in hcases]
    cases += hcases
    for i, c in enumerate(cases):
        c["id"] = i
    dclasses = sorted({(d["design"], d["pat"]) for d in design})
    kit.log(f"C12: TLC generated {nexh} tag/helper cases ({gen.distinct} states, {gen.wall:.1f}s), "
            f"{len(hcases)} histories ({his.distinct} states, {his.wall:.1f}s); "
            f"{len(refuted)} negative controls refuted; design-level classes on the model: {dclasses}")
    recs = kit.drive("harness.c12", "drive_case", cases, {"envs": envs[0]}, chunk=150)
    for r in recs:
        if r["kind"] == "tag":
            out.evaluations += len(r["runs"]) * (2 + len(r["obs"][0].get("vals", [])) * len(r["ins"]) * 2)
        elif r["kind"] == "hist":
            out.evaluations += len(r["h"])
        else:
            out.evaluations += 1
    judge(out, recs, wd, counters)
    for r in recs:
        if r["kind"] == "tag":
            out.note_case(r["ins"], nontrivial=(r["obs"][0].get("outs") != r["ins"] or _has_wrapper(r["ins"])))
        elif r["kind"] == "hist":
            out.note_case([r["exprs"], r["h"]], nontrivial=len(r["h"]) > 1)
        else:
            out.note_case([r["fn"], r["arg"], r["prefix"], r["scope"]], nontrivial=True)
    tags = [r for r in recs if r["kind"] == "tag"]
    hists = [r for r in recs if r["kind"] == "hist"]
    wraps = [r for r in recs if r["kind"] == "wrap"]
    out.samples = []
    for fam in (tags, hists, wraps):
        if fam:
            r = fam[len(fam) // 2]
            out.samples.append({k: v for k, v in r.items() if k not in ("hvals",)})
    out.extra["tag_lists"] = len(tags)
    out.extra["tag_runs_over_object_sharing_layouts"] = sum(len(r["runs"]) for r in tags)
    out.extra["tag_lists_whose_observation_depends_on_object_sharing"] = len(
        [r for r in tags if len(r["obs"]) > 1])
    out.extra["tag_lists_exhaustive"] = nexh - len(wraps)
    out.extra["evaluation_histories"] = len(hists)
    out.extra["helper_cells"] = len(wraps)
    out.extra["negative_controls_refuted_on_model"] = refuted
    out.extra["design_level_classes_on_model"] = [list(d) for d in dclasses]
    out.extra["design_level_failures_on_model"] = len([d for d in design if d["design"] != "OK"])
    out.extra["out_of_scope_lists_not_shared_on_model"] = len([d for d in design if d["design"] == "OK"])
    out.extra["observations"] = {k: v for k, v in counters.items() if k != "drift"}
    out.rule = ("TLC enumerates (a) lists of 1-3 expressions: list skeletons whose typed holes are "
                "filled from a sharing-heavy pool (repeated, commuted, multiplicity twins, nested "
                "repeated subterms, pre-existing wrappers with/without prefix and scope), and for every "
                "node kind of the stock mappers (calls incl. a call / a conditional in the function "
                "position, keyword calls, subscripts, lookups, conditionals, comparisons, logical, "
                "bitwise, min/max, the seven operation kinds, wrappers) and EVERY child position at "
                "any depth a repeated operation in that position with leaves as siblings, as 'host + "
                "bare repeat' and 'two hosts with other siblings', and every taggable kind repeated "
                "ONLY as operands of one node, and pre-existing wrappers (no scope / scope / prefix) that "
                "carry the repeated operation at every depth below the wrapper (direct child, operand of "
                "the child, deeper, parameter / function of a call inside) with the further occurrence(s) "
                "outside before / after / in the same expression, inside another pre-existing wrapper, "
                "twice inside the same wrapper only, below nested pre-existing wrappers, as a commuted "
                "twin; every list is driven once per object-sharing layout TLC "
                "lists for it (no sharing; all occurrences of a repeated value one object; only the "
                "operands of one node one object; thorough: any two of 3-4 occurrences, two values at "
                "once; everything hash-consed) and every distinct observation is judged; (b) every "
                "history of <= MaxH top-level evaluations over <= NInst fresh/reused evaluator "
                "instances for every 1- or 2-element list of a catalogue of hand-wrapped "
                "expressions; (c) every helper cell (helper x argument class x prefix x scope); "
                "thorough adds -simulate random deeper lists.  Non-trivial: a tag list whose "
                "output differs from its input or that carries a wrapper; a history with more "
                "than one evaluation; every helper cell.  Distinct by canonical JSON digest.")
    out.exhaustive = True
    out.assumptions += [
        "object sharing of the input: layouts are generated per repeated composite value (all / same-node / "
        "pairs / two values / hash-consing), not every partition of every occurrence set; the evaluation "
        "histories are driven with separately built nodes only",
        "CPython numeric semantics as transcribed in PyNum.tla / Eval.tla",
        "inside a case no two constants are == without being identical, so == on trees is "
        "structural equality",
        "ChildOncePerInstance is read per evaluator instance (its cache lives as long as the instance)",
        "executed nodes are identified with input operations by RecKey (wrappers and operand order "
        "forgotten); keys unknown to the input are not judged (counted as observation)",
        "helper cells on which the statement and the helper's own documentation disagree "
        "(wrap_in_cse on constants, make_common_subexpression on variables/subscripts and on a "
        "wrapper with a wider scope) are not judged (observation 'unspecified-cell')",
        "the histogram tagger (mapper/cse_tagger) is judged for value only; its sharing and nesting "
        "are observations",
        "the sharing sentences are judged on lists built from variables, constants, sums, products, "
        "divisions, powers, calls and pre-existing wrappers (the statement's list); lists carrying any "
        "other node kind are judged for value, wrapper-on-wrapper and the cache invariants, their "
        "sharing is the observation 'out-of-scope-not-shared'",
        "ReturnedAllDone / DoneClosed ask for the wrappers the evaluation reaches (Python's if / any / "
        "all skip operands); without conditionals that is every wrapper",
    ]


def replay(path, out):
    wd = kit.fresh_workdir("C12")
    d = json.loads(open(path).read())
    case = d["detail"]["case"]
    gen = kit.run_tlc("C12_Gen", "C12_Gen_envs", workers=1, heap="1g", env=JENV)  # prints the box
    envs = [p["envs"] for p in gen.printed() if "envs" in p]
    if len(envs) != 1:
        raise kit.MachineryError("C12 replay: could not obtain the environments from the spec")
    recs = kit.drive("harness.c12", "drive_case", [case], {"envs": envs[0]})
    judge(out, recs, wd, {"drift": 0})
