"""C14 - generated C code computes what the evaluator computes; the CSE name table
of a CCodeMapper (and its copies) stays unique / defined-before-use / once-per-child.

Two halves, both TLC -> drive -> TLC:
  values : C14_Gen (TLC enumerates the C-expressible trees) -> CCodeMapper text +
           hoists -> gcc -> run -> C14_Judge (TLC: printed value vs Eval)
  names  : C14_NamesGen (TLC model-checks the name-table state machine
           C14_CCodeNames over all histories and prints them) -> histories through
           ONE CCodeMapper and its copies, node-level hoist events + projected
           state + the compiled program's values -> C14_NamesTrace (TLC steps the
           model along the logged events).
Python never decides a verdict; see signature() for the grouping of failing
verdicts into attribution patterns."""
from __future__ import annotations

import concurrent.futures as cf
import json
import os
import time

from harness import kit, ser
from harness import c14c

PROP = "C14"
BATCH = 400


# ------------------------------------------------------------------ helpers
def _envs_py(envs_json):
    """[{x: valrec, ...}] -> python environments (numbers, f, g, t, o)"""
    return [{k: ser.json_to_val(v) for k, v in env.items()} for env in envs_json]


def _xyz(env):
    return {k: env[k] for k in "xyz"}


def _map_c(expr):
    """CCodeMapper()(expr) -> (text, [(name, text)]) ; exceptions are observations"""
    import warnings
    from pymbolic.mapper.c_code import CCodeMapper
    with warnings.catch_warnings():
        warnings.simplefilter("ignore")
        m = CCodeMapper()
        text = m(expr)
        return str(text), [(str(n), str(t)) for n, t in m.cse_name_list]


REPS = ("py", "np64", "np32")      # C14_CSem!Reps


def _const(j, rep):
    """a Const record as the Python object of representation `rep` (C14_CSem!Reps): the
    model's constant is its value, the driver builds the object; bool / Fraction (outside
    the fragment in every representation) stay Python objects"""
    v = ser.json_to_val(j["v"])
    if rep == "py" or type(v) not in (int, float):
        return v
    import numpy as np
    if rep == "np64":
        return np.int64(v) if type(v) is int else np.float64(v)
    if rep == "np32":
        return np.int32(v) if type(v) is int else np.float32(v)
    raise ValueError(f"unknown representation {rep!r}")


def _evaluate(expr, env):
    from pymbolic.mapper.evaluator import evaluate
    return ser.call_to_json(lambda: evaluate(expr, env))


# ------------------------------------------------------------- value driver
def drive_batch(batch, extra):
    """One batch of value cases: text + hoists from the real CCodeMapper, the real
    evaluator's value per environment, and the compiled program's printed values."""
    frag = batch["frag"]
    ty = "long" if frag == "int" else "double"
    envs = _envs_py(extra["envs"][frag])
    unit = c14c.Unit(ty, [_xyz(e) for e in envs])
    recs = []
    for case in batch["cases"]:
        rec = {"id": case["id"], "frag": frag, "e": case["e"], "rep": case.get("rep", "py"),
               "ce": 0, "ex": "", "a": case.get("a") or [{"k": "unrep"}] * len(envs)}
        try:
            expr = _build(case["e"], None, rec["rep"])
            text, hoists = _map_c(expr)
        except RecursionError:
            raise
        except Exception as exc:  # noqa: BLE001 - the exception class is the observation
            rec["ex"] = type(exc).__name__
            rec["text"], rec["hoists"] = "", []
            rec["pv"] = [{"k": "unrep"}] * len(envs)
            rec["r"] = [{"k": "unrep"}] * len(envs)
            recs.append(rec)
            continue
        rec["text"] = text
        rec["hoists"] = [[n, t] for n, t in hoists]
        rec["pv"] = [_evaluate(expr, env) for env in envs]
        names = []
        for n, _t in hoists:
            if n not in names:
                names.append(n)
        unit.add(case["id"], names, hoists, [(0, text)])
        recs.append(rec)
    vals, fpe, bad = unit.build_and_run(f"v{batch['n']}")
    for rec in recs:
        if rec["ex"]:
            continue
        cid = rec["id"]
        if cid in bad:
            rec["ce"] = 1
            rec["cemsg"] = bad[cid]
            rec["r"] = [{"k": "unrep"}] * len(envs)
            continue
        rec["r"] = [({"k": "err", "e": "SIGFPE", "a": ""} if (cid, ei) in fpe
                     else c14c.token_to_val(vals.get((cid, 0, ei)), ty))
                    for ei in range(len(envs))]
    return recs


# ----------------------------------------------------------- history driver
def _canon(j):
    return json.dumps(j, sort_keys=True, separators=(",", ":"))


def _collect_kids(j, table):
    """every child of a CSE node inside the JSON tree j, in first-occurrence order"""
    if isinstance(j, dict):
        if j.get("t") == "CSE":
            key = _canon(j["a"])
            if key not in table:
                table[key] = len(table) + 1
        for v in j.values():
            _collect_kids(v, table)
    elif isinstance(j, list):
        for v in j:
            _collect_kids(v, table)


def _build(j, memo, rep="py"):
    """like ser.from_json (constructors only), with the constants built in representation
    `rep`; with a memo dict equal CSE nodes become the SAME object (shared wrappers),
    with memo None every node is a fresh object"""
    import pymbolic.primitives as p
    t = j["t"]

    def b(c):
        return _build(c, memo, rep)
    if t == "CSE":
        if memo is None:
            return p.CommonSubexpression(b(j["a"]), j["prefix"] or None, j["scope"])
        key = _canon(j)
        if key not in memo:
            memo[key] = p.CommonSubexpression(b(j["a"]), j["prefix"] or None, j["scope"])
        return memo[key]
    if t == "Const":
        return _const(j, rep)
    if t == "Var":
        return ser.from_json(j)
    if t in ser._NARY:
        return getattr(p, ser._NARY[t])(tuple(b(c) for c in j["c"]))
    if t in ser._BIN:
        return getattr(p, ser._BIN[t])(b(j["a"]), b(j["b"]))
    if t in ser._UN:
        return getattr(p, ser._UN[t])(b(j["a"]))
    if t == "Cmp":
        return p.Comparison(b(j["a"]), j["op"], b(j["b"]))
    if t == "If":
        return p.If(b(j["i"]), b(j["th"]), b(j["el"]))
    if t == "Call":
        return p.Call(b(j["f"]), tuple(b(c) for c in j["c"]))
    if t == "Look":
        return p.Lookup(b(j["a"]), j["name"])
    return ser.from_json(j)


def _instrument(mapper, mid, pending, kid_of):
    """Node-level observation without source hooks: wrap this instance's
    map_common_subexpression; after every visit, list entries that appeared and are
    not yet attributed belong to the visited wrapper's child."""
    orig = type(mapper).map_common_subexpression.__get__(mapper)
    claimed = set(range(len(mapper.cse_name_list)))

    def wrapped(expr, enclosing_prec, *a, **kw):
        n0 = len(mapper.cse_name_list)
        name = orig(expr, enclosing_prec, *a, **kw)
        lst = mapper.cse_name_list
        for idx in range(n0, len(lst)):
            if idx not in claimed:
                claimed.add(idx)
                nm, txt = lst[idx]
                pending.append({"k": "hoist", "m": mid, "c": kid_of(expr.child),
                                "p": expr.prefix or "", "name": str(nm),
                                "used": c14c.idents(txt), "idx": idx + 1})
        return name
    mapper.map_common_subexpression = wrapped
    mapper._c14_claimed = claimed


def _proj(mapper):
    return [str(n) for n, _ in mapper.cse_name_list]


def _drive_history(case, envs, unit):
    import warnings
    from pymbolic.mapper.c_code import CCodeMapper
    hid, hist = case["id"], case["hist"]
    share = hid % 2
    # the representation of the constants (C14_CSem!Reps) rotates over the histories,
    # like shared / fresh wrappers: the name-table model does not look at constants
    rep = case.get("rep") or REPS[(hid // 2) % len(REPS)]
    table = {}
    for h in hist:
        _collect_kids(h.get("e", {}), table)
        if h["op"] == "copym":
            key = _canon(h["c"])
            table.setdefault(key, len(table) + 1)
    kids = [json.loads(k) for k in table]

    def kid_of(child):
        try:
            return table.get(_canon(ser.to_json(child)), 0)
        except ser.Unserialisable:
            return 0

    memo = {}
    pending, ev = [], []
    with warnings.catch_warnings():
        warnings.simplefilter("ignore")
        mappers = {1: CCodeMapper()}
        _instrument(mappers[1], 1, pending, kid_of)
        calls = {1: []}
        rets = []
        for i, h in enumerate(hist, 1):
            m = h["m"]
            if h["op"] == "gen":
                expr = _build(h["e"], memo if share else None, rep)
                ev.append({"k": "call", "m": m, "i": i})
                del pending[:]
                try:
                    text = str(mappers[m](expr))
                except RecursionError:
                    raise
                except Exception as exc:  # noqa: BLE001 - the exception class is the observation
                    ev.extend(sorted(pending, key=lambda e: e["idx"]))
                    ev.append({"k": "exc", "m": m, "ex": type(exc).__name__})
                    break
                ev.extend(sorted(pending, key=lambda e: e["idx"]))
                r = {"k": "ret", "m": m, "used": c14c.idents(text), "proj": _proj(mappers[m]),
                     "ce": 0, "r": [], "pv": [_evaluate(expr, env) for env in envs], "text": text}
                ev.append(r)
                rets.append((m, i, r))
                calls[m].append((i, text))
            else:
                to = len(mappers) + 1
                src = mappers[m]
                if h["op"] == "copy":
                    new = (src.copy() if h["how"] == "copy"
                           else CCodeMapper(cse_name_list=src.cse_name_list))
                    ev.append({"k": "copy", "m": m, "to": to, "how": h["how"], "proj": _proj(new)})
                else:
                    new = src.copy_with_mapped_cses([(h["name"], _build(h["c"], None, rep))])
                    ev.append({"k": "copym", "m": m, "to": to, "name": h["name"],
                               "c": table[_canon(h["c"])], "proj": _proj(new)})
                _instrument(new, to, pending, kid_of)
                mappers[to] = new
                calls[to] = []
        # one C function per mapper: its assignments in list order, then the texts
        # of the calls made on it
        for m, mp in mappers.items():
            if not calls[m]:
                continue
            names, assigns = [], []
            for n, txt in mp.cse_name_list:
                n = str(n)
                if n not in names:
                    names.append(n)
                if not isinstance(txt, str):      # a mapped CSE: (name, expression)
                    txt = str(CCodeMapper()(txt))
                assigns.append((n, txt))
            unit.add(hid * 4 + (m - 1), names, assigns, calls[m])
    return {"id": hid, "hist": hist, "kids": kids, "ev": ev, "share": share, "rep": rep}, rets


def drive_hbatch(batch, extra):
    envs = _envs_py(extra["envs"]["int"])
    unit = c14c.Unit("long", [_xyz(e) for e in envs])
    out = []
    for case in batch["cases"]:
        out.append(_drive_history(case, envs, unit))
    vals, fpe, bad = unit.build_and_run(f"h{batch['n']}")
    recs = []
    for rec, rets in out:
        for m, i, r in rets:
            cid = rec["id"] * 4 + (m - 1)
            if cid in bad:
                r["ce"] = 1
                r["cemsg"] = bad[cid]
                r["r"] = [{"k": "unrep"}] * len(envs)
            else:
                # a trap anywhere in the mapper's program (an unrelated hoisted
                # assignment, an earlier call's text) ends that environment: results
                # not printed are unknown (unrep -> SKIP), not "trapped"
                r["r"] = [c14c.token_to_val(vals.get((cid, i, ei)), "long")
                          for ei in range(len(envs))]
        recs.append(rec)
    return recs


# -------------------------------------------------------------- signatures
_COMMUTATIVE = {"Sum", "Product"}
_LEAF = {"Var", "Const"}


def _kids(e):
    t = e["t"]
    if "c" in e:
        return [(str(i + 1), k) for i, k in enumerate(e["c"])]
    if "b" in e:
        return [("a", e["a"]), ("b", e["b"])]
    if t == "If":
        return [("i", e["i"]), ("th", e["th"]), ("el", e["el"])]
    if "a" in e:
        return [("a", e["a"])]
    return []


def _is_negprod(e):
    """Product((-1, ...)): the subtraction idiom the printer rewrites to a - b"""
    if e["t"] != "Product" or not e["c"]:
        return False
    h = e["c"][0]
    return h["t"] == "Const" and h["v"].get("k") in ("int", "flt") and h["v"]["n"] == -h["v"]["d"]


def _kind(e):
    """node kind as fine as the printers' case analysis: a negative constant and the
    Power forms (expanded / pow) are kinds of their own"""
    t = e["t"]
    if t == "Const":
        return "NegConst" if e["v"].get("n", 0) < 0 else "Const"
    if _is_negprod(e):
        return "NegProduct"
    if t == "Power":
        b = e["b"]
        if b["t"] == "Const" and b["v"]["k"] == "int" and b["v"]["n"] in (0, 1, 2):
            return f"Power{b['v']['n']}"
        return "Pow"
    if t == "Cmp":
        return "Cmp"
    return t


_WRAP1 = {"Sum", "Product", "BitOr", "BitXor", "BitAnd"}


def _wrapper(e):
    """(wrapper kind, operand) when e stands between its parent and ONE operand without an
    operator of its own: x**1, and a one-child n-ary node (Sum((t,)), Product((t,)), ...)"""
    if _kind(e) == "Power1":
        return "Power1", e["a"]
    if e["t"] in _WRAP1 and len(e["c"]) == 1 and isinstance(e["c"][0], dict):
        return e["t"] + "1", e["c"][0]
    return None


def edges(e, acc=None, inner=None):
    """(parent kind, child position, child kind) for every composite child; position
    is '*' under the operand-sorting Sum / Product.  An operand reached through wrappers
    (x**1, one-child Sum / Product) is one edge parent -> 'Wrapper:...:kind of the operand'
    (a wrapped leaf / -1 included: Product((-1,)) is 'Product1:NegConst').  A one-child
    n-ary wrapper is also the parent of what it wraps: those edges go to `inner` (used to
    recognise a listed pattern below wrappers, never to name a new one)."""
    acc = [] if acc is None else acc
    inner = [] if inner is None else inner
    if _kind(e) == "Power1":          # x**1 is printed as x: transparent
        return edges(e["a"], acc, inner)
    for pos, k in _kids(e):
        if not isinstance(k, dict):
            continue
        if pos == "1" and _is_negprod(e):
            continue
        chain = []
        w = _wrapper(k)
        while w is not None:          # the parent sees the wrapper, the text shows the operand
            chain.append((w[0], k))
            k = w[1]
            w = _wrapper(k)

        def label(ch):
            via = []
            for name, _n in ch:
                if not via or via[-1] != name:
                    via.append(name)
            return via

        def notable(via):
            return k["t"] not in _LEAF or _kind(k) == "NegConst" or [v for v in via if v != "Power1"]
        via = label(chain)
        if notable(via):
            acc.append((_kind(e), "*" if e["t"] in _COMMUTATIVE else pos,
                        "".join(v + ":" for v in via) + _kind(k)))
        for i, (name, node) in enumerate(chain):
            rest = label(chain[i + 1:])
            if name != "Power1" and not _is_negprod(node) and notable(rest):
                inner.append((_kind(node), "*" if node["t"] in _COMMUTATIVE else "1",
                              "".join(v + ":" for v in rest) + _kind(k)))
        edges(k, acc, inner)
    return acc


def inner_edges(e):
    inner = []
    edges(e, None, inner)
    return inner


def signature(tree, clause, known_keys, rep="py"):
    """Attribution pattern of a failing value verdict; a failure seen with the constants
    in a numpy representation carries that representation, unless it is a listed
    (representation-independent) finding."""
    sg = _signature(tree, clause, known_keys)
    if rep != "py" and kit.sig_key(sg) not in known_keys:
        sg = dict(sg, rep=rep)
    return sg


def _signature(tree, clause, known_keys):
    """Attribution pattern of a failing value verdict (DESIGN 7.2).  A tree with no
    composite-under-composite edge is attributed to its root kind, a tree with
    exactly one edge to that edge; a bigger tree to a listed edge it contains, and
    to the whole edge list otherwise (a new, unexplained failure)."""
    es = sorted(set(edges(tree)))
    if not es:
        return {"clause": clause, "root": _kind(tree)}
    cands = [{"clause": clause, "parent": p, "pos": pos, "child": c} for p, pos, c in es]
    # a listed pattern is recognised below one-child wrappers as well (Sum((Product((-1,)),))
    # under any parent is the listed Sum over Product((-1,)))
    below = [{"clause": clause, "parent": p, "pos": pos, "child": c}
             for p, pos, c in sorted(set(inner_edges(tree)))]
    for c in cands + below:
        if kit.sig_key(c) in known_keys:
            return c
    # a listed mis-parenthesised edge may surface under another clause (a double
    # reaching % is a compile error, not a wrong value): same finding
    for c in cands + below:
        for k in known_keys:
            kk = json.loads(k)
            if all(kk.get(f) == c[f] for f in ("parent", "pos", "child")):
                return kk
    if len(cands) == 1:
        return cands[0]
    return {"clause": clause, "edges": [list(e) for e in es]}


# --------------------------------------------------------------------- run
NEG_CONTROLS = [("C14_Names_NC_NameReuse", "NamesUnique"),
                ("C14_Names_NC_UseBeforeDef", "DefinedBeforeUse"),
                ("C14_Names_NC_NoMemo", "OncePerChild"),
                ("C14_Names_NC_SuffixByCount", "PrefixCollisionFree"),
                ("C14_Names_NC_CopyForgets", "OncePerChild"),
                ("C14_Names_AsCoded_Unique", "NamesUnique"),
                ("C14_Names_NC_ReservedFromTable", "NamesUnique")]


def _generate(tier, seed, out):
    """Stage 1: all TLC runs on the models, concurrently."""
    jobs = {
        "values": lambda: kit.run_tlc("C14_Gen", f"C14_Gen_{tier}", workers=8, heap="3g"),
        "names": lambda: kit.run_tlc("C14_NamesGen", f"C14_NamesGen_{tier}", workers=6, heap="2g"),
    }
    if tier == "thorough":
        jobs["values_sim"] = lambda: kit.run_tlc("C14_Gen", "C14_Gen_sim", simulate="num=500",
                                                 depth=14, seed=seed, workers=8, heap="3g")
        jobs["names_sim"] = lambda: kit.run_tlc("C14_NamesGen", "C14_NamesGen_sim",
                                                simulate="num=800", depth=120, seed=seed, workers=8, heap="2g")
    for cfg, _inv in NEG_CONTROLS:
        jobs[cfg] = (lambda c=cfg: kit.run_tlc("C14_NamesGen", c, workers=2, heap="512m"))
    with cf.ThreadPoolExecutor(max_workers=6) as ex:
        futs = {k: ex.submit(f) for k, f in jobs.items()}
        res = {k: f.result() for k, f in futs.items()}
    # the S-layer invariants must hold on the model, and every Buggy_* switch must be
    # caught by its invariant (else the invariant is vacuous on this space)
    controls = {}
    for cfg, inv in NEG_CONTROLS:
        r = res[cfg]
        controls[cfg] = r.invariant_violated
        if r.invariant_violated != [inv]:
            raise kit.MachineryError(f"negative control {cfg}: expected TLC to report {inv} violated, "
                                     f"got {r.invariant_violated}\n" + "\n".join(r.out.splitlines()[-15:]))
        out.add_tlc(r)
    out.extra["controls"] = {"spec_mutants_caught": controls}
    out.extra["design_level_refutations"] = [
        "Dev_CopyRebuildsFromTexts (Buggy=CopyForgets, the transcription of CCodeMapper.__init__ as "
        "coded): TLC refutes OncePerChild and NamesUnique on the model"]
    cases, envs, seen, alayer = [], None, set(), []
    for k in ("values", "values_sim"):
        if k not in res:
            continue
        kit.require_clean(res[k], f"C14 value generator ({k})")
        out.add_tlc(res[k])
        for p in res[k].printed():
            if "intenvs" in p:
                envs = {"int": p["intenvs"], "flt": p["fltenvs"]}
            elif "e" in p:
                key = _canon(p)
                if key not in seen:
                    seen.add(key)
                    cases.append(p)
                    if p.get("ar") and p.get("rep", "py") == "py":
                        alayer.append({"alayer": p["ar"], "e": p["e"]})
    hists = []
    for k in ("names", "names_sim"):
        if k not in res:
            continue
        kit.require_clean(res[k], f"C14 name-table model check ({k})")
        out.add_tlc(res[k])
        for p in res[k].printed():
            if "hist" in p:
                key = _canon(p)
                if key not in seen:
                    seen.add(key)
                    hists.append(p)
    if envs is None or not cases or not hists:
        raise kit.MachineryError("C14 generators printed no environments / cases / histories")
    for i, c in enumerate(cases):
        c["id"] = i
    for i, h in enumerate(hists):
        h["id"] = i
    # design-level failure classes: trees on which the transcription of the printer,
    # read by the C grammar, contradicts Eval -- found by TLC before any code ran
    classes = {}
    for a in alayer:
        sg = signature(a["e"], a["alayer"], {})
        if "edges" not in sg:
            classes.setdefault(kit.sig_key(sg), 0)
            classes[kit.sig_key(sg)] += 1
    out.extra["alayer_refuted_trees"] = len(alayer)
    out.extra["design_level_failure_classes"] = sorted(classes)
    kit.log(f"C14: A-layer (CText -> C grammar -> C semantics) refuted on {len(alayer)} trees, "
            f"{len(classes)} single-pattern classes")
    kit.log(f"C14: TLC generated {len(cases)} C-expressible trees and {len(hists)} histories; "
            f"name-table invariants hold on {res['names'].distinct} model states; "
            f"{len(NEG_CONTROLS)} negative controls caught "
            f"({sum(r.wall for r in res.values()):.0f}s of TLC)")
    return cases, hists, envs


def drive_any(batch, extra):
    return drive_hbatch(batch, extra) if batch["kind"] == "h" else drive_batch(batch, extra)


def _classify_values(verdicts, recs, envs, out):
    byid = {r["id"]: r for r in recs}
    oracle_doubt = 0
    for v in verdicts:
        if v.get("v") == "STAT":
            out.skipped += v["skip"]
            oracle_doubt += v["skipo"]
            continue
        if v.get("v") == "DRIFT":
            out.drift += 1
            if out.drift <= 3:
                rec = byid[v["id"]]
                kit.log(f"  A-layer drift: {rec['text']!r} for {json.dumps(rec['e'])[:200]}")
            continue
        rec = byid[v["id"]]
        sig = signature(rec["e"], v["v"], out.known, rec["rep"])
        out.fail(sig, {"half": "value", "case": {"frag": rec["frag"], "e": rec["e"], "rep": rec["rep"]},
                       "envs": envs,
                       "text": rec["text"], "hoists": rec["hoists"], "env_index": v.get("env", 0),
                       "recorded": rec["r"], "evaluator": rec["pv"], "expected": v.get("exp"),
                       "gcc": rec.get("cemsg", ""), "verdict": v})
    return oracle_doubt


def _classify_names(verdicts, recs, envs, out):
    byid = {r["id"]: r for r in recs}
    if sorted(v["id"] for v in verdicts) != sorted(byid):
        raise kit.MachineryError(f"C14 trace validation: {len(verdicts)} verdicts for {len(recs)} traces")
    accepted = 0
    for v in verdicts:
        out.skipped += v.get("skip", 0)
        if v["v"] == "ACCEPT":
            accepted += 1
            continue
        rec = byid[v["id"]]
        sig = {"clause": v["v"], "mapper": v["kind"], "inherited": v["inh"]}
        if rec["rep"] != "py" and kit.sig_key(sig) not in out.known:
            sig["rep"] = rec["rep"]
        out.fail(sig, {"half": "names", "case": {"hist": rec["hist"], "rep": rec["rep"]}, "envs": envs,
                       "events": rec["ev"], "verdict": v})
    return accepted


CTRL_BASE = 10 ** 6


def _corruptions(hrecs):
    """Negative control 3 (DESIGN 9): corrupt recorded traces; the trace specification
    must reject each with the expected clause.  Base: an accepted-looking trace whose
    first call hoists a nested pair (the second assignment uses the first name)."""
    import copy
    base = None
    for r in hrecs:
        ev = r["ev"]
        hs = [i for i, e in enumerate(ev) if e["k"] == "hoist"]
        if (len(ev) > 3 and ev[0]["k"] == "call" and len(hs) >= 2 and hs[0] == 1 and hs[1] == 2
                and ev[1]["name"] in ev[2]["used"] and ev[3]["k"] == "ret"
                and all(e["k"] in ("call", "hoist", "ret") for e in ev)
                and ev[3]["r"] and ev[3]["r"][0].get("k") == "int"):
            base = r
            break
    if base is None:
        return [], {}
    out, expect = [], {}

    def add(name, clause, mutate):
        rec = copy.deepcopy(base)
        rec["id"] = CTRL_BASE + len(out)
        mutate(rec["ev"])
        out.append(rec)
        expect[rec["id"]] = (name, clause)

    add("intact", "ACCEPT", lambda ev: None)
    add("name-reused", "name-collision", lambda ev: ev[2].__setitem__("name", ev[1]["name"]))

    def swap(ev):
        ev[1], ev[2] = ev[2], ev[1]
        ev[1]["idx"], ev[2]["idx"] = 1, 2
    add("assignments-swapped", "use-before-def", swap)
    add("hoist-dropped", "state-mismatch", lambda ev: ev.pop(1))

    def twice(ev):
        e = copy.deepcopy(ev[1])
        e["name"], e["idx"] = e["name"] + "_x", 3
        ev.insert(3, e)
    add("child-assigned-twice", "assigned-twice", twice)
    add("undefined-reference", "use-before-def", lambda ev: ev[3]["used"].append("_cse_zz9"))
    add("value-flipped", "wrong-value",
        lambda ev: ev[3]["r"][0].__setitem__("n", ev[3]["r"][0]["n"] + 1))
    return out, expect


def _pipeline(cases, hists, envs, out, wd):
    batches = []
    for frag in ("int", "flt"):
        cs = [c for c in cases if c["frag"] == frag]
        for k in range(0, len(cs), BATCH):
            batches.append({"kind": "v", "frag": frag, "n": len(batches), "cases": cs[k:k + BATCH]})
    for k in range(0, len(hists), BATCH):
        batches.append({"kind": "h", "n": len(batches), "cases": hists[k:k + BATCH]})
    t0 = time.time()
    parts = kit.drive("harness.c14", "drive_any", batches, {"envs": envs}, chunk=1)
    vrecs = [r for b, part in zip(batches, parts) if b["kind"] == "v" for r in part]
    hrecs = [r for b, part in zip(batches, parts) if b["kind"] == "h" for r in part]
    kit.log(f"C14: drove {len(vrecs)} value cases and {len(hrecs)} histories through the real "
            f"CCodeMapper, {len(batches)} gcc translation units ({time.time() - t0:.1f}s)")
    out.evaluations += sum(1 + 2 * len(r["r"]) for r in vrecs)
    out.evaluations += sum(len(r["ev"]) + sum(len(e.get("pv", ())) for e in r["ev"]) for r in hrecs)
    t0 = time.time()
    vsh = kit.write_shards(vrecs, wd / "trace", "c14v", 8000) if vrecs else []
    ctrl, expect = _corruptions(hrecs) if len(hrecs) > 50 else ([], {})
    hsh = kit.write_shards(hrecs + ctrl, wd / "trace", "c14h", 2500) if hrecs else []
    with cf.ThreadPoolExecutor(max_workers=2) as ex:
        fv = ex.submit(kit.judge_shards, "C14_Judge", "C14_Judge", vsh, jvms=3, workers=4, heap="2g")
        fh = ex.submit(kit.judge_shards, "C14_NamesTrace", "C14_NamesTrace", hsh, jvms=4, workers=3, heap="2g")
        vver, st1, tr1 = fv.result()
        hver, st2, tr2 = fh.result()
    kit.log(f"C14: TLC judged {len(vrecs)} value records and validated {len(hrecs)} traces "
            f"({st2} trace states) ({time.time() - t0:.1f}s)")
    out.states += st1 + st2
    out.transitions += tr1 + tr2
    out.traces += len(vrecs) + len(hrecs)
    if expect:
        got = {v["id"]: v["v"] for v in hver if v["id"] >= CTRL_BASE}
        bad = {expect[i][0]: (expect[i][1], got.get(i)) for i in expect if got.get(i) != expect[i][1]}
        if bad:
            raise kit.MachineryError(f"C14 trace-corruption controls not rejected as expected: {bad}")
        out.extra.setdefault("controls", {})["corrupted_traces_rejected"] = {
            expect[i][0]: expect[i][1] for i in expect}
        hver = [v for v in hver if v["id"] < CTRL_BASE]
    doubt = _classify_values(vver, vrecs, envs, out)
    accepted = _classify_names(hver, hrecs, envs, out) if hrecs else 0
    return vrecs, hrecs, doubt, accepted


def run(tier, seed, out):
    wd = kit.fresh_workdir(PROP)
    os.environ["C14_TMP"] = str(wd)
    cases, hists, envs = _generate(tier, seed, out)
    vrecs, hrecs, doubt, accepted = _pipeline(cases, hists, envs, out, wd)
    for r in vrecs:
        out.note_case({"frag": r["frag"], "e": r["e"], "rep": r["rep"]}, nontrivial=r["e"]["t"] not in ("Var", "Const"))
    for r in hrecs:
        out.note_case({"hist": r["hist"], "rep": r["rep"]}, nontrivial=True)
    out.extra["value_cases"] = len(vrecs)
    out.extra["value_cases_without_judged_env"] = sum(1 for c in cases if not c.get("j"))
    out.extra["histories"] = len(hrecs)
    out.extra["histories_accepted"] = accepted
    out.extra["trace_events_validated"] = sum(len(r["ev"]) for r in hrecs)
    out.extra["oracle_vs_evaluator_disagreements"] = doubt
    out.drift += doubt
    step = max(1, len(vrecs) // 2)
    out.samples += [{"half": "value", "frag": r["frag"], "tree": r["e"], "c_text": r["text"],
                     "hoisted": r["hoists"], "program_printed": r["r"], "evaluator": r["pv"]}
                    for r in vrecs[::step][:2]]
    if hrecs:
        r = hrecs[len(hrecs) // 2]
        out.samples.append({"half": "names", "history": r["hist"], "events": r["ev"]})
    out.rule = ("value half: TLC enumerates root kind x typed holes over the int / exact-float "
                "pools of C14_Gen.tla (only trees inside the C typing discipline of C14_CSem are "
                "emitted); one case = one tree, its CCodeMapper text + hoisted assignments compiled "
                "by gcc and run in every environment; a tree with int / float constants is a case of "
                "its own per representation of the constants (C14_CSem!Reps: Python numbers, numpy "
                "64-bit scalars, numpy 32-bit scalars; quick: numpy on trees of <= 6 / <= 5 nodes); "
                "x**1 and one-child Sum / Product nodes wrap every depth-1 composite in every operand "
                "position of every operator, Product((-1,)) is offered in every operand position; "
                "non-trivial = root is a composite node. "
                "name half: TLC enumerates all histories of MaxGen calls over the expression pool "
                "of C14_CCodeNames.tla on one mapper and its copies (copy / constructor from the name "
                "list / copy_with_mapped_cses of a new or of an already hoisted subexpression, under a "
                "user's name or one that looks generated, at any point); one case = one history, "
                "always non-trivial; "
                "shared / fresh wrapper objects and the representation of the constants rotate over "
                "the histories (driver side). "
                "distinct by canonical JSON digest")
    out.exhaustive = tier == "quick"
    out.assumptions += [
        "gcc -O0 -fwrapv and glibc libm are trusted (pow exact on exactly representable results; "
        "signed shifts arithmetic)",
        "CPython semantics as transcribed in PyNum.tla / Eval.tla (bound to CPython by C02)",
        "values beyond |n|,d <= 30000 and inexact doubles are out of model (skipped): rounding-level "
        "agreement of floating point is not decided",
        "with numpy scalars as constants the evaluator computes in numpy arithmetic: where its value "
        "departs from Eval (Python arithmetic) the case is skipped, not judged",
        "hoisted temporaries are declared once per distinct name with the fragment's type "
        "(long / double) and assigned in cse_name_list order",
        "bounded: trees of depth <= 2 over the stated pools, histories of 3 calls (+ seeded random "
        "deeper ones in the thorough tier)"]


def replay(path, out):
    data = json.loads(open(path).read())
    d = data["detail"]
    wd = kit.fresh_workdir(PROP)
    os.environ["C14_TMP"] = str(wd)
    envs = d["envs"]
    cases, hists = [], []
    if d["half"] == "value":
        c = dict(d["case"])
        c["id"] = 0
        cases.append(c)
    else:
        hists.append({"hist": d["case"]["hist"], "id": d.get("verdict", {}).get("id", 0),
                      "rep": d["case"].get("rep", "py")})
    vrecs, hrecs, _doubt, _acc = _pipeline(cases, hists, envs, out, wd)
    out.samples += [{"replayed": r} for r in (vrecs + hrecs)[:1]]
    out.rule = "replay of one stored case"
