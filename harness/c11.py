"""C11 - algebraic rewrites preserve value and reach their normal forms."""
from __future__ import annotations

import json

from harness import kit, ser

NAMES = ["flatten", "fold", "cfold", "collect", "expand", "expand_nc", "expand_p", "cfold_reused", "expand_reused"]
_REUSED = {}


def _rewrites(e, reused=True):
    import pymbolic.primitives as p
    from pymbolic.mapper.collector import TermCollector
    from pymbolic.mapper.constant_folder import (CommutativeConstantFoldingMapper,
                                                 ConstantFoldingMapper)
    from pymbolic.mapper.distributor import distribute
    from pymbolic.mapper.flattener import flatten
    params = {p.Variable("p")}
    fns = [
        lambda: flatten(e),
        lambda: ConstantFoldingMapper()(e),
        lambda: CommutativeConstantFoldingMapper()(e),
        lambda: TermCollector(params)(e),
        lambda: distribute(e),
        lambda: distribute(e, commutative=False),
        lambda: distribute(e, parameters=frozenset(params)),
    ]
    if reused:
        fns += [
            # one long-lived mapper instance per worker process, reused over the stream of cases
            lambda: _reused("cfold", CommutativeConstantFoldingMapper)(e),
            lambda: _reused("dist", lambda: __import__("pymbolic.mapper.distributor", fromlist=["x"])
                            .DistributeMapper(TermCollector(frozenset())))(e),
        ]
    return [ser.obj_to_json(f) for f in fns]


def drive_case(case, extra):
    out = _rewrites(ser.from_json(case["e"]))
    rec = {"id": case["id"], "e": case["e"], "out": out}
    # object identity is part of the input: the same tree with every repeated subtree (leaves
    # included) built as ONE shared object must be rewritten to the same results; where it is
    # not, the shared-build results are recorded and judged as well
    sh = _rewrites(ser.from_json_shared(case["e"]), reused=False)
    diff = {NAMES[i]: sh[i] for i in range(len(sh)) if sh[i] != out[i]}
    if diff:
        rec["shared"] = diff
    return rec


def drive_hist(case, extra):
    """Histories of build / rewrite / drop operations (the ones C02_Hist.tla generates: a heap of
    CSE nodes whose addresses are reused) on ONE long-lived commutative folder and ONE long-lived
    distributor: every rewrite must be the rewrite of its own input, whatever was processed - and
    freed - before.  One record per rewrite step; the other rewrites are not run (SKIP)."""
    from pymbolic.mapper.collector import TermCollector
    from pymbolic.mapper.constant_folder import CommutativeConstantFoldingMapper
    from pymbolic.mapper.distributor import DistributeMapper
    pool = extra["pool"]
    folder = CommutativeConstantFoldingMapper()
    dist = DistributeMapper(TermCollector(frozenset()))
    slots, recs = {}, []
    na = {"r": "unser", "text": "not run in a history"}
    for k, op in enumerate(case["hist"]):
        if op["op"] == "build":
            slots[op["s"]] = ser.from_json(pool[op["i"] - 1])
        elif op["op"] == "drop":
            del slots[op["s"]]
        else:
            expr = slots[op["s"]]
            # the folder's result in its own slot (value + at most one constant); the
            # distributor's in the slot judged for value only (a CSE is opaque to the shape
            # clauses, and a sum of CSEs is outside the collector's fragment: a refusal is SKIP)
            dres = ser.obj_to_json(lambda: dist(expr))                    # noqa: B023
            if dres.get("r") == "err":
                dres = na
            out = [na] * 6 + [dres, ser.obj_to_json(lambda: folder(expr)), na]      # noqa: B023
            del expr
            recs.append({"id": f"{case['id']}.{k}", "e": pool[op["i"] - 1], "out": out,
                         "history": case["hist"], "step": k})
    return recs


def _with_shared(recs):
    """One more record (id + "s") per case whose shared-object build was rewritten differently:
    the differing results take the place of the distinct-build ones and are judged like them."""
    extra = []
    for r in recs:
        sh = r.pop("shared", None)
        if sh:
            o = [sh.get(NAMES[i], r["out"][i]) for i in range(len(NAMES))]
            extra.append({"id": f"{r['id']}s", "e": r["e"], "out": o, "sharedbuild": True})
    return recs + extra


def _reused(key, factory):
    if key not in _REUSED:
        _REUSED[key] = factory()
    return _REUSED[key]


def kinds_in(e, acc=None):
    acc = set() if acc is None else acc
    if isinstance(e, dict):
        if "t" in e:
            acc.add(e["t"])
        for v in e.values():
            kinds_in(v, acc)
    elif isinstance(e, list):
        for v in e:
            kinds_in(v, acc)
    return acc


def patterns(e, acc=None):
    """(parent kind, child kind) edges plus Power:<exponent> markers - attribution patterns."""
    acc = set() if acc is None else acc
    if isinstance(e, dict) and "t" in e:
        t = e["t"]
        kids = []
        for key in ("c",):
            if key in e and isinstance(e[key], list):
                kids += e[key]
        for key in ("a", "b", "f", "i", "th", "el"):
            if key in e and isinstance(e[key], dict):
                kids.append(e[key])
        for k in kids:
            acc.add(f"{t}>{k['t']}")
            patterns(k, acc)
        if t == "Quotient" and "Sum" in kinds_in(e["a"]):
            acc.add("Quotient>>Sum")       # a sum anywhere in a numerator (it expands to a sum)
        if t == "Power" and e["b"]["t"] == "Const" and e["b"]["v"].get("d") == 1:
            n = e["b"]["v"]["n"]
            acc.add(f"Power^{'neg' if n < 0 else ('0' if n == 0 else ('1' if n == 1 else 'pos'))}:{e['a']['t']}")
    return acc


def classify(out, verdicts, byid):
    known = [json.loads(k) for k in out.known]
    for v in verdicts:
        rec = byid[v["id"]]
        if "drift" in v:
            out.drift += 1
            ex = out.extra.setdefault("drift_examples", [])
            if len(ex) < 5:
                i = {"flatten": 0, "fold": 1, "cfold": 2}[v["drift"]]
                ex.append({"input": rec["e"], "rewrite": v["drift"], "returned": rec["out"][i]})
            continue
        pats = patterns(rec["e"])
        for b in v["bad"]:
            cl = list(b["cl"])
            if cl == ["SKIP"]:
                out.skipped += 1
                continue
            res = rec["out"][NAMES.index(b["rw"])]
            errname = res.get("v", {}).get("e", "") if res.get("r") == "err" else ""
            hit = next((k for k in known if k.get("rewrite") == b["rw"].replace("_reused", "")
                        and k.get("pattern") in pats
                        and k.get("clause") in cl), None)
            sig = hit or {"rewrite": b["rw"], "clauses": cl, "error": errname, "patterns": sorted(pats)}
            out.fail(sig, {"case": {"id": rec["id"], "e": rec["e"]}, "rewrite": b["rw"], "recorded": res,
                           **({"history": rec["history"], "step": rec["step"]} if "history" in rec else {})})


def judge(out, recs, wd):
    shards = kit.write_shards(recs, wd / "trace", "c11", 3000)
    verdicts, st, tr = kit.judge_shards("C11_Judge", "C11_Judge", shards)
    out.states += st
    out.transitions += tr
    out.traces += len(recs)
    (wd / "verdicts.json").write_text(json.dumps(verdicts))
    classify(out, verdicts, {r["id"]: r for r in recs})


def run(tier, seed, out):
    wd = kit.fresh_workdir("C11")
    gen = kit.run_tlc("C11_Gen", f"C11_Gen_{tier}")
    kit.require_clean(gen, "C11 generation / oracle laws")
    out.add_tlc(gen)
    printed = gen.printed()
    cases = [p for p in printed if "e" in p]
    out.extra["design_level_failures_on_model"] = sum(1 for p in printed if "design" in p)
    for i, c in enumerate(cases):
        c["id"] = i
    kit.log(f"C11: TLC generated {len(cases)} trees ({gen.wall:.1f}s)")
    recs = _with_shared(kit.drive("harness.c11", "drive_case", cases, None, chunk=200))
    # histories on one long-lived folder / distributor, with the heap in the model (C02_Hist.tla)
    hist = kit.run_tlc("C02_Hist", "C02_Hist", coverage=False)
    kit.require_clean(hist, "history model C02_Hist (a CSE result cached for one node never answers for another)")
    out.add_tlc(hist)
    hp = hist.printed()
    pool = [p["pool"] for p in hp if "pool" in p]
    hcases = [p for p in hp if "hist" in p]
    if len(pool) != 1 or not hcases:
        raise kit.MachineryError("C02_Hist printed no pool / histories")
    step = 1 if tier == "thorough" else 3
    hcases = hcases[::step]
    for i, c in enumerate(hcases):
        c["id"] = f"h{i}"
    hrecs = [r for rs in kit.drive("harness.c11", "drive_hist", hcases, {"pool": pool[0]}, chunk=100)
             for r in rs]
    out.extra["history_steps_judged"] = len(hrecs)
    recs = recs + hrecs
    out.evaluations += (len(NAMES) + 7) * len(cases)
    out.extra["shared_build_results_that_differ"] = sum(1 for r in recs if r.get("sharedbuild"))

    def corrupt(r):      # what flatten returned replaced by "result + 1"
        if r["out"][0].get("r") == "ok" and r["e"]["t"] == "Sum" and all(c["t"] == "Var" for c in r["e"]["c"]):
            r["out"][0]["e"] = {"t": "Sum", "c": [r["out"][0]["e"], {"t": "Const", "v": {"k": "int", "n": 1, "d": 1}}]}
            return r
        return None
    out.extra["corrupted_records_rejected"] = kit.corruption_control(
        "C11_Judge", "C11_Judge", recs, corrupt, wd,
        flagged=lambda v: any(list(b["cl"]) != ["SKIP"] for b in v.get("bad", [])))
    judge(out, recs, wd)
    for r in recs:
        out.note_case(r["e"], nontrivial=r["e"]["t"] not in ("Var", "Const"))
    out.samples = [{"tree": r["e"], "rewrites": dict(zip(NAMES, r["out"]))}
                   for r in recs[:: max(1, len(recs) // 3)][:2]]
    out.rule = ("TLC enumerates the polynomial/rational fragment (sums, products, integer powers -2..3, quotients; "
                "three levels over a reduced alphabet) and trees of other node kinds over polynomial children; each "
                "tree goes through 6 rewrites; value preservation decided exactly by rational-function normal form")
    out.exhaustive = True
    out.assumptions += ["Poly.tla (exact rational functions over Q, overflow-guarded) and Eval on a box of 4 "
                        "environments for non-polynomial kinds"]


def replay(path, out):
    wd = kit.fresh_workdir("C11")
    d = json.loads(open(path).read())
    det = d["detail"]
    if "history" in det:
        hist = kit.run_tlc("C02_Hist", "C02_Hist_neg", workers=2, coverage=False)      # prints the pool
        pool = [p["pool"] for p in hist.printed() if "pool" in p][0]
        recs = [r for r in kit.drive("harness.c11", "drive_hist", [{"id": "h0", "hist": det["history"]}],
                                     {"pool": pool})[0]]
        judge(out, recs, wd)
        return
    case = {k: det["case"][k] for k in ("id", "e")}
    case["id"] = str(case["id"]).rstrip("s")
    recs = _with_shared(kit.drive("harness.c11", "drive_case", [case], None))
    judge(out, recs, wd)
