"""C01 driver: replays a TLC-generated object history through the real pymbolic
and records what every step shows.  It builds objects, calls ==, hash(), setattr,
copy, mappers, dict operations, and serialises: results, exception classes, and
after every step the projection of every live object (fields read back, whether
'_hash_value' is in the instance __dict__, the cached hash).  Raw 64-bit hashes
and trees are interned per trace into small ids (first occurrence order).

Every trace starts from the pristine class state: the user classes it mentions (and
their user bases) are created anew for it and, when the built-in undecorated class
MultiVectorVariable (one whose instances run the generated __eq__/__hash__ of a decorated
ancestor) or a subclass of it is involved, the trace runs in a forked child of the
worker process, which itself never hashes or compares an instance of such a class.
Whatever pymbolic remembers per class about earlier use is then in its initial state,
and the order in which a history first uses the classes is the order pymbolic sees.  Objects that "arrive from another interpreter" are built (and, if the history
says so, hashed) and pickled by a helper interpreter running with a different
PYTHONHASHSEED, and unpickled here.

Round 6, object lifetimes: a Drop event ends the lifetime of an object for real (the
trace gives up the only reference it holds; CPython frees the object at once, a
gc.collect() follows if it did not) and every object created later is recorded with the
address it got (id(), interned per trace in order of first occurrence).  CPython hands the
block that was freed last to the next object of the same size, but the recording work the
driver itself does between two events allocates too; so the freed block is kept reserved by
a placeholder of the same size (an instance of an empty class that is not an expression
and that nothing ever looks at) until just before the next constructor call of the history,
whose arguments are built first.  Whether the new object really sits where a dead one was
is an observation (r["ad"]), not something the driver arranges behind the judge's back.
Nothing in here judges anything."""
from __future__ import annotations

import json
import os
import subprocess
import sys
import warnings
from fractions import Fraction

_CLS = None


class CStr(str):
    """A str whose hash is a constant: a legal (if poor) hash, used to make two
    unequal field values collide."""
    __slots__ = ()

    def __hash__(self):
        return 7


def _mk_URoot(g):
    from pymbolic.primitives import Expression, expr_dataclass
    return expr_dataclass()(type("URoot", (Expression,),
                                 {"__annotations__": {"u": object, "v": object}}))


def _mk_UChild(g):
    from pymbolic.primitives import expr_dataclass
    return expr_dataclass()(type("UChild", (g("URoot"),), {"__annotations__": {"w": object}}))


def _mk_ULeg(g):
    from pymbolic.primitives import Expression

    def leg_init(self, u, v):
        self.u = u
        self.v = v

    return type("ULeg", (Expression,), {
        "init_arg_names": ("u", "v"),
        "__init__": leg_init,
        "__getinitargs__": lambda self: (self.u, self.v),
        "mapper_method": "map_uleg"})


def _legacy_uvw(name, base):
    def init(self, u, v, w):
        base.__init__(self, u, v)
        self.w = w

    return type(name, (base,), {
        "init_arg_names": ("u", "v", "w"),
        "__init__": init,
        "__getinitargs__": lambda self: (self.u, self.v, self.w)})


def _mk_ULegChild(g):
    return _legacy_uvw("ULegChild", g("URoot"))


def _mk_ULegGrand(g):
    return _legacy_uvw("ULegGrand", g("UPlain"))


def _mk_ULegGrandD(g):
    UChild = g("UChild")

    def init(self, u, v, w, x):
        UChild.__init__(self, u, v, w)
        self.x = x

    return type("ULegGrandD", (UChild,), {
        "init_arg_names": ("u", "v", "w", "x"),
        "__init__": init,
        "__getinitargs__": lambda self: (self.u, self.v, self.w, self.x)})


def _mk_UMVTag(g):
    from pymbolic.geometric_algebra.primitives import MultiVectorVariable

    def init(self, name, tag):
        MultiVectorVariable.__init__(self, name)
        self.tag = tag

    return type("UMVTag", (MultiVectorVariable,), {
        "init_arg_names": ("name", "tag"),
        "__init__": init,
        "__getinitargs__": lambda self: (self.name, self.tag)})


def _mk_UVar(g):
    import pymbolic.primitives as p
    return type("UVar", (p.Variable,), {})


def _mk_UTagVar(g):
    import pymbolic.primitives as p
    return p.expr_dataclass()(type("UTagVar", (p.Variable,), {"__annotations__": {"tag": object}}))


def _mk_UInit(g):
    from pymbolic.primitives import Expression, expr_dataclass

    def uinit_init(self, u, v):
        object.__setattr__(self, "u", u)
        object.__setattr__(self, "v", v)

    return expr_dataclass(init=False)(type("UInit", (Expression,), {
        "__annotations__": {"u": object, "v": object}, "__init__": uinit_init}))


# round 4: fields that are not positional constructor parameters
# the ambient context a field(init=False) field is taken from by __post_init__ (think of a
# current scope / name generator); _AMBIENT_DEFAULT when nothing in particular is going on
_AMBIENT_DEFAULT = 0
_AMBIENT = {}


def _mk_UKw(g):
    """u, t (keyword-only, default, declared between the positional fields), v (default)"""
    from dataclasses import field
    from pymbolic.primitives import Expression, expr_dataclass
    return expr_dataclass()(type("UKw", (Expression,), {
        "__annotations__": {"u": object, "t": object, "v": object},
        "t": field(kw_only=True, default=0), "v": 0}))


def _mk_UKwCse(g):
    """CommonSubexpression's prefix / scope have defaults, so a field without one has to be
    keyword-only; get_extra_properties is the documented hook through which mappers hand
    it back to the constructor"""
    from dataclasses import field
    from pymbolic.primitives import CommonSubexpression, expr_dataclass
    return expr_dataclass()(type("UKwCse", (CommonSubexpression,), {
        "__annotations__": {"tag": object}, "tag": field(kw_only=True),
        "get_extra_properties": lambda self: {"tag": self.tag}}))


def _mk_UInitF(g):
    """u, lab (not a constructor parameter: __post_init__ takes it from the ambient
    context), v (default)"""
    from dataclasses import field
    from pymbolic.primitives import Expression, expr_dataclass

    def post_init(self):
        object.__setattr__(self, "lab", _AMBIENT.get("lab", _AMBIENT_DEFAULT))

    return expr_dataclass()(type("UInitF", (Expression,), {
        "__annotations__": {"u": object, "lab": object, "v": object},
        "lab": field(init=False), "v": 0, "__post_init__": post_init}))


# classes whose objects are built from the dataclass field table: positional parameters by
# position, keyword-only ones by keyword, init=False ones through the ambient context
BY_FIELD_TABLE = {"UKw", "UKwCse", "UInitF"}


def _construct(cls, vals):
    import dataclasses
    flds = dataclasses.fields(cls)
    pos = [v for f, v in zip(flds, vals) if f.init and not f.kw_only]
    kw = {f.name: v for f, v in zip(flds, vals) if f.init and f.kw_only}
    amb = {f.name: v for f, v in zip(flds, vals) if not f.init}
    _AMBIENT.update(amb)
    try:
        return cls(*pos, **kw)
    finally:
        _AMBIENT.clear()


_MAKERS = {
    "UKw": _mk_UKw, "UKwCse": _mk_UKwCse, "UInitF": _mk_UInitF,
    "URoot": _mk_URoot, "UChild": _mk_UChild, "ULeg": _mk_ULeg, "ULegChild": _mk_ULegChild,
    "UPlain": lambda g: type("UPlain", (g("URoot"),), {}),
    "UPlain2": lambda g: type("UPlain2", (g("UPlain"),), {}),
    "ULegChildPlain": lambda g: type("ULegChildPlain", (g("ULegChild"),), {}),
    "ULegGrand": _mk_ULegGrand, "ULegGrandD": _mk_ULegGrandD, "UMVTag": _mk_UMVTag,
    "UVar": _mk_UVar, "UTagVar": _mk_UTagVar, "UInit": _mk_UInit,
}
_BUILTIN = None


def _classes(fresh_for=None):
    """(name -> class, class -> name) for the built-in node classes + the user hierarchy
    templates, materialised with type() / expr_dataclass().  fresh_for = a collection of
    class names: those user classes (and the user classes they derive from) are created
    anew - nothing has ever run on them; the others stay as they are."""
    global _CLS, _BUILTIN
    if _CLS is not None and fresh_for is None:
        return _CLS
    if _BUILTIN is None:
        import pymbolic.primitives as p
        from pymbolic.geometric_algebra.primitives import MultiVectorVariable
        _BUILTIN = {"MultiVectorVariable": MultiVectorVariable}
        for name in ("Variable Wildcard DotWildcard StarWildcard FunctionSymbol Leaf AlgebraicLeaf "
                     "Call CallWithKwargs Subscript Lookup Sum Product Min Max BitwiseOr BitwiseXor "
                     "BitwiseAnd LogicalOr LogicalAnd Slice Quotient FloorDiv Remainder QuotientBase "
                     "Power LeftShift RightShift BitwiseNot LogicalNot Comparison If "
                     "CommonSubexpression Substitution Derivative NaN").split():
            _BUILTIN[name] = getattr(p, name)
    old = dict(_CLS[0]) if _CLS is not None else dict(_BUILTIN)
    made = {}

    def get(name):
        if name not in made:
            c = _MAKERS[name](get)
            # pickle finds classes by module attribute
            c.__module__ = __name__
            c.__qualname__ = name
            globals()[name] = c
            made[name] = c
        return made[name]

    with warnings.catch_warnings():
        warnings.simplefilter("ignore")
        for name in _MAKERS:
            if fresh_for is None or name in fresh_for:
                get(name)
    # (a user class that was not re-created keeps deriving from the previous incarnation
    # of its base: every history gets all the user classes it mentions, and their bases, anew)
    tab = {**old, **made}
    _CLS = (tab, {v: k for k, v in tab.items()})
    return _CLS


LEGACY_ARGS = {"ULeg": ("u", "v"), "ULegChild": ("u", "v", "w"), "ULegGrand": ("u", "v", "w"),
               "ULegGrandD": ("u", "v", "w", "x"), "ULegChildPlain": ("u", "v", "w"),
               "UMVTag": ("name", "tag")}


# ------------------------------------------------------------ values <-> JSON
# float NaN constants: a value that is not == itself, so WHICH float object sits where is
# observable (containers compare with "is" first).  Within one history the name (id) a
# specification gives a NaN stands for one Python float object; a NaN object met while
# reading the live objects back that has no name yet (it came out of a pickle) gets the
# next free one from 101 on.  Reset for every history.
_NAN_BY_NAME = {}
_NAN_NAME = {}      # id(float object) -> name; the objects stay alive in _NAN_KEEP
_NAN_KEEP = []


def _nan_reset():
    _NAN_BY_NAME.clear()
    _NAN_NAME.clear()
    del _NAN_KEEP[:]


def _nan_named(name):
    if name not in _NAN_BY_NAME:
        v = float("nan")
        _NAN_BY_NAME[name] = v
        _NAN_NAME[id(v)] = name
        _NAN_KEEP.append(v)
    return _NAN_BY_NAME[name]


def _nan_name(v):
    if id(v) not in _NAN_NAME:
        _NAN_KEEP.append(v)
        _NAN_NAME[id(v)] = 101 + sum(1 for n in _NAN_NAME.values() if n > 100)
    return _NAN_NAME[id(v)]


# round 5: the forms in which a Mapping can be handed to a constructor (C01_Values!MapForms).
# For the live forms the caller keeps the dict behind the object it passes; build() notes
# those dicts in _BACKING so that a later Mutate event can change them the way a caller would.
_BACKING = []
_UMAP = None


def _umap_class():
    """a Mapping implementation (collections.abc.Mapping subclass: unhashable) that reads a
    dict its creator keeps"""
    global _UMAP
    if _UMAP is None:
        from collections.abc import Mapping

        class UMap(Mapping):
            def __init__(self, d):
                self._d = d

            def __getitem__(self, k):
                return self._d[k]

            def __iter__(self):
                return iter(self._d)

            def __len__(self):
                return len(self._d)

        UMap.__module__ = __name__
        UMap.__qualname__ = "UMap"
        globals()["UMap"] = UMap
        _UMAP = UMap
    return _UMAP


def _mapping_in_form(mt, d):
    from collections import ChainMap, OrderedDict
    from types import MappingProxyType
    from immutabledict import immutabledict
    if mt == "imm":
        return immutabledict(d)
    if mt == "pimm":
        return MappingProxyType(immutabledict(d))
    _BACKING.append(d)
    if mt == "dict":
        return d
    if mt == "odict":
        d = OrderedDict(d)
        _BACKING[-1] = d
        return d
    if mt == "chain":
        return ChainMap(d)
    if mt == "proxy":
        return MappingProxyType(d)
    if mt == "umap":
        return _umap_class()(d)
    raise ValueError(mt)


def _mapping_form(v):
    """the form of a mapping met while reading a live object back (by type; what a
    MappingProxyType is a view of is found without hashing or comparing anything)"""
    import gc
    from collections import ChainMap, OrderedDict
    from types import MappingProxyType
    from immutabledict import immutabledict
    if isinstance(v, immutabledict):
        return "imm"
    if isinstance(v, OrderedDict):
        return "odict"
    if type(v) is dict:
        return "dict"
    if isinstance(v, ChainMap):
        return "chain"
    if isinstance(v, MappingProxyType):
        under = [r for r in gc.get_referents(v) if hasattr(r, "keys")]
        return "pimm" if len(under) == 1 and isinstance(under[0], immutabledict) else "proxy"
    if _UMAP is not None and isinstance(v, _UMAP):
        return "umap"
    return None


def mutate_backing(backing):
    """what the caller of a constructor may do afterwards with the mutable containers it
    passed: rebind the first entry, add an entry"""
    for d in backing:
        for k in d:
            d[k] = 888
            break
        d["zz_late"] = 777


def build(j, pre=None):
    """pre: called after the arguments of the (top-level) node have been built, right
    before its constructor runs"""
    import numpy as np
    t = j["t"]
    if t == "K":
        k = j["k"]
        if k == "int":
            return int(j["n"])
        if k == "bool":
            return bool(j["n"])
        if k == "flt":
            return j["n"] / j["d"]
        if k == "nan":
            return _nan_named(j["id"])
        if k == "frac":
            return Fraction(j["n"], j["d"])
        if k == "cplx":
            return complex(j["n"] / j["d"], j["im"])
        if k == "npint":
            return np.int64(j["n"])
        if k == "npflt":
            return np.float64(j["n"] / j["d"])
        raise ValueError(k)
    if t == "S":
        return CStr(j["s"]) if j["hc"] else j["s"]
    if t == "None":
        return None
    if t == "Ty":
        return {"float": float, "np.float64": np.float64}[j["s"]]
    if t == "T":
        return tuple(build(c) for c in j["c"])
    if t == "M":
        d = {e["k"]: build(e["v"]) for e in j["kv"]}
        return _mapping_in_form(j["mt"], d)
    if t == "N":
        vals = [build(f) for f in j["f"]]
        cls = _classes()[0][j["cls"]]
        if pre is not None:
            pre()
        if j["cls"] in BY_FIELD_TABLE:
            return _construct(cls, vals)
        return cls(*vals)
    raise ValueError(t)


def _num(k, v):
    fr = Fraction(v)
    if abs(fr.numerator) > 30000 or fr.denominator > 30000:
        return {"t": "Unk", "s": repr(v)[:40]}
    return {"t": "K", "k": k, "n": fr.numerator, "d": fr.denominator, "im": 0}


_MISSING = object()


def read(v):
    """Python value -> JSON shape of C01_Values (fields of nodes are read back from
    the live object)."""
    import numpy as np
    from collections.abc import Mapping
    import pymbolic.primitives as p
    if v is _MISSING:
        return {"t": "Missing"}
    if v is None:
        return {"t": "None"}
    if isinstance(v, (bool, np.bool_)):
        return {"t": "K", "k": "bool", "n": int(bool(v)), "d": 1, "im": 0}
    if isinstance(v, np.integer):
        return _num("npint", int(v))
    if isinstance(v, np.floating):
        return _num("npflt", float(v)) if np.isfinite(v) else {"t": "Unk", "s": "nan"}
    if isinstance(v, int):
        return _num("int", v)
    if type(v) is float and v != v:
        return {"t": "K", "k": "nan", "n": 0, "d": 1, "im": 0, "id": _nan_name(v)}
    if isinstance(v, float):
        return _num("flt", v) if v == v and abs(v) != float("inf") else {"t": "Unk", "s": "nan"}
    if isinstance(v, Fraction):
        return _num("frac", v)
    if isinstance(v, complex):
        if v.real != int(v.real) or v.imag != int(v.imag):
            return {"t": "Unk", "s": repr(v)}
        return {"t": "K", "k": "cplx", "n": int(v.real), "d": 1, "im": int(v.imag)}
    if isinstance(v, str):
        return {"t": "S", "s": str.__str__(v), "hc": 1 if type(v) is CStr else 0}
    if isinstance(v, type):
        name = {float: "float", np.float64: "np.float64"}.get(v)
        return {"t": "Ty", "s": name} if name else {"t": "Unk", "s": repr(v)}
    if isinstance(v, tuple):
        return {"t": "T", "c": [read(c) for c in v]}
    if isinstance(v, Mapping):
        mt = _mapping_form(v)
        if mt is None:
            return {"t": "Unk", "s": type(v).__name__}
        return {"t": "M", "mt": mt,
                "kv": [{"k": str(k), "v": read(x)} for k, x in v.items()]}
    if isinstance(v, p.Expression):
        name = _classes()[1].get(type(v))
        if name is None:
            return {"t": "Unk", "s": type(v).__name__}
        if name in LEGACY_ARGS:
            names = LEGACY_ARGS[name]
        else:
            import dataclasses
            names = [f.name for f in dataclasses.fields(v)]
        return {"t": "N", "cls": name,
                "f": [read(v.__dict__.get(n, _MISSING)) for n in names]}
    return {"t": "Unk", "s": type(v).__name__}


# ------------------------------------------------------------------- driving
class _Placeholder:
    """occupies a block of the size of a node instance (see the module text)"""


# CPython's small-object allocator hands out the free blocks of ONE pool of a size class
# until that pool is full; a block freed in another pool is not the next one to be handed
# out.  _occupy_until() allocates placeholders until one sits at the wanted address; the
# others are parked here (no allocation of that size happens while parking them) until the
# caller lets go of them.
_LIMIT = 60000
_PARKED = [None] * _LIMIT


def _occupy_until(addr):
    """-> (placeholder sitting at addr or None, number of parked placeholders)"""
    n = 0
    while n < _LIMIT:
        ph = _Placeholder()
        if id(ph) == addr:
            return ph, n
        _PARKED[n] = ph
        n += 1
    return None, n


def _unpark(n):
    while n > 0:
        n -= 1
        _PARKED[n] = None


class _Trace:
    def __init__(self):
        self.objs = []
        self.aids = {}          # raw address -> small id, in order of first occurrence
        self.dead = {}          # index of a dead object -> its last projection
        self.reserved = []      # placeholders sitting on freed blocks, oldest first
        self.parked = 0
        self.hids = {}
        self.trees = []
        self.tids = {}
        self.d = {}
        self.blobs = {}
        self.backing = {}       # index of a live object -> the mutable containers its builder kept

    def hid(self, raw):
        if raw not in self.hids:
            self.hids[raw] = len(self.hids) + 1
        return {"t": "H", "id": self.hids[raw]}

    def tid(self, tree):
        key = json.dumps(tree, sort_keys=True, separators=(",", ":"))
        if key not in self.tids:
            self.trees.append(tree)
            self.tids[key] = len(self.trees)
        return self.tids[key]

    def aid(self, raw):
        if raw not in self.aids:
            self.aids[raw] = len(self.aids) + 1
        return self.aids[raw]

    def drop(self, i):
        """the lifetime of the i-th object ends here; the block it leaves is kept reserved
        (the driver's own recording work would take it otherwise)"""
        import gc
        self.dead[i] = self.proj()[i - 1]
        old = id(self.objs[i - 1])
        self.objs[i - 1] = None
        ph, n = _occupy_until(old)
        _unpark(n)
        if ph is None:
            # not freed by the reference count (or the block was given back to the system)
            gc.collect()
            ph, n = _occupy_until(old)
            _unpark(n)
        if ph is not None:
            self.reserved.append(ph)

    def before_alloc(self):
        """called right before a constructor / copy of the history runs: the reserved
        blocks are given back, and the one freed last is made the next block the allocator
        hands out"""
        if not self.reserved:
            return
        addr = id(self.reserved[-1])
        while self.reserved:
            self.reserved.pop(0)
        ph, self.parked = _occupy_until(addr)
        ph = None

    def after_alloc(self):
        _unpark(self.parked)
        self.parked = 0

    def proj(self):
        out = []
        for k, o in enumerate(self.objs):
            if o is None:
                out.append(self.dead[k + 1])
                continue
            hv = o.__dict__.get("_hash_value", _MISSING)
            out.append({"tr": self.tid(read(o)),
                        "hashed": 0 if hv is _MISSING else 1,
                        "h": {"t": "None"} if hv is _MISSING else self.hid(hv)})
        return out


NOH = {"t": "None"}


def _res(k="ok", b=0, h=NOH, exc="", v=0):
    return {"k": k, "b": b, "h": h, "exc": exc, "v": v}


def _rebuild_mapper():
    from pymbolic.mapper import IdentityMapper

    class Rebuild(IdentityMapper):
        def map_variable(self, expr, *args, **kwargs):
            return type(expr)(*[getattr(expr, n) for n in
                                (["name", "tag"] if hasattr(expr, "tag") else ["name"])])
        map_multivector_variable = map_variable
    return Rebuild()


def _step(tr, ev):
    import copy
    import dataclasses
    op, i, j = ev["op"], ev["i"], ev["j"]
    n = len(tr.objs)
    if op != "New" and not (1 <= i <= n and tr.objs[i - 1] is not None):
        return _res("bad")
    if (op in ("Eq", "Ne", "Replace") or (op == "SetAttr" and j != 0)) \
            and not (1 <= j <= n and tr.objs[j - 1] is not None):
        return _res("bad")
    if op == "Drop":
        tr.drop(i)
        return _res("ok")
    if op in ("Copy", "Replace", "Touch"):
        tr.before_alloc()
    a = tr.objs[i - 1] if op != "New" else None
    b = tr.objs[j - 1] if 1 <= j <= n else None
    try:
        if op == "New":
            if ev["md"]:
                import pickle
                blob = tr.blobs[_blob_key(ev["spec"], ev["md"])]
                if "err" in blob:
                    return _res("err", exc=blob["err"])
                if "nopickle" in blob:
                    return _res("nopickle", exc=blob["nopickle"])
                tr.before_alloc()
                try:
                    c = pickle.loads(bytes.fromhex(blob["hex"]))
                except Exception as exc:  # noqa: BLE001
                    return _res("nopickle", exc=type(exc).__name__)
                tr.objs.append(c)
                return _res("new")
            del _BACKING[:]
            try:
                o = build(ev["spec"], tr.before_alloc)
            finally:
                kept = list(_BACKING)
                del _BACKING[:]
            tr.objs.append(o)
            tr.backing[len(tr.objs)] = kept
            return _res("new")
        if op == "Mutate":
            mutate_backing(tr.backing.get(i, []))
            return _res("ok")
        if op == "Hash":
            return _res("ok", h=tr.hid(hash(a)))
        if op == "Eq":
            return _res("ok", b=1 if (a == b) else 0)
        if op == "Ne":
            return _res("ok", b=1 if (a != b) else 0)
        if op == "SetAttr":
            setattr(a, ev["fn"], getattr(b, ev["fn"]) if b is not None else 77)
            return _res("ok")
        if op == "DelAttr":
            delattr(a, ev["fn"])
            return _res("ok")
        if op == "Copy":
            if ev["md"] == "pickle":
                import pickle
                try:
                    c = pickle.loads(pickle.dumps(a))
                except Exception as exc:  # noqa: BLE001
                    return _res("nopickle", exc=type(exc).__name__)
            else:
                c = copy.copy(a) if ev["md"] == "copy" else copy.deepcopy(a)
            if c is a:
                return _res("same")
            tr.objs.append(c)
            return _res("new")
        if op == "Replace":
            c = dataclasses.replace(a, **{ev["fn"]: getattr(b, ev["fn"])})
            tr.objs.append(c)
            return _res("new")
        if op == "Touch":
            md = ev["md"]
            if md in ("stock", "cim", "rebuild"):
                from pymbolic.mapper import CachedIdentityMapper, IdentityMapper
                m = {"stock": IdentityMapper, "cim": CachedIdentityMapper,
                     "rebuild": _rebuild_mapper}[md]()
                c = m(a)
                if c is a:
                    return _res("same")
                import pymbolic.primitives as p
                if not isinstance(c, p.Expression):
                    return _res("other")
                tr.objs.append(c)
                return _res("new")
            if md == "str":
                str(a)
            elif md == "repr":
                repr(a)
            elif md == "deps":
                from pymbolic.mapper.dependency import DependencyMapper
                DependencyMapper()(a)
            return _res("ok")
        if op == "DictPut":
            tr.d[a] = ev["v"]
            return _res("ok")
        if op == "DictGet":
            try:
                return _res("ok", v=tr.d[a])
            except KeyError:
                return _res("ok", v=-1)
        return _res("bad")
    except Exception as exc:  # noqa: BLE001 - the exception class *is* the observation
        # (RecursionError included: a mapper applied to an object whose attribute was
        # deleted can recurse; the step that allowed the deletion is what gets judged)
        return _res("err", exc=type(exc).__name__)


# ------------------------------------------------- the other interpreter process
def _blob_key(spec, md):
    return md + "|" + json.dumps(spec, sort_keys=True, separators=(",", ":"))


def _nested_nodes(o, top=True):
    """expression nodes nested in the fields of o (not o itself), innermost first"""
    import pymbolic.primitives as p
    from collections.abc import Mapping
    out = []
    if isinstance(o, p.Expression):
        for v in list(o.__dict__.values()):
            out += _nested_nodes(v, False)
        if not top:
            out.append(o)
    elif isinstance(o, tuple):
        for v in o:
            out += _nested_nodes(v, False)
    elif isinstance(o, Mapping):
        for v in o.values():
            out += _nested_nodes(v, False)
    return out


def foreign_main():
    """Runs in the helper interpreter (other PYTHONHASHSEED): one JSON request per
    line {"spec", "md"} -> {"hex": pickle of the object built from spec, after
    hash(obj) for md = "pkh" / hash(every nested node) for md = "pkc"} or {"err"}."""
    import pickle
    warnings.simplefilter("ignore")
    _classes()
    for line in sys.stdin:
        req = json.loads(line)
        _nan_reset()
        try:
            o = build(req["spec"])      # the constructor may refuse, as it would here
        except Exception as exc:  # noqa: BLE001
            ans = {"err": type(exc).__name__}
        else:
            try:
                if req["md"] == "pkh":
                    hash(o)
                elif req["md"] == "pkc":
                    for c in _nested_nodes(o):
                        hash(c)
                ans = {"hex": pickle.dumps(o).hex()}
            except Exception as exc:  # noqa: BLE001
                ans = {"nopickle": type(exc).__name__}
        sys.stdout.write(json.dumps(ans) + "\n")
        sys.stdout.flush()


_HELPER = None
_BLOBS = {}


def _foreign_blob(spec, md):
    """Ask the helper interpreter (started once per worker, lazily)."""
    global _HELPER
    key = _blob_key(spec, md)
    if key in _BLOBS:
        return key, _BLOBS[key]
    if _HELPER is None:
        mine = os.environ.get("PYTHONHASHSEED", "")
        env = dict(os.environ, PYTHONHASHSEED="4242" if mine != "4242" else "4243",
                   PYTHONPATH=os.pathsep.join(p for p in sys.path if p))
        _HELPER = subprocess.Popen(
            [sys.executable, "-W", "ignore", "-c",
             "from harness import c01drv; c01drv.foreign_main()"],
            stdin=subprocess.PIPE, stdout=subprocess.PIPE, text=True, env=env)
    _HELPER.stdin.write(json.dumps({"spec": spec, "md": md}) + "\n")
    _HELPER.stdin.flush()
    line = _HELPER.stdout.readline()
    if not line:
        raise RuntimeError("C01 driver: the helper interpreter died")
    _BLOBS[key] = json.loads(line)
    return key, _BLOBS[key]


def _drive_inproc(case, blobs, fresh):
    global _CLS
    tr = _Trace()
    tr.blobs = blobs
    _nan_reset()
    evs = []
    with warnings.catch_warnings():
        warnings.simplefilter("ignore")
        if fresh:           # brand-new user classes: nothing has ever run on them
            _classes(fresh_for={n for n in _MAKERS if _mentions(
                [ev["spec"] for ev in case["hist"] if ev["op"] == "New"], {n})})
        for ev in case["hist"]:
            r = _step(tr, ev)
            tr.after_alloc()
            # the address the object this step created was given
            r["ad"] = tr.aid(id(tr.objs[-1])) if r["k"] == "new" else 0
            r["proj"] = tr.proj()
            evs.append({"ev": ev, "r": r})
    return {"id": case["id"], "sweep": case["sweep"], "trees": tr.trees, "evs": evs}


def _mentions(v, names):
    if isinstance(v, dict):
        return v.get("cls") in names or any(_mentions(x, names) for x in v.values())
    if isinstance(v, list):
        return any(_mentions(x, names) for x in v)
    return False


# built-in undecorated class (its instances run the generated functions of the decorated
# Variable, which is where pymbolic could remember something per class) and its user
# subclass: these cannot be re-created by the driver
BUILTIN_UNDECORATED = {"MultiVectorVariable", "UMVTag"}


def drive_case(case, extra):
    """case = {"id", "sweep", "hist": [events]} -> recorded trace.  Every history starts
    from the pristine class state of the user classes it mentions (they and their user
    bases are created anew for it), and if a built-in undecorated class (or a subclass
    of one) is involved it runs in a forked child of the worker, which itself never
    uses such a class.  (A fork per trace for *all* histories costs minutes on a busy
    machine.)"""
    with warnings.catch_warnings():
        warnings.simplefilter("ignore")
        _classes()      # an import error of pymbolic is a machinery failure, not an observation
    blobs = dict(_foreign_blob(ev["spec"], ev["md"])
                 for ev in case["hist"] if ev["op"] == "New" and ev["md"])
    specs = [ev["spec"] for ev in case["hist"] if ev["op"] == "New"]
    if not _mentions(specs, BUILTIN_UNDECORATED):
        return _drive_inproc(case, blobs, _mentions(specs, set(_MAKERS)))
    rfd, wfd = os.pipe()
    pid = os.fork()
    if pid == 0:
        code = 1
        try:
            os.close(rfd)
            data = json.dumps(_drive_inproc(case, blobs, True)).encode()
            with os.fdopen(wfd, "wb") as f:
                f.write(data)
            code = 0
        finally:
            os._exit(code)
    os.close(wfd)
    with os.fdopen(rfd, "rb") as f:
        data = f.read()
    _, status = os.waitpid(pid, 0)
    if status != 0 or not data:
        raise RuntimeError(f"C01 driver: the child running case {case['id']} ended with status {status}")
    return json.loads(data)
