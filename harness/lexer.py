"""Tokeniser for printed pymbolic text -> the token alphabet of C06_Stringify / C07_Parser
(white space dropped, a sign is its own token, a float literal is one token)."""
import re

_TOK = re.compile(r"""
    (?P<float>(?:[0-9]+\.[0-9]*|\.[0-9]+)(?:[eE][+-]?[0-9]+)?|[0-9]+[eE][+-]?[0-9]+)
  | (?P<int>[0-9]+)
  | (?P<id>[A-Za-z_@$][A-Za-z_0-9@$]*)
  | (?P<op>\*\*|//|<<|>>|<=|>=|==|!=|[-+*/%&|^~<>()\[\],.:=])
  | (?P<ws>\s+)
  | (?P<bad>.)
""", re.X)


def tokenize(text):
    out = []
    for m in _TOK.finditer(text):
        k = m.lastgroup
        if k == "ws":
            continue
        if k == "bad":
            out.append("?" + m.group())
        else:
            out.append(m.group())
    return out
