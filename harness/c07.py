"""C07 - the parser reads the syntax it shares with Python the way Python does."""
from __future__ import annotations

import ast
import json
import warnings

from harness import kit, ser

_ENVS = None
_IMPORTER = None


def _envs(extra):
    global _ENVS
    if _ENVS is None:
        _ENVS = [{k: ser.json_to_val(v) for k, v in env.items()} for env in extra["envs"]]
    return _ENVS


def drive_case(case, extra):
    from pymbolic import parse
    from pymbolic.interop.ast import ASTToPymbolic
    s = case.get("text") or " ".join(case["toks"])      # the text is the model's (C07_Lex)
    rec = {"id": case["id"], "toks": case["toks"], "garbled": case["garbled"], "s": s}
    rec["pp"] = ser.obj_to_json(lambda: parse(s))
    try:
        with warnings.catch_warnings():
            warnings.simplefilter("ignore")
            tree = ast.parse(s, mode="eval")
        rec["syn"] = False
    except SyntaxError:
        rec["syn"] = True
        rec["ai"] = {"r": "syntax"}
        rec["ai2"] = {"r": "syntax"}
        rec["py"] = []
        rec["ast"] = []
        return rec
    rec["ast"] = sorted({type(n).__name__ for n in ast.walk(tree)}
                        | {type(n.op).__name__ for n in ast.walk(tree) if hasattr(n, "op")}
                        | {"ChainedCompare" for n in ast.walk(tree)
                           if isinstance(n, ast.Compare) and len(n.ops) > 1}
                        | {"USubOfTuple" for n in ast.walk(tree)
                           if isinstance(n, ast.UnaryOp) and isinstance(n.op, ast.USub)
                           and isinstance(n.operand, (ast.Tuple, ast.List))})
    rec["ai"] = ser.obj_to_json(lambda: ASTToPymbolic()(tree.body))
    global _IMPORTER
    if _IMPORTER is None:
        _IMPORTER = ASTToPymbolic()      # one long-lived instance per worker process
    rec["ai2"] = ser.obj_to_json(lambda: _IMPORTER(tree.body))
    code = compile(tree, "<c07>", "eval")
    mask = case.get("ev") or [True] * len(_envs(extra))
    rec["py"] = [ser.call_to_json(lambda: eval(code, {"__builtins__": {}}, dict(env)))  # noqa: S307
                 if m else {"k": "unrep"}     # outside the model's bounds there (C07_Gen.EvMask)
                 for env, m in zip(_envs(extra), mask)]
    return rec


_BIN = {"+", "-", "*", "/", "//", "%", "**", "<<", ">>", "&", "|", "^", "==", "!=", "<", "<=",
        ">", ">=", "and", "or"}
_OPERAND_END = {")", "]"}


def op_sequence(toks):
    """Operators of a token string in order; a prefix operator is marked 'u<op>'."""
    ops = []
    prev = None
    for t in toks:
        if t in ("-", "+", "~", "not") and (prev is None or prev in _BIN or prev in
                                            ("(", "[", ",", "if", "else", "=", "~", "not", "u")):
            ops.append("u" + t)
            prev = "u"
            continue
        if t in _BIN or t in ("if", "else", ",", "(", "[", ".", "=", ")", "]"):
            ops.append(t)
        prev = t
    return ops


_CMP = {"==", "!=", "<", "<=", ">", ">="}
_PREFIX = {"u-", "u+", "u~", "unot"}


def _cls(o):
    return "CMP" if o in _CMP else o


def pairs(toks):
    """Adjacent operator pairs (attribution patterns): exact, by class (all comparison
    operators are one class), and with prefix operators between two binary operators
    skipped; ('unot', 'BIN') stands for 'not' before any arithmetic/bitwise/comparison
    operator."""
    o = op_sequence(toks)
    o2 = [x for x in o if x not in _PREFIX]
    res = set()

    def add(a, b):
        res.add((a, b))
        res.add((_cls(a), _cls(b)))
        if a == "unot" and b in _BIN and b not in ("and", "or"):
            res.add(("unot", "BIN"))

    for seq in (o, o2):
        for a, b in zip(seq, seq[1:]):
            add(a, b)
    # two binary operators are also "neighbours" when everything between them binds
    # tighter (in Python) than both: a < b * c < d
    for i in range(len(o2)):
        for j in range(i + 2, len(o2)):
            a, b = o2[i], o2[j]
            if a in _PYPREC and b in _PYPREC and all(
                    x in _PYPREC and _PYPREC[x] > max(_PYPREC[a], _PYPREC[b]) for x in o2[i + 1:j]):
                add(a, b)
    # a prefix operator and the first looser-or-equal binary operator to its right
    for i, a in enumerate(o):
        if a in _PREFIX:
            for b in o[i + 1:]:
                if b in _PREFIX:
                    continue
                if b not in _PYPREC:
                    break
                add(a, b)
    return res


_PYPREC = {"or": 1, "and": 2, "==": 4, "!=": 4, "<": 4, "<=": 4, ">": 4, ">=": 4, "|": 5, "^": 6,
           "&": 7, "<<": 8, ">>": 8, "+": 9, "-": 9, "*": 10, "/": 10, "//": 10, "%": 10, "**": 12}


def classify(out, verdicts, byid):
    known_pairs, known_ast, known_seq, known_dev = [], [], [], []
    for k in out.known:
        sig = json.loads(k)
        if "dev" in sig:
            known_dev.append((sig["dev"], sig))
        if "opseq" in sig:
            known_seq.append((sig["opseq"], sig))
        if "ops" in sig:
            known_pairs.append((tuple(sig["ops"]), sig))
        if "ast" in sig:
            known_ast.append((sig["ast"], sig))
    for v in verdicts:
        rec = byid[v["id"]]
        if "drift" in v:
            out.drift += 1
            ex = out.extra.setdefault("drift_examples", [])
            if len(ex) < 8:
                ex.append({"text": rec["s"], "what": v["drift"], "parser": rec["pp"]})
            continue
        if "oracle" in v:
            out.extra.setdefault("oracle_mismatches", []).append({"text": rec["s"], "what": v["oracle"]})
            continue
        for side in ("p", "a", "a2"):
            vv = v[side]
            if vv["v"] == "OK":
                continue
            if vv["v"] == "SKIP":
                out.skipped += 1
                continue
            detail = {"case": {"id": rec["id"], "toks": rec["toks"], "garbled": rec["garbled"]},
                      "text": rec["s"], "parser": rec["pp"], "importer": rec["ai"],
                      "python": rec["py"], "env_index": vv["env"], "clause": vv["v"]}
            if side == "p":
                # TLC's attribution (C07_Judge.Explained): the real parser returned exactly what
                # the unrepaired transcription predicts, the transcription with all NAMED
                # deviations repaired reads the string as Python does, and these are the
                # deviations whose repair alone changes the reading
                devs = list(v.get("devs", []))
                hit = next((sig for d, sig in known_dev if d in devs), None) if devs else None
                sig = hit or {"clause": vv["v"], "opseq_unlisted": op_sequence(rec["toks"]),
                              "deviations": devs}
            else:
                kinds = set(rec["ast"])
                hit = next((sig for a, sig in known_ast if a in kinds), None)
                sig = hit or {"clause": ("ast-" if side == "a" else "ast-reused-instance-") + vv["v"],
                              "ast_kinds": sorted(kinds),
                              "opseq_unlisted": op_sequence(rec["toks"])}
            out.fail(sig, detail)


def judge(out, recs, wd):
    shards = kit.write_shards(recs, wd / "trace", "c07", 6000)
    verdicts, st, tr = kit.judge_shards("C07_Judge", "C07_Judge", shards)
    out.states += st
    out.transitions += tr
    out.traces += len(recs)
    (wd / "verdicts.json").write_text(json.dumps(verdicts))
    classify(out, verdicts, {r["id"]: r for r in recs})
    om = out.extra.get("oracle_mismatches", [])
    if om:
        # the reference grammar (M-layer) disagrees with CPython: the oracle is wrong, not pymbolic
        raise kit.MachineryError(f"C07 reference grammar rejected by CPython on {len(om)} strings, e.g. {om[:3]}")


def run(tier, seed, out):
    wd = kit.fresh_workdir("C07")
    gen = kit.run_tlc("C07_Gen", f"C07_Gen_{tier}")
    kit.require_clean(gen, "C07 generation")
    out.add_tlc(gen)
    printed = gen.printed()
    envs = [p["envs"] for p in printed if "envs" in p]
    cases = [p for p in printed if "toks" in p]
    out.extra["design_level_failures_on_model"] = sum(1 for p in printed if "design" in p)
    if tier == "thorough":
        rnd, st = kit.simulate_many("C07_Rand", "C07_Rand", runs=8, num=4000, depth=80, seed=seed)
        out.states += st
        out.transitions += st
        out.extra["random_long_strings"] = len(rnd)
        cases += [p for p in rnd if "toks" in p]
    seen, uniq = set(), []
    for c in cases:
        k = (tuple(c["toks"]), c["garbled"])
        if k not in seen:
            seen.add(k)
            uniq.append(c)
    cases = uniq
    for i, c in enumerate(cases):
        c["id"] = i
    kit.log(f"C07: TLC generated {len(cases)} token strings ({gen.wall:.1f}s)")
    recs = kit.drive("harness.c07", "drive_case", cases, {"envs": envs[0]}, chunk=200)
    out.evaluations += sum(2 + len(r["py"]) for r in recs)

    def corrupt(r):      # the parser's tree replaced by "tree + 1"
        if r["pp"].get("r") == "ok" and not r["syn"] and r["toks"][1:2] == ["+"] and len(r["toks"]) == 5 \
                and r["toks"][3] in ("+", "*", "-"):
            r["pp"]["e"] = {"t": "Sum", "c": [r["pp"]["e"], {"t": "Const", "v": {"k": "int", "n": 1, "d": 1}}]}
            return r
        return None
    out.extra["corrupted_records_rejected"] = kit.corruption_control(
        "C07_Judge", "C07_Judge", recs, corrupt, wd,
        flagged=lambda v: "p" in v and v["p"]["v"] not in ("OK", "SKIP"))
    judge(out, recs, wd)
    for r in recs:
        out.note_case(r["toks"], nontrivial=len(r["toks"]) > 1)
    out.samples = [{"text": r["s"], "parser": r["pp"], "importer": r["ai"], "python": r["py"][:2]}
                   for r in recs[:: max(1, len(recs) // 3)][:3]]
    out.extra["strings_outside_shared_syntax"] = sum(1 for r in recs if r["syn"])
    out.rule = ("TLC fills typed operator slots of token skeletons: every ordered pair of the 20 binary operators, "
                "triples over a reduced set (all triples in the thorough tier), unary operators and conditional "
                "expressions in every operand position, postfix chains, tuples, literals, truncated strings; "
                "each string is judged in 12 environments against CPython's own eval")
    out.exhaustive = True
    out.assumptions += ["CPython's eval of the same text is the ground truth (recorded, not modelled)",
                        "Eval (PyNum.tla) gives the meaning of the returned tree; and/or read with Python's "
                        "operand-returning semantics for this comparison"]


def replay(path, out):
    wd = kit.fresh_workdir("C07")
    d = json.loads(open(path).read())
    gen = kit.run_tlc("C07_Gen", "C07_Gen_quick")
    envs = [p["envs"] for p in gen.printed() if "envs" in p]
    recs = kit.drive("harness.c07", "drive_case", [d["detail"]["case"]], {"envs": envs[0]})
    judge(out, recs, wd)
