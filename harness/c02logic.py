"""C02, logical operators by Python's own meaning (spec/C02_Logic.tla): generation, driving through
the real evaluator entry points (harness.c02.drive_case), judging by C02_LogicJudge."""
from __future__ import annotations

from harness import kit


def run_family(out, wd):
    gen = kit.run_tlc("C02_Logic", "C02_Logic", workers=4, coverage=False)
    kit.require_clean(gen, "C02 logical operators (Python's meaning next to any()/all())")
    out.add_tlc(gen)
    printed = gen.printed()
    envs = [p["envs"] for p in printed if "envs" in p]
    cases = [p for p in printed if "e" in p]
    if len(envs) != 1 or not cases:
        raise kit.MachineryError("C02_Logic printed no environments / trees")
    for i, c in enumerate(cases):
        c["id"] = f"l{i}"
    recs = kit.drive("harness.c02", "drive_case", cases, {"envs": envs[0]}, chunk=100)
    out.evaluations += 7 * len(envs[0]) * len(recs)
    out.extra["logical_operator_trees_judged"] = len(recs)
    return judge(out, recs, wd)


def judge(out, recs, wd):
    shards = kit.write_shards(recs, wd / "trace_logic", "c02logic", 3000)
    verdicts, st, tr = kit.judge_shards("C02_LogicJudge", "C02_LogicJudge", shards)
    out.states += st
    out.transitions += tr
    out.traces += len(recs)
    byid = {r["id"]: r for r in recs}
    n = 0
    for v in verdicts:
        if "id" not in v:       # (the judge module extends C02_Logic, which prints its environments)
            continue
        rec = byid[v["id"]]
        n += 1
        # the listed deviation is recognised by what the model says about the observed values
        # (exactly bool(Python's value) in every failing environment), never by the tree's shape
        sig = ({"family": "logic", "deviation": "bool-of-python"} if v["bool_of_python"]
               else {"family": "logic", "clause": v["v"], "bool_of_python": False})
        out.fail(sig, {"case": rec["e"], "fam": "logic", "env": v["env"], "recorded": rec["r"][v["env"] - 1]})
    return n
