"""C05: the mapper classes handed to pymbolic.mapper.optimize.optimize_mapper.

They live in a real module file because optimize_mapper re-reads the source of the
class (and of every inherited method) from the module file.  Every class has a
cache-free counterpart with the same handlers (Plain*).  Names are deliberately
unusual: the optimizer merges the globals of all modules it took methods from and
refuses on a clash."""
from __future__ import annotations

import pymbolic.primitives as c05_prim
from pymbolic.mapper import (
    CachedCollector as C05CachedCollector,
    CachedCombineMapper as C05CachedCombineMapper,
    CachedIdentityMapper as C05CachedIdentityMapper,
    Collector as C05Collector,
    CombineMapper as C05CombineMapper,
    IdentityMapper as C05IdentityMapper,
)

from harness.c05_mappers import suffix as c05_suffix


# ---- handlers use the extra arguments, stock cache key ---------------------------
class OptRenamerArgs(C05CachedIdentityMapper):
    def map_variable(self, expr, *args, **kwargs):
        return c05_prim.Variable(expr.name + "_r" + c05_suffix(args, kwargs))


class PlainRenamerArgs(C05IdentityMapper):
    def map_variable(self, expr, *args, **kwargs):
        return c05_prim.Variable(expr.name + "_r" + c05_suffix(args, kwargs))


# ---- no extra arguments anywhere, stock cache key ----------------------------------
class OptRenamerStock(C05CachedIdentityMapper):
    def map_variable(self, expr):
        return c05_prim.Variable(expr.name + "_r")


# ---- no extra arguments, own two-component key (the shipped usage, test/testlib.py) -
class OptRenamerKey(C05CachedIdentityMapper):
    def map_variable(self, expr):
        return c05_prim.Variable(expr.name + "_r")

    def get_cache_key(self, expr):
        return (type(expr), expr)


class PlainRenamer(C05IdentityMapper):
    def map_variable(self, expr):
        return c05_prim.Variable(expr.name + "_r")


# ---- a set-valued mapper using the extra arguments --------------------------------
class OptCollectorArgs(C05CachedCollector):
    def map_variable(self, expr, *args, **kwargs):
        return {c05_prim.Variable(expr.name + "_r" + c05_suffix(args, kwargs))}


class PlainCollectorArgs(C05Collector):
    def map_variable(self, expr, *args, **kwargs):
        return {c05_prim.Variable(expr.name + "_r" + c05_suffix(args, kwargs))}


# ---- an integer-valued combine mapper, own key ---------------------------------------
class OptCountKey(C05CachedCombineMapper):
    def combine(self, values):
        return sum(values)

    def map_variable(self, expr):
        return 1

    def map_constant(self, expr):
        return 1

    def get_cache_key(self, expr):
        return (type(expr), expr)


class PlainCount(C05CombineMapper):
    def combine(self, values):
        return sum(values)

    def map_variable(self, expr):
        return 1

    def map_constant(self, expr):
        return 1


COUNTERPART = {
    "OptRenamerArgs": "PlainRenamerArgs",
    "OptRenamerStock": "PlainRenamer",
    "OptRenamerKey": "PlainRenamer",
    "OptCollectorArgs": "PlainCollectorArgs",
    "OptCountKey": "PlainCount",
}
