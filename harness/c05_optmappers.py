"""C05: the mapper classes handed to pymbolic.mapper.optimize.optimize_mapper.

They live in a real module file because optimize_mapper re-reads the source of the
class (and of every inherited method) from the module file.  Every class has a
cache-free counterpart with the same handlers (Plain*).  Names are deliberately
unusual: the optimizer merges the globals of all modules it took methods from and
refuses on a clash."""
from __future__ import annotations

import pymbolic.primitives as c05_prim
from pymbolic.mapper import (
    CachedCollector as C05CachedCollector,
    CachedCombineMapper as C05CachedCombineMapper,
    CachedIdentityMapper as C05CachedIdentityMapper,
    CachedWalkMapper as C05CachedWalkMapper,
    Collector as C05Collector,
    CombineMapper as C05CombineMapper,
    IdentityMapper as C05IdentityMapper,
    WalkMapper as C05WalkMapper,
)

from harness.c05_mappers import suffix as c05_suffix


# ---- handlers use the extra arguments, stock cache key ---------------------------
class OptRenamerArgs(C05CachedIdentityMapper):
    def map_variable(self, expr, *args, **kwargs):
        return type(expr)(expr.name + "_r" + c05_suffix(args, kwargs))


class PlainRenamerArgs(C05IdentityMapper):
    def map_variable(self, expr, *args, **kwargs):
        return type(expr)(expr.name + "_r" + c05_suffix(args, kwargs))


# ---- no extra arguments anywhere, stock cache key ----------------------------------
class OptRenamerStock(C05CachedIdentityMapper):
    def map_variable(self, expr):
        return type(expr)(expr.name + "_r")


# ---- no extra arguments, own two-component key (the shipped usage, test/testlib.py) -
class OptRenamerKey(C05CachedIdentityMapper):
    def map_variable(self, expr):
        return type(expr)(expr.name + "_r")

    def get_cache_key(self, expr):
        return (type(expr), expr)


class PlainRenamer(C05IdentityMapper):
    def map_variable(self, expr):
        return type(expr)(expr.name + "_r")


# ---- a set-valued mapper using the extra arguments --------------------------------
class OptCollectorArgs(C05CachedCollector):
    def map_variable(self, expr, *args, **kwargs):
        return {type(expr)(expr.name + "_r" + c05_suffix(args, kwargs))}


class PlainCollectorArgs(C05Collector):
    def map_variable(self, expr, *args, **kwargs):
        return {type(expr)(expr.name + "_r" + c05_suffix(args, kwargs))}


# ---- an integer-valued combine mapper, own key ---------------------------------------
class OptCountKey(C05CachedCombineMapper):
    def combine(self, values):
        return sum(values)

    def map_variable(self, expr):
        return 1

    def map_constant(self, expr):
        return 1

    def get_cache_key(self, expr):
        return (type(expr), expr)


class PlainCount(C05CombineMapper):
    def combine(self, values):
        return sum(values)

    def map_variable(self, expr):
        return 1

    def map_constant(self, expr):
        return 1


# ---- round 2: classes that OVERRIDE handlers their base also exposes under alias names --
# (IdentityMapper.map_product = map_sum, map_floor_div = map_remainder = map_quotient, ...;
# Collector.map_variable = map_constant).  Python keeps the aliases bound to the BASE's
# function; an override serves its own name only.  Every overriding body marks its result
# with its own method name (C05_Fresh!MarkCombine).
def c05_mark_tree(name, kids):
    return c05_prim.Call(c05_prim.Variable("ov_" + name), tuple(kids))


class _OvIdentHandlers:
    def map_variable(self, expr):
        return type(expr)(expr.name + "_r")

    def map_sum(self, expr):
        return c05_mark_tree("map_sum", [self.rec(ch) for ch in expr.children])

    def map_quotient(self, expr):
        return c05_mark_tree("map_quotient",
                             [self.rec(expr.numerator), self.rec(expr.denominator)])

    def map_bitwise_or(self, expr):
        return c05_mark_tree("map_bitwise_or", [self.rec(ch) for ch in expr.children])

    def map_min(self, expr):
        return c05_mark_tree("map_min", [self.rec(ch) for ch in expr.children])

    def map_left_shift(self, expr):
        return c05_mark_tree("map_left_shift", [self.rec(expr.shiftee), self.rec(expr.shift)])

    def map_bitwise_not(self, expr):
        return c05_mark_tree("map_bitwise_not", [self.rec(expr.child)])


class OptOvIdent(C05CachedIdentityMapper):
    def map_variable(self, expr):
        return type(expr)(expr.name + "_r")

    def map_sum(self, expr):
        return c05_mark_tree("map_sum", [self.rec(ch) for ch in expr.children])

    def map_quotient(self, expr):
        return c05_mark_tree("map_quotient",
                             [self.rec(expr.numerator), self.rec(expr.denominator)])

    def map_bitwise_or(self, expr):
        return c05_mark_tree("map_bitwise_or", [self.rec(ch) for ch in expr.children])

    def map_min(self, expr):
        return c05_mark_tree("map_min", [self.rec(ch) for ch in expr.children])

    def map_left_shift(self, expr):
        return c05_mark_tree("map_left_shift", [self.rec(expr.shiftee), self.rec(expr.shift)])

    def map_bitwise_not(self, expr):
        return c05_mark_tree("map_bitwise_not", [self.rec(expr.child)])

    def get_cache_key(self, expr):
        return (type(expr), expr)


class PlainOvIdent(_OvIdentHandlers, C05IdentityMapper):
    pass


def c05_mark_set(name, kids):
    res = {c05_prim.Variable("ov_" + name)}
    for k in kids:
        res = res | k
    return res


class _OvCollectorHandlers:
    def map_constant(self, expr):
        return c05_mark_set("map_constant", [])

    def map_sum(self, expr):
        return c05_mark_set("map_sum", [self.rec(ch) for ch in expr.children])

    def map_quotient(self, expr):
        return c05_mark_set("map_quotient",
                            [self.rec(expr.numerator), self.rec(expr.denominator)])

    def map_list(self, expr):
        return c05_mark_set("map_list", [self.rec(ch) for ch in expr])


class OptOvCollector(C05CachedCollector):
    def map_constant(self, expr):
        return c05_mark_set("map_constant", [])

    def map_sum(self, expr):
        return c05_mark_set("map_sum", [self.rec(ch) for ch in expr.children])

    def map_quotient(self, expr):
        return c05_mark_set("map_quotient",
                            [self.rec(expr.numerator), self.rec(expr.denominator)])

    def map_list(self, expr):
        return c05_mark_set("map_list", [self.rec(ch) for ch in expr])

    def get_cache_key(self, expr):
        return (type(expr), expr)


class PlainOvCollector(_OvCollectorHandlers, C05Collector):
    pass


class _OvCountHandlers:
    def combine(self, values):
        return sum(values)

    def map_variable(self, expr):
        return 1

    def map_constant(self, expr):
        return 1

    def map_sum(self, expr):
        return 100 + sum([self.rec(ch) for ch in expr.children])

    def map_left_shift(self, expr):
        return 100 + self.rec(expr.shiftee) + self.rec(expr.shift)

    def map_bitwise_not(self, expr):
        return 100 + self.rec(expr.child)


class OptOvCount(C05CachedCombineMapper):
    def combine(self, values):
        return sum(values)

    def map_variable(self, expr):
        return 1

    def map_constant(self, expr):
        return 1

    def map_sum(self, expr):
        return 100 + sum([self.rec(ch) for ch in expr.children])

    def map_left_shift(self, expr):
        return 100 + self.rec(expr.shiftee) + self.rec(expr.shift)

    def map_bitwise_not(self, expr):
        return 100 + self.rec(expr.child)

    def get_cache_key(self, expr):
        return (type(expr), expr)


class PlainOvCount(_OvCountHandlers, C05CombineMapper):
    pass


# ---- round 7: handlers return None / values that are false in a truth test; own key ----
# (a memoizing traversal: every handler returns None; combine mappers whose every handler
# returns None, 0, False, ().  The table must keep such results like any other.)
class OptWalkKey(C05CachedWalkMapper):
    def get_cache_key(self, expr):
        return (type(expr), expr)


class PlainWalk(C05WalkMapper):
    pass


class OptNilNone(C05CachedCombineMapper):
    def combine(self, values):
        for _ in values:
            pass
        return None

    def map_variable(self, expr):
        return None

    def map_constant(self, expr):
        return None

    def get_cache_key(self, expr):
        return (type(expr), expr)


class PlainNilNone(C05CombineMapper):
    def combine(self, values):
        for _ in values:
            pass
        return None

    def map_variable(self, expr):
        return None

    def map_constant(self, expr):
        return None


class OptNilZero(C05CachedCombineMapper):
    def combine(self, values):
        for _ in values:
            pass
        return 0

    def map_variable(self, expr):
        return 0

    def map_constant(self, expr):
        return 0

    def get_cache_key(self, expr):
        return (type(expr), expr)


class PlainNilZero(C05CombineMapper):
    def combine(self, values):
        for _ in values:
            pass
        return 0

    def map_variable(self, expr):
        return 0

    def map_constant(self, expr):
        return 0


class OptNilFalse(C05CachedCombineMapper):
    def combine(self, values):
        for _ in values:
            pass
        return False

    def map_variable(self, expr):
        return False

    def map_constant(self, expr):
        return False

    def get_cache_key(self, expr):
        return (type(expr), expr)


class PlainNilFalse(C05CombineMapper):
    def combine(self, values):
        for _ in values:
            pass
        return False

    def map_variable(self, expr):
        return False

    def map_constant(self, expr):
        return False


class OptNilEmpty(C05CachedCombineMapper):
    def combine(self, values):
        for _ in values:
            pass
        return ()

    def map_variable(self, expr):
        return ()

    def map_constant(self, expr):
        return ()

    def get_cache_key(self, expr):
        return (type(expr), expr)


class PlainNilEmpty(C05CombineMapper):
    def combine(self, values):
        for _ in values:
            pass
        return ()

    def map_variable(self, expr):
        return ()

    def map_constant(self, expr):
        return ()


COUNTERPART = {
    "OptWalkKey": "PlainWalk",
    "OptNilNone": "PlainNilNone",
    "OptNilZero": "PlainNilZero",
    "OptNilFalse": "PlainNilFalse",
    "OptNilEmpty": "PlainNilEmpty",
    "OptOvIdent": "PlainOvIdent",
    "OptOvCollector": "PlainOvCollector",
    "OptOvCount": "PlainOvCount",
    "OptRenamerArgs": "PlainRenamerArgs",
    "OptRenamerStock": "PlainRenamer",
    "OptRenamerKey": "PlainRenamer",
    "OptCollectorArgs": "PlainCollectorArgs",
    "OptCountKey": "PlainCount",
}
