"""C18 - multivectors obey the axioms of geometric (Clifford) algebra.

Pipeline: C18_Gen / C18_GenRand (TLC: enumerate blade pairs / triples / unary
inputs / multi-term homogeneous multivectors / small and random multivectors /
construction recipes with numeric and expression-tree coefficients / histories on one
object (operands observed after every step, then ==/hash/bool/get_pure_grade/inv of
the used objects against never used twins) / space constructions (kind spc: Space(n),
Space(names), get_euclidean_space, MultiVector(numpy vector), explicit metric as object /
integer / Fraction array, operands with coefficients a float cannot hold: exact values AND
exact kinds of number of every result) / random operator programs, and model check the M-layer axioms and "bitmap algorithm refines the
meaning") -> drive (real Space / MultiVector objects) -> C18_Judge (TLC judges
every recorded result against the index-list blade algebra of C18_Clifford).

The driver only builds objects, calls the public API and serialises what it sees.
Index words are 1-based in the specification, basis vector i is bit i-1 / numpy
index i-1 in pymbolic; coefficients cross the boundary as [num, den, kind]."""
from __future__ import annotations

import json
import math
import time
import warnings
from fractions import Fraction

from harness import kit

LIMIT = 30000
UNREP = [0, 0, 9]
# beyond the bounds of the exact-arithmetic model (num = den = 0), the kind of number kept:
BIG_FRAC = [0, 0, 6]     # a Fraction
BIG_INT = [0, 0, 7]      # an integer
BIG_FLOAT = [0, 0, 8]    # a finite float whose exact value (lowest terms) is beyond the bounds
OPS = ["geo", "out", "inn", "scl", "lc", "rc"]

# ------------------------------------------------------------------ driver side
_SPACES = {}


def _space(n, g, fresh=False):
    import numpy as np
    from pymbolic.geometric_algebra import Space
    key = (n, tuple(g))
    if fresh or key not in _SPACES:
        mm = np.zeros((n, n), dtype=object)
        for i, gi in enumerate(g):
            mm[i, i] = int(gi)
        sp = Space(n, mm)
        if fresh:
            return sp
        _SPACES[key] = sp
    return _SPACES[key]


def _coef(c):
    n, d, k = c
    if k == 0:
        return int(n)
    if k == 1:
        return Fraction(n, d)
    if k == 2:
        return n / d
    raise ValueError(f"coefficient kind {k}")


def _ser_coef(x):
    import numbers

    import numpy as np
    if isinstance(x, (bool, np.bool_)):
        return [int(bool(x)), 1, 3]
    if isinstance(x, numbers.Integral):
        x = int(x)
        return [x, 1, 0] if abs(x) <= LIMIT else BIG_INT
    if isinstance(x, Fraction):
        if abs(x.numerator) > LIMIT or x.denominator > LIMIT:
            return BIG_FRAC
        return [x.numerator, x.denominator, 1]
    if isinstance(x, (float, np.floating)):
        x = float(x)
        if not math.isfinite(x):
            return UNREP
        n, d = x.as_integer_ratio()
        if abs(n) > LIMIT or d > LIMIT:
            return BIG_FLOAT
        return [n, d, 2]
    return UNREP


def _bits_to_word(bits):
    bits = int(bits)
    w, i = [], 1
    while bits:
        if bits & 1:
            w.append(i)
        bits >>= 1
        i += 1
    return w


def _word_to_bits(w):
    b = 0
    for i in w:
        b |= 1 << (i - 1)
    return b


def _val(t, mv=None, sc=None, err=None):
    """A recorded value; only the field its tag announces is present (the judge
    reads r.mv only when r.t = "mv", etc.)."""
    v = {"t": t}
    if mv is not None:
        v["mv"] = list(mv)
    if sc is not None:
        v["sc"] = list(sc)
    if err is not None:
        v["err"] = err
    return v


def _ser(x):
    """What an API call returned, as a recorded value."""
    import numbers

    import numpy as np
    from pymbolic.geometric_algebra import MultiVector
    if isinstance(x, MultiVector):
        return _val("mv", mv=[[_bits_to_word(b), _ser_coef(c)]
                              for b, c in sorted(x.data.items(), key=lambda kv: int(kv[0]))])
    if isinstance(x, (numbers.Number, np.number, np.bool_)):
        return _val("sc", sc=_ser_coef(x))
    return _val("other", err=type(x).__name__)


def _call(thunk):
    try:
        with warnings.catch_warnings():
            warnings.simplefilter("ignore")
            return _ser(thunk())
    except RecursionError:
        raise
    except Exception as exc:  # noqa: BLE001 - the exception class *is* the observation
        return _val("err", err=type(exc).__name__)


def _raw(thunk):
    """Like _call but hands back the live object too (None when it raised)."""
    try:
        with warnings.catch_warnings():
            warnings.simplefilter("ignore")
            x = thunk()
        return x, _ser(x)
    except RecursionError:
        raise
    except Exception as exc:  # noqa: BLE001
        return None, _val("err", err=type(exc).__name__)


def _mv_t(terms, sp):
    """MultiVector from a dict with index-tuple keys (the documented form)."""
    from pymbolic.geometric_algebra import MultiVector
    return MultiVector({tuple(i - 1 for i in w): _coef(c) for w, c in terms}, sp)


def _mv_b(terms, sp):
    """MultiVector from a dict with bitmap keys."""
    from pymbolic.geometric_algebra import MultiVector
    return MultiVector({_word_to_bits(w): _coef(c) for w, c in terms}, sp)


def _apply(op, a, b):
    if op == "geo":
        return a * b
    if op == "out":
        return a ^ b
    if op == "inn":
        return a | b
    if op == "lc":
        return a << b
    if op == "rc":
        return a >> b
    if op == "scl":
        return a.scalar_product(b)
    raise ValueError(op)


def _truth(x):
    try:
        return int(bool(x))
    except Exception:  # noqa: BLE001
        return -2


def _drive_pair(c):
    sp = _space(c["n"], c["g"])
    a = _mv_t([[c["a"], c["ca"]]], sp)
    b = _mv_t([[c["b"], c["cb"]]], sp)
    o = {}
    tb = []
    for op in OPS:
        x, o[op] = _raw(lambda op=op: _apply(op, a, b))
        if op != "scl":
            tb.append(_truth(x) if x is not None else -2)
    o["tb"] = tb
    if c["lite"]:
        return o, 6
    o["ba"] = _call(lambda: b * a)
    o["rev_ab"] = _call(lambda: (a * b).rev())
    o["revb_reva"] = _call(lambda: b.rev() * a.rev())
    o["inv_ab"] = _call(lambda: (a * b).invol())
    o["inva_invb"] = _call(lambda: a.invol() * b.invol())
    o["x"] = _call(lambda: a.x(b))
    # a bare Python scalar as the left / right operand (reflected operators, casts)
    mvops = [op for op in OPS if op != "scl"]
    ra, rb = _coef(c["ca"]), _coef(c["cb"])
    o["rl"] = [_call(lambda op=op: _apply(op, ra, b)) for op in mvops] if not c["a"] else []
    o["rr"] = [_call(lambda op=op: _apply(op, a, rb)) for op in mvops] if not c["b"] else []
    return o, 12 + len(o["rl"]) + len(o["rr"])


def _drive_triple(c):
    sp = _space(c["n"], c["g"])
    a = _mv_t([[c["a"], c["cf"][0]]], sp)
    b = _mv_t([[c["b"], c["cf"][1]]], sp)
    cc = _mv_t([[c["c"], c["cf"][2]]], sp)
    o = {
        "g1": _call(lambda: (a * b) * cc), "g2": _call(lambda: a * (b * cc)),
        "o1": _call(lambda: (a ^ b) ^ cc), "o2": _call(lambda: a ^ (b ^ cc)),
        "l1": _call(lambda: (a ^ b) << cc), "l2": _call(lambda: a << (b << cc)),
        "r1": _call(lambda: a >> (b ^ cc)), "r2": _call(lambda: (a >> b) >> cc),
    }
    return o, 16


def _drive_unary(c):
    sp = _space(c["n"], c["g"])
    a = _mv_t(c["a"], sp)
    inv, sinv = _raw(lambda: a.inv())
    o = {
        "a": _ser(a),
        "rev": _call(lambda: a.rev()), "invol": _call(lambda: a.invol()),
        "rr": _call(lambda: a.rev().rev()), "ii": _call(lambda: a.invol().invol()),
        "I": _call(lambda: a.I), "dual": _call(lambda: a.dual()),
        "lcd": _call(lambda: a << a.I.rev()), "geod": _call(lambda: a * a.I.rev()),
        "nsq": _call(lambda: a.norm_squared()),
        "inv": sinv,
        "inv_a": _call(lambda: inv * a) if inv is not None else sinv,
        "a_inv": _call(lambda: a * inv) if inv is not None else sinv,
        "div": _call(lambda: a / a), "rdiv": _call(lambda: (1 / a) * a),
        "p0": _call(lambda: a ** 0), "p2": _call(lambda: a ** 2), "p3": _call(lambda: a ** 3),
    }
    return o, 18


def _lin(lam, x, mu, y):
    return lam * x + mu * y


def _drive_bilin(c):
    sp = _space(c["n"], c["g"])
    a, b, cc = _mv_t(c["a"], sp), _mv_t(c["b"], sp), _mv_t(c["c"], sp)
    lam, mu = _coef(c["l"]), _coef(c["m"])
    lin, slin = _raw(lambda: _lin(lam, a, mu, b))
    res = []
    for op in OPS:
        res.append([
            _call(lambda op=op: _apply(op, lin, cc)),
            _call(lambda op=op: _lin(lam, _apply(op, a, cc), mu, _apply(op, b, cc))),
            _call(lambda op=op: _apply(op, cc, lin)),
            _call(lambda op=op: _lin(lam, _apply(op, cc, a), mu, _apply(op, cc, b))),
        ])
    return {"lin": slin, "r": res}, 36


def _build_recipe(rc, sp):
    import numpy as np
    from pymbolic.geometric_algebra import MultiVector
    via, ts = rc["via"], rc["ts"]
    if via == "t":
        return _mv_t(ts, sp)
    if via == "b":
        return _mv_b(ts, sp)
    if via == "s":
        return MultiVector(_coef(ts[0][1]), sp)
    if via == "r":
        return _coef(ts[0][1])
    if via == "v":
        arr = np.empty(len(ts), dtype=object)
        for w, cf in ts:
            arr[w[0] - 1] = _coef(cf)
        return MultiVector(arr, sp)
    if via == "d":
        x, y = _mv_t(ts, sp), _mv_t(rc["ts2"], sp)
        return (x + y) - y
    if via == "z":
        return _mv_t(ts, sp) * 0
    raise ValueError(via)


def _drive_eq(c):
    from pymbolic.geometric_algebra import MultiVector
    sp = _space(c["n"], c["g"])
    spb = _space(c["n"], c["g"], fresh=True) if c["xs"] else sp
    with warnings.catch_warnings():
        warnings.simplefilter("ignore")
        a = _build_recipe(c["ra"], sp)
        b = _build_recipe(c["rb"], spb)

    def b01(thunk):
        try:
            r = thunk()
        except Exception:  # noqa: BLE001
            return -2
        if r is True or r is False:
            return int(r)
        try:
            import numpy as np
            if isinstance(r, np.bool_):
                return int(bool(r))
        except Exception:  # noqa: BLE001
            pass
        return -3
    both = isinstance(a, MultiVector) and isinstance(b, MultiVector)
    o = {
        "da": _ser(a), "db": _ser(b),
        "eq": b01(lambda: a == b), "eqr": b01(lambda: b == a), "ne": b01(lambda: a != b),
        "he": b01(lambda: hash(a) == hash(b)) if both else -1,
        "ba": b01(lambda: bool(a)) if isinstance(a, MultiVector) else -1,
        "bb": b01(lambda: bool(b)) if isinstance(b, MultiVector) else -1,
    }
    return o, 6


def _drive_prog(c):
    sp = _space(c["n"], c["g"])
    regs = [_mv_t(ts, sp) for ts in c["regs"]]
    vals = [_ser(r) for r in regs]
    for ins in c["ins"]:
        op = ins["op"]
        x, y = regs[ins["i"] - 1], regs[ins["j"] - 1]
        if x is None or (y is None and op in OPS + ["add", "sub"]):
            regs.append(None)
            vals.append(_val("err", err="OperandUnavailable"))
            continue
        if op in OPS:
            th = lambda: _apply(op, x, y)  # noqa: E731
        elif op == "add":
            th = lambda: x + y  # noqa: E731
        elif op == "sub":
            th = lambda: x - y  # noqa: E731
        elif op == "rev":
            th = lambda: x.rev()  # noqa: E731
        elif op == "invol":
            th = lambda: x.invol()  # noqa: E731
        elif op == "neg":
            th = lambda: -x  # noqa: E731
        elif op == "dual":
            th = lambda: x.dual()  # noqa: E731
        elif op == "smul":
            q = _coef(ins["q"])
            th = lambda: q * x  # noqa: E731
        elif op == "radd":
            q = _coef(ins["q"])
            th = lambda: q + x  # noqa: E731
        elif op == "rsub":
            q = _coef(ins["q"])
            th = lambda: q - x  # noqa: E731
        else:
            raise ValueError(op)
        r, s = _raw(th)
        regs.append(r)
        vals.append(s)
    return {"v": vals}, len(c["ins"])


def _sym_mv(ts, sp):
    from pymbolic import var
    from pymbolic.geometric_algebra import MultiVector
    x, y = var("x"), var("y")
    data = {}
    for w, (cx, cy, c0) in ts:
        coef = c0
        if cy:
            coef = cy * y + coef if coef else cy * y
        if cx:
            coef = cx * x + coef if (cy or c0) else cx * x
        data[tuple(i - 1 for i in w)] = coef
    return MultiVector(data, sp)


def _eval_at(res, env):
    """Evaluate the coefficients of a symbolic result at one point (pymbolic's own
    evaluator; exact for Fractions)."""
    from pymbolic.geometric_algebra import MultiVector
    from pymbolic.mapper.evaluator import evaluate
    if isinstance(res, MultiVector):
        return MultiVector({b: evaluate(cf, env) for b, cf in res.data.items()}, res.space)
    return evaluate(res, env)


def _drive_sym(c):
    sp = _space(c["n"], c["g"])
    a, b = _sym_mv(c["a"], sp), _sym_mv(c["b"], sp)
    raw = {op: _raw(lambda op=op: _apply(op, a, b))[0] for op in OPS}
    raw["rev"] = _raw(lambda: a.rev())[0]
    raw["dual"] = _raw(lambda: a.dual())[0]
    raw["nsq"] = _raw(lambda: a.norm_squared())[0]
    pts = []
    for px, py in c["pts"]:
        env = {"x": _coef(px), "y": _coef(py)}
        pts.append({k: (_call(lambda v=v: _eval_at(v, env)) if v is not None
                        else _val("err", err="SymbolicOperationRaised"))
                    for k, v in raw.items()})
    return {"p": pts}, 9


def _tree(t):
    """A coefficient from its expression tree, built with pymbolic's constructors."""
    from pymbolic.primitives import Product, Sum, Variable
    k = t["k"]
    if k == "num":
        return _coef(t["q"])
    if k == "var":
        return Variable(t["nm"])
    if k == "sum":
        return Sum(tuple(_tree(ch) for ch in t["a"]))
    if k == "prod":
        return Product(tuple(_tree(ch) for ch in t["a"]))
    raise ValueError(k)


def _ser_tree(e):
    """A stored coefficient object, node by node."""
    from pymbolic.primitives import Product, Sum, Variable
    if isinstance(e, Variable):
        return {"k": "var", "q": [0, 1, 0], "nm": e.name, "a": []}
    if isinstance(e, (Sum, Product)):
        return {"k": "sum" if isinstance(e, Sum) else "prod", "q": [0, 1, 0], "nm": "",
                "a": [_ser_tree(ch) for ch in e.children]}
    q = _ser_coef(e)
    if q[1] == 0:
        return {"k": "other", "q": [0, 1, 0], "nm": type(e).__name__, "a": []}
    return {"k": "num", "q": q, "nm": "", "a": []}


def _build_tree_recipe(rc, sp):
    from pymbolic.geometric_algebra import MultiVector
    via, ts = rc["via"], rc["ts"]
    if via == "t":
        return MultiVector({tuple(i - 1 for i in w): _tree(t) for w, t in ts}, sp)
    if via == "b":
        return MultiVector({_word_to_bits(w): _tree(t) for w, t in ts}, sp)
    if via == "s":
        return MultiVector(_tree(ts[0][1]), sp)
    raise ValueError(via)


def _b01(thunk):
    try:
        r = thunk()
    except Exception:  # noqa: BLE001
        return -2
    if r is True or r is False:
        return int(r)
    try:
        import numpy as np
        if isinstance(r, np.bool_):
            return int(bool(r))
    except Exception:  # noqa: BLE001
        pass
    return -3


def _drive_symeq(c):
    """Two recipes with expression-tree coefficients, each built separately (also
    when both recipes are the same: a twin, never the same object)."""
    sp = _space(c["n"], c["g"])
    a = _build_tree_recipe(c["ra"], sp)
    b = _build_tree_recipe(c["rb"], sp)

    def ser(m):
        return {"t": "tmv", "mv": [[_bits_to_word(bits), _ser_tree(cf)]
                                   for bits, cf in sorted(m.data.items(), key=lambda kv: int(kv[0]))]}
    o = {
        "da": ser(a), "db": ser(b),
        "eq": _b01(lambda: a == b), "eqr": _b01(lambda: b == a),
        "ne": _b01(lambda: a != b), "ner": _b01(lambda: b != a),
        "eqa": _b01(lambda: a == a), "nea": _b01(lambda: a != a),  # noqa: PLR0124
        "eqb": _b01(lambda: b == b), "neb": _b01(lambda: b != b),  # noqa: PLR0124
        "he": _b01(lambda: hash(a) == hash(b)),
        "ba": _b01(lambda: bool(a)), "bb": _b01(lambda: bool(b)),
    }
    return o, 13


def _hist_step(st, a, b, q):
    """One step of a history: the live objects a, b (and the bare scalar q) are operands."""
    if st == "add":
        return a + b
    if st == "radd":
        return b + a
    if st == "sub":
        return a - b
    if st == "rsub":
        return b - a
    if st == "sadd":
        return q + a
    if st == "adds":
        return a + q
    if st == "ssub":
        return q - a
    if st in OPS:
        return _apply(st, a, b)
    if st == "x":
        return a.x(b)
    if st == "neg":
        return -a
    if st == "rev":
        return a.rev()
    if st == "invol":
        return a.invol()
    if st == "dual":
        return a.dual()
    if st == "eq":
        return a == b
    if st == "hash":
        hash(a)
        hash(b)
        return True
    if st == "bool":
        return bool(a)
    raise ValueError(st)


def _drive_hist(c):
    """A history on ONE object: a and b are built once, used as operands of every step
    (their stored data is recorded after each step), and are then asked ==, !=, hash,
    bool, get_pure_grade, inv() against twins built separately and never used."""
    sp = _space(c["n"], c["g"])
    a, b = _mv_t(c["a"], sp), _mv_t(c["b"], sp)
    twins = [_mv_t(c["a"], sp), _mv_t(c["b"], sp)]
    q = _coef(c["q"])
    o = {"s0": [_ser(a), _ser(b)], "st": []}
    for st in c["steps"]:
        r = _call(lambda st=st: _hist_step(st, a, b, q))
        o["st"].append({"r": r, "a": _ser(a), "b": _ser(b)})

    def grade(m):
        try:
            pg = m.get_pure_grade()
        except Exception:  # noqa: BLE001
            return -2
        return -1 if pg is None else int(pg)

    def after(m, tw):
        inv, sinv = _raw(lambda: m.inv())
        return {
            "eq": _b01(lambda: m == tw), "eqr": _b01(lambda: tw == m),
            "ne": _b01(lambda: m != tw), "ner": _b01(lambda: tw != m),
            "he": _b01(lambda: hash(m) == hash(tw)),
            "bo": _b01(lambda: bool(m)), "pg": grade(m),
            "inv": sinv,
            "inv_m": _call(lambda: inv * m) if inv is not None else sinv,
            "m_inv": _call(lambda: m * inv) if inv is not None else sinv,
            "d": _ser(m),
        }
    o["oa"] = after(a, twins[0])
    o["ob"] = after(b, twins[1])
    return o, len(c["steps"]) + 20


def _space_mode(sm, n, g):
    """A space constructed the way the case says (None: no space is passed at all)."""
    import numpy as np
    from pymbolic.geometric_algebra import Space, get_euclidean_space
    if sm == "default":
        return Space(n)
    if sm == "names":
        return Space([f"b{i}" for i in range(n)])
    if sm == "euclid":
        return get_euclidean_space(n)
    if sm == "nd":
        return None
    if sm == "int":
        return Space(n, np.diag(np.array([int(x) for x in g], dtype=np.int64)))
    if sm in ("obj", "frac", "monly"):
        mm = np.zeros((n, n), dtype=object)
        for i, gi in enumerate(g):
            mm[i, i] = Fraction(int(gi)) if sm == "frac" else int(gi)
        return Space(None, mm) if sm == "monly" else Space(n, mm)
    raise ValueError(sm)


def _mv_mode(ts, sp, n):
    """Operand of a spc case: index-tuple dict over the given space, or (no space:
    mode nd) a numpy object vector handed to MultiVector alone."""
    import numpy as np
    from pymbolic.geometric_algebra import MultiVector
    if sp is not None:
        return _mv_t(ts, sp)
    arr = np.zeros(n, dtype=object)
    for w, cf in ts:
        arr[w[0] - 1] = _coef(cf)
    return MultiVector(arr)


def _drive_spc(c):
    """The way the space is constructed is an input; everything recorded keeps the
    kind of number of every coefficient."""
    n = c["n"]
    sp = _space_mode(c["sm"], n, c["g"])
    a, b = _mv_mode(c["a"], sp, n), _mv_mode(c["b"], sp, n)
    spa = a.space
    mm = spa.metric_matrix
    dims = int(spa.dimensions)
    offd = 1
    for i in range(dims):
        for j in range(dims):
            if i != j and mm[i, j] != 0:
                offd = 0
    inv, sinv = _raw(lambda: a.inv())
    o = {
        "sp": {"dims": dims, "same": int(b.space is spa), "offd": offd,
               "gm": [_ser_coef(mm[i, i]) for i in range(dims)]},
        "a": _ser(a), "b": _ser(b),
        "p": {op: _call(lambda op=op: _apply(op, a, b)) for op in OPS},
        "q": {op: _call(lambda op=op: _apply(op, b, a)) for op in OPS},
        "nsa": _call(lambda: a.norm_squared()), "nsb": _call(lambda: b.norm_squared()),
        "dual": _call(lambda: a.dual()), "I": _call(lambda: a.I),
        "sq": _call(lambda: a ** 2),
        "inv": sinv,
        "inv_a": _call(lambda: inv * a) if inv is not None else sinv,
        "a_inv": _call(lambda: a * inv) if inv is not None else sinv,
    }
    return o, 22


_DRIVERS = {"spc": _drive_spc, "hist": _drive_hist, "symeq": _drive_symeq, "sym": _drive_sym, "pair": _drive_pair, "triple": _drive_triple, "unary": _drive_unary,
            "bilin": _drive_bilin, "eq": _drive_eq, "prog": _drive_prog}


def drive_case(case, extra):
    c = case["c"]
    with warnings.catch_warnings():
        warnings.simplefilter("ignore")
        o, ncalls = _DRIVERS[c["k"]](c)
    return {"id": case["id"], "c": c, "o": o, "calls": ncalls}


# ------------------------------------------------------------------ check side
def _terms_grades(ts):
    return sorted({len(w) for w, _ in ts})


def _tree_kinds(ts):
    """Node kinds that occur in the coefficient trees of a term list."""
    kinds = set()

    def walk(t):
        kinds.add(t["k"])
        for ch in t["a"]:
            walk(ch)
    for _, t in ts:
        walk(t)
    return kinds


def signature(case, verdict, fail):
    """Attribution pattern of one failing clause: the clause TLC named plus the
    coarsest structural feature of the input at the granularity of the property's
    quantifier (grades of the blades involved).  Grouping only."""
    c = case
    k = c["k"]
    sig = {"kind": k, "clause": fail["c"], "op": fail["op"]}
    if k == "pair":
        sig["grades"] = [len(c["a"]), len(c["b"])]
    elif k == "triple":
        sig["grades"] = [len(c["a"]), len(c["b"]), len(c["c"])]
    elif k == "unary":
        sig["grades"] = _terms_grades(c["a"])
    elif k == "symeq":
        sig["coefs"] = sorted(_tree_kinds(c["ra"]["ts"]) | _tree_kinds(c["rb"]["ts"]))
    elif k == "hist":
        sig["steps"] = list(c["steps"])
    elif k == "spc":
        sig["sm"] = c["sm"]
    elif k == "eq":
        sig["why"] = fail.get("w", "none")
        if sig["why"] == "none":
            sig["via"] = sorted({c["ra"]["via"], c["rb"]["via"]})
    return sig


def _judge(recs, wd, out, tag):
    """Shard per kind, judge with TLC, classify.  Returns number of failing records."""
    bykind = {}
    for r in recs:
        bykind.setdefault(r["c"]["k"], []).append(r)
    shards = []
    for k, rs in sorted(bykind.items()):
        target = {"bilin": 1200, "prog": 3000, "unary": 4500, "eq": 8000, "sym": 2000, "symeq": 4000, "hist": 4000, "spc": 3500}.get(k, 25000)
        # balanced shards, in multiples of the 4 JVMs that judge concurrently
        nsh = -(-len(rs) // target)
        if nsh > 2:
            nsh = -(-nsh // 4) * 4
        size = -(-len(rs) // nsh)
        shards += kit.write_shards(rs, wd / "trace", f"c18_{tag}_{k}", size)
    verdicts, st, tr = kit.judge_shards("C18_Judge", "C18_Judge", shards)
    out.states += st
    out.transitions += tr
    loaded = sum(v["n"] for v in verdicts if "summary" in v)
    if loaded != len(recs):
        raise kit.MachineryError(f"C18 judge loaded {loaded} records, {len(recs)} were recorded")
    out.traces += len(recs)
    byid = {r["id"]: r for r in recs}
    nfail = 0
    for v in verdicts:
        if "summary" in v:
            continue
        if v["v"] == "SKIP":
            out.skipped += 1
            continue
        rec = byid[v["id"]]
        nfail += 1
        for f in v["fails"]:
            out.fail(signature(rec["c"], v, f),
                     {"case": rec["c"], "recorded": rec["o"], "verdict": v})
    return nfail


def _nontrivial(c):
    k = c["k"]
    if k == "pair":
        return len(c["a"]) + len(c["b"]) >= 2
    if k == "triple":
        return min(len(c["a"]), len(c["b"]), len(c["c"])) >= 1
    if k == "unary":
        return any(len(w) >= 1 for w, _ in c["a"])
    return True


BUGS = ["crs", "metric", "inner", "inv", "eq", "add", "eye", "lc", "rev", "prune"]
QUICK_BUGS = BUGS[:7]
# thorough tier: the exhaustive space is generated in slices (kind, number of slices)
THOROUGH_SLICES = [("pair", 12), ("triple", 6), ("unary", 2), ("homog", 2), ("bilin", 1), ("eq", 1),
                   ("sym", 1), ("symeq", 1), ("hist", 1), ("spc", 1)]


def _cases_of(res):
    return [p for p in res.printed() if isinstance(p, dict) and "k" in p]


def _gen(tier, env=None):
    r = kit.run_tlc("C18_Gen", f"C18_Gen_{tier}", env=env)
    kit.require_clean(r, "C18 model check (Clifford axioms on the M-layer, "
                         "bitmap A-layer refines it)")
    return r


def _sim(tier, seed, i, nsim):
    # TLC's simulator replicates one seed on all its workers, so several
    # single-worker JVMs with seeds derived from VERIF_SEED are used
    r = kit.run_tlc("C18_GenRand", f"C18_GenRand_{tier}", workers=1, heap="2g",
                    simulate=f"num={nsim}", depth=70, seed=seed * 64 + i)
    if r.rc != 0 or "Error:" in r.out:
        tail = "\n".join(r.out.splitlines()[-30:])
        raise kit.MachineryError(
            f"C18 random model check failed (seed {seed * 64 + i}):\n{tail}")
    return r


def _bug(b):
    # the model check must be able to fail: a one-line deviation of the A-layer
    # (Bug switch of C18_Bitmap) must make TLC report ModelHolds violated
    r = kit.run_tlc("C18_Gen", f"C18_Gen_bug_{b}", workers=2, heap="2g")
    if "ModelHolds" not in r.invariant_violated:
        tail = "\n".join(r.out.splitlines()[-15:])
        raise kit.MachineryError(
            f"negative control Bug={b} was not refuted by the model check:\n{tail}")
    return b


class _Acc:
    def __init__(self):
        self.next_id = 0
        self.kinds = {}
        self.picks = {}
        self.nfail = 0


def _process(cases, wd, out, acc, tag):
    """DRIVE + VALIDATE + CLASSIFY one batch of generated cases."""
    if not cases:
        return
    t0 = time.time()
    cs = [{"id": acc.next_id + i, "c": c} for i, c in enumerate(cases)]
    acc.next_id += len(cs)
    recs = kit.drive("harness.c18", "drive_case", cs, None, chunk=500)
    out.evaluations += sum(r.pop("calls") for r in recs)
    t1 = time.time()
    acc.nfail += _judge(recs, wd, out, tag)
    for r in recs:
        c = r["c"]
        acc.kinds[c["k"]] = acc.kinds.get(c["k"], 0) + 1
        out.note_case(c, nontrivial=_nontrivial(c))
        acc.picks.setdefault(c["k"], r)
        if c["k"] == "pair" and acc.picks["pair"]["c"]["n"] < 3 and c["n"] >= 3 \
                and len(c["a"]) >= 2 and len(c["b"]) >= 2 and set(c["a"]) & set(c["b"]):
            acc.picks["pair"] = r
    kit.log(f"C18[{tag}]: {len(recs)} cases driven ({t1 - t0:.1f}s) and judged "
            f"({time.time() - t1:.1f}s)")
    for pth in (wd / "trace").glob(f"c18_{tag}_*.ndjson"):
        pth.unlink()


def run(tier, seed, out):
    import concurrent.futures as cf
    wd = kit.fresh_workdir("C18")
    acc = _Acc()
    t0 = time.time()
    if tier == "quick":
        # stage 1 (three groups of TLC runs, overlapped), then one batch
        with cf.ThreadPoolExecutor(max_workers=8) as ex:
            fgen = ex.submit(_gen, tier)
            fsim = [ex.submit(_sim, tier, seed, i, 400) for i in range(4)]
            fbug = [ex.submit(_bug, b) for b in QUICK_BUGS]
            g = fgen.result()
            sims = [f.result() for f in fsim]
            out.extra["negative_controls_refuted_by_tlc"] = [f.result() for f in fbug]
        out.add_tlc(g)
        cases = _cases_of(g)
        nenum = len(cases)
        for r in sims:
            out.add_tlc(r)
            cases += _cases_of(r)
        kit.log(f"C18: TLC enumerated {nenum} cases ({g.distinct} states), simulated "
                f"{len(cases) - nenum} random cases, refuted {len(QUICK_BUGS)} negative controls "
                f"({time.time() - t0:.1f}s)")
        if not nenum or len(cases) == nenum:
            raise kit.MachineryError("C18 generator printed no cases")
        _process(cases, wd, out, acc, "run")
    else:
        with cf.ThreadPoolExecutor(max_workers=6) as ex:
            fbug = [ex.submit(_bug, b) for b in BUGS]
            fsim = [ex.submit(_sim, tier, seed, i, 4000) for i in range(8)]
            for kind, ns in THOROUGH_SLICES:
                for k in range(ns):
                    g = _gen(tier, env={"C18_KIND": kind, "C18_SLICE": str(k),
                                        "C18_NSLICE": str(ns)})
                    out.add_tlc(g)
                    cases = _cases_of(g)
                    if not cases:
                        raise kit.MachineryError(f"C18 generator printed no {kind} cases")
                    kit.log(f"C18: TLC enumerated {len(cases)} {kind} cases, slice {k + 1}/{ns} "
                            f"({g.distinct} states, {g.wall:.1f}s)")
                    _process(cases, wd, out, acc, f"{kind}{k}")
                    del cases, g
            out.extra["negative_controls_refuted_by_tlc"] = [f.result() for f in fbug]
            for i, f in enumerate(fsim):
                r = f.result()
                out.add_tlc(r)
                cases = _cases_of(r)
                if not cases:
                    raise kit.MachineryError("C18 simulator printed no cases")
                _process(cases, wd, out, acc, f"rand{i}")
    kit.log(f"C18: judged {out.traces} records {acc.kinds}; failing records: {acc.nfail}")
    out.extra["cases_by_kind"] = acc.kinds
    out.samples = [{"case": acc.picks[k]["c"], "recorded": acc.picks[k]["o"]}
                   for k in ("pair", "unary", "prog") if k in acc.picks]
    out.rule = ("TLC enumerates (C18_Gen) every pair and triple of basis blades for every dimension "
                "0..4 (5 thorough) and diagonal metric over {1,-1,0,2} (triples in the top dimensions: "
                "a listed subset of metrics), every basis blade x 2-5 coefficients and a pool of multi-term "
                "multivectors and every 2-3-element set of basis blades of one grade (kind homog) for the unary "
                "operations, pool^3 x scalar pairs for bilinearity, pairs of construction recipes for "
                "==/hash/bool with numeric and with expression-tree coefficients (twins built separately), histories on one "
                "object (kind hist: a, b used as operands of 1-2 steps - sums with each other and with bare scalars, "
                "products, unary operations, comparisons - stored data observed after every step, then ==/!=/hash/bool/"
                "get_pure_grade/inv of the used objects against never used twins), space constructions (kind spc: the way "
                "the space is built - Space(n), Space(names), get_euclidean_space(n), MultiVector(numpy vector), explicit "
                "diagonal metric as object / int64 / Fraction array or without a basis - x pairs of basis blades and multi-term "
                "multivectors with coefficients such as 1/3, 1/7, -5/7, 2, -3: six products both ways, norm_squared, dual, "
                "square, inverse, the metric entries, each by exact value and by kind of number), and draws random multivectors / operator programs "
                "with -simulate (C18_GenRand, seeded); one case = one record judged by C18_Judge clause by "
                "clause; non-trivial = at least one operand of grade >= 1 (pairs: grades sum >= 2); distinct "
                "by canonical JSON digest of the case")
    out.exhaustive = True
    out.assumptions += [
        "the Clifford algebra is the one presented by e_i e_j = -e_j e_i, e_i e_i = g_i (C18_Clifford.ReduceDef); "
        "its consistency (associativity on all blade triples) is itself checked by TLC in stage 1",
        "coefficients are exact: int, Fraction, and floats that are small dyadic rationals; anything beyond "
        "|num|,den <= 30000 is skipped (counted in skipped_out_of_model)",
        "an answer of inv() is demanded for non-null multiples of basis blades and for vectors; every value "
        "inv() returns (on any input) must be a two-sided inverse; a refusal elsewhere is not judged",
        "== of multivectors whose symbolic coefficients differ as trees but agree at all three evaluation "
        "points (x+y / y+x) is not decided (skipped); its symmetry, negation and hash consistency are",
        "a bitmap-keyed data dict with an explicit zero coefficient is ill-formed input: its ==/hash/bool "
        "clauses are skipped",
        "exact operands (int, Fraction) over a space whose metric entries are exact give exact results: a float "
        "coefficient in a product / norm_squared / dual / power (and in inv() of an all-Fraction multivector) fails the "
        "clause exact-kind; a recorded float whose exact value is beyond the bounds of the model fails the value clause "
        "when the expected value is within them (kind spc only; int/int in inv() is Python's true division and is not judged)",
        "operands are values: an operation must leave the stored coefficient data of its operands denoting the same "
        "multivector and without new explicitly stored zeros (these are what ==, hash, bool, get_pure_grade, inv "
        "of the class read)",
    ]


def replay(path, out):
    data = json.loads(open(path).read())
    case = data["detail"]["case"]
    wd = kit.fresh_workdir("C18")
    recs = kit.drive("harness.c18", "drive_case", [{"id": 0, "c": case}], None)
    out.evaluations += recs[0].pop("calls")
    _judge(recs, wd, out, "replay")
    out.note_case(case)
    out.note_case({"replay": path})
    out.samples = [{"case": case, "recorded": recs[0]["o"]}]
    out.rule = "replay of one stored case"
