"""C09 - dependency, node-count and flop analyses are exact.

Pipeline (BUILDING.md):
  C09_Gen   (TLC: enumerate trees, check A-layer = M-layer + oracle laws + the
             restricted-environment lemma on the model, print the trees)
  negative controls: seeded transcription bugs MUST be refuted by TLC - as a start-up
            assumption of C09_Gen / C09_Inst in every run, as separate C09_Neg_* /
            C09_Inst_neg_* runs ending in "Invariant ... is violated" in the thorough tier
  drive     (real DependencyMapper / CachedDependencyMapper for all 72 flag settings,
             get_num_nodes, FlopCounterBase / FlopCounter / CSEAwareFlopCounter,
             evaluation under the restricted environment)
  C09_Judge (TLC judges every recorded result against the M-layer)
  C09_Inst  (TLC: state machine of ONE mapper instance used for a history of calls;
             model checked, histories generated, driven, trace-validated by C09_InstJudge)
Nothing in this file decides a verdict; it builds objects, calls functions,
serialises what it sees and groups TLC's failing verdicts into signatures."""
from __future__ import annotations

import concurrent.futures as cf
import json
import warnings

from harness import kit, ser

_ENVS = None
_CALLS = {"yes": True, "no": False, "args": "descend_args"}
_CL = {"none": None, "true": True, "false": False}
VARIANTS = {1: "uncached", 2: "cached", 3: "cached-second-call"}
NVAR = 3


def _envs(extra):
    global _ENVS
    if _ENVS is None:
        _ENVS = [{k: ser.json_to_val(v) for k, v in env.items()} for env in extra["envs"]]
    return _ENVS


def flag_kwargs(raw):
    return dict(include_subscripts=raw["is"], include_lookups=raw["il"],
                include_calls=_CALLS[raw["ic"]], include_cses=raw["ics"],
                composite_leaves=_CL[raw["cl"]])


# ---- leaf classes harness/ser.py has no shape for ------------------------------------
# spec side: [t |-> "Const", v |-> [k |-> "NaN" | "Wildcard" | "DotWildcard" | "StarWildcard" |
# "FunctionSymbol" (, name)]].  They cross ser.from_json / ser.to_json as placeholder
# variables and are plugged in / taken out by a generic walk over the dataclass fields.
EXOTIC = ("NaN", "Wildcard", "DotWildcard", "StarWildcard", "FunctionSymbol")
_PH = "\x00C09:"


def _has_exotic(j):
    if isinstance(j, dict):
        if j.get("t") == "Const" and j["v"].get("k") in EXOTIC:
            return True
        return any(_has_exotic(v) for v in j.values())
    if isinstance(j, list):
        return any(_has_exotic(v) for v in j)
    return False


def _enc(j):
    if isinstance(j, dict):
        if j.get("t") == "Const" and j["v"].get("k") in EXOTIC:
            return {"t": "Var", "name": _PH + j["v"]["k"] + ":" + j["v"].get("name", "")}
        return {k: _enc(v) for k, v in j.items()}
    if isinstance(j, list):
        return [_enc(v) for v in j]
    return j


def _dec(j):
    if isinstance(j, dict):
        if j.get("t") == "Var" and j["name"].startswith(_PH):
            _, k, name = j["name"].split(":", 2)
            v = {"k": k}
            if name:
                v["name"] = name
            return {"t": "Const", "v": v}
        return {k: _dec(v) for k, v in j.items()}
    if isinstance(j, list):
        return [_dec(v) for v in j]
    return j


def _walk(o, leaf):
    """Rebuild o (constructors only) with leaf(x) applied to every Expression leaf."""
    import dataclasses

    import pymbolic.primitives as prim
    from immutabledict import immutabledict
    r = leaf(o)
    if r is not None:
        return r
    if isinstance(o, prim.Expression):
        return type(o)(*[_walk(getattr(o, f.name), leaf) for f in dataclasses.fields(o)])
    if isinstance(o, tuple):
        return tuple(_walk(c, leaf) for c in o)
    if isinstance(o, list):
        return [_walk(c, leaf) for c in o]
    if isinstance(o, immutabledict):
        return immutabledict({k: _walk(v, leaf) for k, v in o.items()})
    return o


def _plug_leaf(o):
    import pymbolic.primitives as prim
    if isinstance(o, prim.Variable) and o.name.startswith(_PH):
        _, k, name = o.name.split(":", 2)
        return getattr(prim, k)(name) if name else getattr(prim, k)()
    return None


def _unplug_leaf(o):
    import pymbolic.primitives as prim
    if isinstance(o, (prim.NaN, prim.Wildcard, prim.DotWildcard, prim.StarWildcard,
                      prim.FunctionSymbol)):
        return prim.Variable(_PH + type(o).__name__ + ":" + getattr(o, "name", ""))
    return None


def from_json(j):
    if not _has_exotic(j):
        return ser.from_json(j)
    with warnings.catch_warnings():
        warnings.simplefilter("ignore")
        return _walk(ser.from_json(_enc(j)), _plug_leaf)


_EXOTIC_MODE = False       # set per case by drive_case: results may contain exotic leaves


def to_json(e):
    if not _EXOTIC_MODE:
        return ser.to_json(e)
    with warnings.catch_warnings():
        warnings.simplefilter("ignore")
        return _dec(ser.to_json(_walk(e, _unplug_leaf)))


def _sorted_trees(res):
    trees = [to_json(x) for x in res]
    trees.sort(key=lambda t: json.dumps(t, sort_keys=True))
    return trees


def record_set(thunk, table=None):
    """Run thunk() that should return a set of nodes -> (dedupe key, record).
    When the key is already in *table* the record is not serialised again."""
    try:
        with warnings.catch_warnings():
            warnings.simplefilter("ignore")
            res = thunk()
    except RecursionError:
        raise
    except Exception as exc:  # noqa: BLE001 - the exception class is the observation
        v = ser.exc_to_json(exc)
        return ("err", v["e"], v["a"]), {"r": "err", "v": v}
    if not isinstance(res, (set, frozenset)):
        return ("bad", repr(res)[:80]), {"r": "bad", "text": repr(res)[:80]}
    try:
        key = ("ok", frozenset(res))
        if table is not None and key in table:
            return key, None
    except TypeError:                # an unhashable element: no dedupe
        key = None
    try:
        return key, {"r": "ok", "s": _sorted_trees(res)}
    except ser.Unserialisable as exc:
        return ("bad", str(exc)[:80]), {"r": "bad", "text": str(exc)[:80]}


def record_count(thunk):
    try:
        with warnings.catch_warnings():
            warnings.simplefilter("ignore")
            res = thunk()
    except RecursionError:
        raise
    except Exception as exc:  # noqa: BLE001
        return {"r": "err", "v": ser.exc_to_json(exc)}
    if isinstance(res, bool) or not isinstance(res, int) or abs(res) > 10**6:
        return {"r": "bad", "text": repr(res)[:80]}
    return {"r": "ok", "n": res}


def drive_case(case, extra):
    from pymbolic.mapper.analysis import get_num_nodes
    from pymbolic.mapper.dependency import CachedDependencyMapper, DependencyMapper
    from pymbolic.mapper.evaluator import EvaluationMapper
    from pymbolic.mapper.flop_counter import (CSEAwareFlopCounter, FlopCounter,
                                              FlopCounterBase)
    import pymbolic.primitives as prim

    global _EXOTIC_MODE
    _EXOTIC_MODE = _has_exotic(case["e"])
    expr = from_json(case["e"])
    table, rs, ix = {}, [], []

    def put(thunk):
        key, rec = record_set(thunk, table)
        j = table.get(key) if key is not None else None
        if j is None:
            rs.append(rec)
            j = len(rs)
            if key is not None:
                table[key] = j
        ix.append(j)

    for raw in extra["flags"]:
        kw = flag_kwargs(raw)
        put(lambda: DependencyMapper(**kw)(expr))
        holder = {}

        def cached_first():
            holder["m"] = CachedDependencyMapper(**kw)
            return holder["m"](expr)

        put(cached_first)
        put(lambda: holder["m"](expr))

    nn = record_count(lambda: get_num_nodes(expr))
    fl = [record_count(lambda: FlopCounterBase()(expr)),
          record_count(lambda: FlopCounter()(expr)),
          record_count(lambda: CSEAwareFlopCounter()(expr))]

    ev = []
    for env in _envs(extra):
        try:
            with warnings.catch_warnings():
                warnings.simplefilter("ignore")
                deps0 = DependencyMapper(composite_leaves=False)(expr)
            names = sorted(d.name for d in deps0 if isinstance(d, prim.Variable))
        except RecursionError:
            raise
        except Exception:  # noqa: BLE001 - the refusal itself is recorded (and judged) above
            ev.append({"r": "nodeps"})
            continue
        renv = {k: env[k] for k in names if k in env}
        ev.append({"r": "ok", "names": names,
                   "v": ser.call_to_json(lambda: EvaluationMapper(renv)(expr))})
    return {"id": case["id"], "e": case["e"], "rs": rs, "ix": ix, "nn": nn, "fl": fl, "ev": ev}


# ---------------------------------------------------------------- classification
def kinds_in(e, acc=None):
    acc = set() if acc is None else acc
    if isinstance(e, dict):
        if "t" in e:
            acc.add(e["t"])
        for v in e.values():
            kinds_in(v, acc)
    elif isinstance(e, list):
        for v in e:
            kinds_in(v, acc)
    return acc


def _flagstr(fl):
    return "subs=%d,lookups=%d,calls=%s,cses=%d" % (fl["subs"], fl["look"], fl["calls"], fl["cses"])


def signatures(tree, fails):
    """Group TLC's failing clauses of one record into attribution signatures:
    clause + analysis + (for the dependency clause) the effective flag setting,
    the kind of the missing / surplus element, the kind of its parent node and the
    child position, and the mapper variant when the variants differ."""
    out = []
    has_list = "List" in kinds_in(tree)
    bykey = {}
    for f in fails:
        core = (f["an"], f["cl"], f["ek"], f["pk"], f["pos"],
                _flagstr(f["fl"]) if f["an"] == "deps" else "")
        bykey.setdefault(core, []).append(f)
    for core, fs in sorted(bykey.items()):
        an, cl, ek, pk, pos, flags = core
        variants = sorted({f["var"] for f in fs})
        if cl == "raised" and ek == "TypeError" and has_list and (
                (an == "deps" and set(variants) <= {2, 3}) or an == "nodes"
                or (an == "flops" and variants == [2])):
            sig = {"clause": "cached-analysis-rejects", "analysis": an, "contains": "List"}
        elif an == "deps":
            sig = {"clause": "deps-" + cl, "flags": flags, "elem": ek, "parent": pk, "pos": pos,
                   "variant": "all" if len(variants) == NVAR else
                   "+".join(VARIANTS[v] for v in variants)}
        elif an == "eval":
            sig = {"clause": cl, "analysis": an, "variable": pk}
        else:
            names = {("flops", 1): "FlopCounterBase", ("flops", 2): "FlopCounter",
                     ("cseflops", 3): "CSEAwareFlopCounter", ("nodes", 1): "get_num_nodes"}
            sig = {"clause": cl, "analysis": an, "root": tree["t"],
                   "mapper": "+".join(names.get((an, v), str(v)) for v in variants)}
            if cl == "raised":
                sig["exc"] = ek
        out.append((sig, fs))
    return out


def judge_and_classify(recs, wd, out, flags):
    shards = kit.write_shards(recs, wd / "trace", "c09", max(400, min(2500, len(recs) // 4 + 1)))
    verdicts, st, tr = kit.judge_shards("C09_Judge", "C09_Judge", shards)
    out.states += st
    out.transitions += tr
    out.traces += len(recs)
    byid = {r["id"]: r for r in recs}
    seen_ids = set()
    nfail = 0
    for v in verdicts:
        if v.get("v") == "SKIP":
            out.skipped += v.get("n", 1)
            continue
        rec = byid[v["id"]]
        seen_ids.add(v["id"])
        for sig, fs in signatures(rec["e"], v["fails"]):
            nfail += 1
            f0 = fs[0]
            detail = {"case": {"id": rec["id"], "e": rec["e"]}, "failing": fs[:6],
                      "n_failing_settings": len(fs)}
            if f0["an"] == "deps":
                detail["raw_flags"] = flags[f0["k"] - 1]
                detail["recorded"] = rec["rs"][rec["ix"][NVAR * (f0["k"] - 1) + f0["var"] - 1] - 1]
            elif f0["an"] == "nodes":
                detail["recorded"] = rec["nn"]
            elif f0["an"] in ("flops", "cseflops"):
                detail["recorded"] = rec["fl"]
            else:
                detail["recorded"] = rec["ev"]
            out.fail(sig, detail)
    return nfail


# ------------------------------------------------------------------- stage runners
def generate(tier, seed, out):
    gen = kit.run_tlc("C09_Gen", f"C09_Gen_{tier}")
    kit.require_clean(gen, "C09 model check (analyses transcriptions refine the meaning)")
    out.add_tlc(gen)
    printed = gen.printed()
    envs = [p["envs"] for p in printed if "envs" in p]
    flags = [p["flags"] for p in printed if "flags" in p]
    cases = [p for p in printed if "e" in p]
    neg = [p["negcontrols"] for p in printed if "negcontrols" in p]
    if len(envs) != 1 or len(flags) != 1 or len(flags[0]) != 72 or not cases:
        raise kit.MachineryError("C09 generator printed no environments / flags / cases")
    if neg != [len(NEG_BUGS)]:
        raise kit.MachineryError("C09 generator did not evaluate its negative controls")
    out.extra["negative_controls_refuted"] = neg[0]
    kit.log(f"C09: TLC generated {len(cases)} trees ({gen.distinct} states, {gen.wall:.1f}s); "
            "A-layer = M-layer, oracle laws and the restricted-environment lemma hold on the model; "
            f"{neg[0]} seeded transcription bugs refuted")
    nexh = len(cases)
    if tier == "thorough":
        # -simulate num is per worker; every state of a behaviour is a complete tree
        rnd = kit.run_tlc("C09_Gen", "C09_Gen_rand", simulate="num=60", depth=8, seed=seed,
                          workers=8)
        kit.require_clean(rnd, "C09 random trees (-simulate)")
        out.add_tlc(rnd)
        more = [p for p in rnd.printed() if "e" in p]
        kit.log(f"C09: -simulate seed={seed} produced {len(more)} random trees ({rnd.wall:.1f}s)")
        cases += more
    # distinct trees only (the random part repeats itself)
    uniq, seen = [], set()
    for c in cases:
        k = json.dumps(c["e"], sort_keys=True)
        if k not in seen:
            seen.add(k)
            uniq.append(c)
    for i, c in enumerate(uniq):
        c["id"] = i
    out.extra["trees_exhaustive"] = nexh
    out.extra["trees_random_distinct"] = max(0, len(uniq) - nexh)
    # anti-vacuity: every node kind of the property's quantifier must occur in the generated space
    kinds = set()
    for c in uniq:
        kinds_in(c["e"], kinds)
        if c["e"]["t"] == "Const" or _has_exotic(c["e"]):
            kinds |= _const_kinds(c["e"])
    missing = EXPECTED_KINDS - kinds
    if missing:
        raise kit.MachineryError(f"C09 coverage hole: node kinds never generated: {sorted(missing)}")
    out.extra["node_kinds_covered"] = sorted(kinds)
    return uniq, envs[0], flags[0]


EXPECTED_KINDS = {
    "Var", "Const", "Sum", "Product", "Quotient", "FloorDiv", "Remainder", "Power", "LShift",
    "RShift", "BitNot", "BitOr", "BitXor", "BitAnd", "LogNot", "LogOr", "LogAnd", "Cmp", "If",
    "Min", "Max", "Call", "CallKw", "Sub", "Look", "CSE", "Tup", "List", "Slice", "Subst", "Deriv",
    "NaN", "Wildcard", "DotWildcard", "StarWildcard", "FunctionSymbol"}


def _const_kinds(e, acc=None):
    acc = set() if acc is None else acc
    if isinstance(e, dict):
        if e.get("t") == "Const" and e["v"].get("k") in EXOTIC:
            acc.add(e["v"]["k"])
        for v in e.values():
            _const_kinds(v, acc)
    elif isinstance(e, list):
        for v in e:
            _const_kinds(v, acc)
    return acc


NEG_BUGS = ["kwdrop", "argsfn", "cseoff", "slicestep", "lookup", "ncall", "flopn", "cseper"]


def negative_controls(out):
    """Thorough tier / selftest: every seeded transcription bug, as its own TLC run, MUST end
    in 'Invariant NegRefines is violated' (the quick tier evaluates the same controls as a
    start-up assumption of C09_Gen, see NegControls in C09_Analyses.tla)."""
    def one(bug):
        r = kit.run_tlc("C09_Neg", f"C09_Neg_{bug}", workers=2, heap="1g", tag=f"C09_Neg.{bug}")
        return bug, r
    bad = []
    with cf.ThreadPoolExecutor(max_workers=3) as ex:
        for bug, r in ex.map(one, ["none"] + NEG_BUGS):
            out.add_tlc(r)
            if bug == "none":
                kit.require_clean(r, "C09_Neg with no seeded bug")
            elif "NegRefines" not in r.invariant_violated:
                bad.append(bug)
    if bad:
        raise kit.MachineryError(f"C09 negative controls not refuted by TLC: {bad}")
    out.extra["negative_control_runs_refuted"] = len(NEG_BUGS)
    kit.log(f"C09: {len(NEG_BUGS)} seeded transcription bugs refuted by TLC (separate runs)")


def selftest(out):
    from harness import c09inst
    negative_controls(out)
    c09inst.negative_controls(out)


def run(tier, seed, out):
    wd = kit.fresh_workdir("C09")
    cases, envs, flags = generate(tier, seed, out)
    if tier == "thorough":
        negative_controls(out)
    extra = {"envs": envs, "flags": flags}
    recs = kit.drive("harness.c09", "drive_case", cases, extra, chunk=60)
    per_case = len(flags) * NVAR + 4 + 2 * len(envs)
    out.evaluations += per_case * len(recs)
    nfail = judge_and_classify(recs, wd, out, flags)
    kit.log(f"C09: {len(recs)} records judged, {nfail} failing signature instances")

    from harness import c09inst
    c09inst.run_instances(tier, seed, out, wd, flags)

    for r in recs:
        out.note_case(r["e"], nontrivial=r["e"]["t"] not in ("Var", "Const"))
    pick = [recs[(len(recs) * k) // 7] for k in (2, 3, 5)]
    out.samples = [{"tree": r["e"],
                    "dependency_results_distinct": r["rs"][:4],
                    "result_index_per_flag_setting_x_variant": r["ix"][:12],
                    "num_nodes": r["nn"], "flops_base_cached_cseaware": r["fl"],
                    "restricted_eval": r["ev"]} for r in pick] + out.samples
    out.rule = ("TLC enumerates root skeleton x typed holes (every node kind over a composite "
                "chain Call/CallWithKwargs/Subscript/Lookup/CSE nested at every position up to "
                "depth 2 (quick) / 3 (thorough); pairs of independent holes for repeated "
                "subexpressions and shared CSEs; empty/unary/n-ary operand lists), thorough adds "
                "-simulate random trees; one case = one tree observed under 72 raw flag settings x "
                "{uncached, cached, cached called again} + node count + 3 flop counters + "
                "restricted evaluation in 2 environments; non-trivial = root is a composite node; "
                "distinct by canonical JSON digest; instance histories counted separately "
                "(extra.instance_histories)")
    out.exhaustive = True
    out.assumptions += [
        "Python == on trees as transcribed in Canon (1 == 1.0 == True, keyword mappings unordered)",
        "where == and type-sensitive identity give different counts the statement singles out no "
        "answer: node-count / CSE-aware clauses are skipped there",
        "a Remainder is neither counted nor not counted as a division: trees containing one are "
        "skipped for the flop clauses",
        "documented refusals (UnsupportedExpressionError on Substitution/Derivative for the "
        "dependency mappers, on Slice/Substitution/Derivative for the flop counters) are skipped",
        "Eval.tla (C02's oracle) for the restricted-environment lemma on the model",
    ]


def replay(path, out):
    data = json.loads(open(path).read())
    detail = data["detail"]
    if "history" in detail:
        from harness import c09inst
        return c09inst.replay(detail, out)
    wd = kit.fresh_workdir("C09")
    gen = kit.run_tlc("C09_Gen", "C09_Gen_meta", workers=2)
    kit.require_clean(gen, "C09 environments / flags table")
    printed = gen.printed()
    envs = [p["envs"] for p in printed if "envs" in p][0]
    flags = [p["flags"] for p in printed if "flags" in p][0]
    case = dict(detail["case"])
    case["id"] = 0
    recs = kit.drive("harness.c09", "drive_case", [case], {"envs": envs, "flags": flags})
    out.evaluations += len(flags) * NVAR + 4 + 2 * len(envs)
    judge_and_classify(recs, wd, out, flags)
    out.samples = [{"tree": case["e"], "recorded": recs[0]["rs"][:4]}]
    out.rule = "replay of one stored case"
