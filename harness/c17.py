"""C17 - pickles and persistent keys are stable across processes.

Pipeline: C17_Gen (TLC: model check the S-layer machine C17_Pickle against an
implementation model, negative controls, enumerate schedules) -> drive (every
schedule executed by REAL interpreter subprocesses started with different
PYTHONHASHSEED / -O, pickles carried between them by this driver) ->
C17_Judge (TLC steps C17_Pickle along every recorded trace, its invariants
decide).  Python only moves bytes and groups failing verdicts."""
from __future__ import annotations

import concurrent.futures as cf
import json
import os
import subprocess
import sys
import time
from pathlib import Path

from harness import kit

# Negative control: one TLC run of C17_Gen with every Buggy_* switch on and
# -continue; each switch has an invariant only it can break, TLC MUST name all of them.
NEG_CFG = "C17_Gen_neg_all"
NEG_MUST = {"Inv_NoForeignHash": "Buggy_PickleCarriesHash",
            "Inv_DigestIsStructural": "Buggy_DigestUsesProcess",
            "Inv_CompiledComputes": "Buggy_CompiledLosesVars",
            # round 7: an Expression.__hash__ that caches by attribute assignment raises where
            # dataclasses are frozen, for every class whose hash ends there (hash=False without an
            # own hash; with Buggy_OptionsCrossed also the ones that write their own __init__)
            "Inv_NothingRaised": "Buggy_LegacyHashAssigns"}
# round 2: a second run with the other three switches (own instantiations: a user node with a
# keyword-only field, a compiled expression using a context name, a DAG next to the equal tree)
NEG2_CFG = "C17_Gen_neg_all2"
NEG2_MUST = {"Inv_EqIsPyEq": "Buggy_SetstateByPosition",
             "Inv_CompiledComputes": "Buggy_ArgsBySetOrder",
             "Inv_DigestIsStructural": "Buggy_DigestSkipsShared",
             # round 5: a compiled expression listing objects of a leaf subclass, pickled by name
             "Inv_NothingRaised": "Buggy_VarsByName"}
# (C17_Gen_neg_<switch>.cfg run one switch at a time; C17_Gen_cat.cfg is the same
# small space with all switches off and must be clean)


# ------------------------------------------------------------ real processes
def seed_value(sym, seed):
    """PYTHONHASHSEED of a configuration ("S": derived from VERIF_SEED)."""
    if sym == "S":
        return str((seed * 2654435761 + 97531) % 4294967291 + 2)
    return sym


class Proc:
    """one long-lived interpreter subprocess"""

    def __init__(self, cfg, seed, catpath):
        env = dict(os.environ)
        env["PYTHONHASHSEED"] = seed_value(cfg["seed"], seed)
        env["PYTHONPATH"] = f"{kit.REPO}:{kit.ROOT}"
        env.pop("PYTHONOPTIMIZE", None)
        cmd = [sys.executable] + (["-O"] if cfg["opt"] else []) + \
              ["-m", "harness.c17_worker", str(catpath)]
        self.p = subprocess.Popen(cmd, cwd=str(kit.ROOT), env=env, stdin=subprocess.PIPE,
                                  stdout=subprocess.PIPE, text=True, bufsize=1)
        self.cfg = cfg
        self.hello = None

    def wait_hello(self):
        cfg = self.cfg
        hello = self._read()
        if not hello.get("hello") or bool(hello["optimize"]) != bool(cfg["opt"]):
            raise kit.MachineryError(f"C17 worker did not start as configured: {hello}")
        if not os.path.realpath(hello["pymbolic"]).startswith(os.path.realpath(kit.REPO) + os.sep):
            raise kit.MachineryError(
                f"C17 worker imported pymbolic from {hello['pymbolic']}, not from {kit.REPO}")
        self.hello = hello

    def _read(self):
        line = self.p.stdout.readline()
        if not line:
            raise kit.MachineryError(f"C17 worker died (rc={self.p.poll()})")
        return json.loads(line)

    def ask(self, evs, reset):
        self.p.stdin.write(json.dumps({"reset": reset, "evs": evs}, separators=(",", ":")) + "\n")
        self.p.stdin.flush()
        return self._read()

    def close(self):
        try:
            self.p.stdin.close()
            self.p.wait(timeout=10)
        except Exception:  # noqa: BLE001
            self.p.kill()


def execute(case, procs):
    """Run one schedule: cut it into segments of consecutive commands of one
    process, send each segment to that process, carry the pickles."""
    evs = case["evs"]
    payloads = []
    digests = {}
    touched = set()
    rec = []
    i = 0
    while i < len(evs):
        pnum = evs[i]["p"]
        j = i
        seg = []
        while j < len(evs) and evs[j]["p"] == pnum:
            c = dict(evs[j])
            if c["a"] == "Unpickle":
                if c["x"] > len(payloads):
                    raise kit.MachineryError(f"C17: schedule unpickles message {c['x']} before it exists")
                c["payload"], c["wrap"] = payloads[c["x"] - 1]
            seg.append(c)
            j += 1
        res = procs[pnum - 1].ask(seg, reset=pnum not in touched)
        touched.add(pnum)
        for r in res:
            if r["a"] == "Pickle":
                payloads.append((r.pop("payload", ""), r["s"]))
            if r["a"] == "Digest" and r["ok"]:
                hx = r.pop("hex")
                r["d"] = 0 if hx == "" else digests.setdefault(hx, len(digests) + 1)
            r.pop("msg", None)
            rec.append(r)
        i = j
    return {"id": case["id"], "ta": case["ta"], "tb": case["tb"], "proto": case["proto"],
            "wrap": case["wrap"], "cfg": case["cfg"], "np": case["np"], "evs": rec}


class LazyProcs:
    """the interpreters of one configuration tuple, started on first use"""

    def __init__(self, cfgidx, cfgs, seed, catpath, eager):
        self.mk = [lambda i=i: Proc(cfgs[i - 1], seed, catpath) for i in cfgidx]
        self.procs = [None] * len(cfgidx)
        for k in range(eager):            # start these side by side
            self.procs[k] = self.mk[k]()
        for k in range(eager):
            self.procs[k].wait_hello()

    def __getitem__(self, k):
        if self.procs[k] is None:
            self.procs[k] = self.mk[k]()
            self.procs[k].wait_hello()
        return self.procs[k]

    def started(self):
        return [pr for pr in self.procs if pr is not None]


def drive_group(job):
    cfgidx, cases, cfgs, seed, catpath = job
    procs = LazyProcs(cfgidx, cfgs, seed, catpath, eager=2)
    try:
        return [execute(c, procs) for c in cases], [pr.hello for pr in procs.started()]
    finally:
        for pr in procs.started():
            pr.close()


def drive_all(cases, cfgs, seed, catpath, chunk=3000, threads=12):
    groups = {}
    for c in cases:
        groups.setdefault(tuple(c["cfg"]), []).append(c)
    jobs = []
    for k, cs in sorted(groups.items()):
        for i in range(0, len(cs), chunk):
            jobs.append((k, cs[i:i + chunk], cfgs, seed, catpath))
    recs, hellos = [], []
    with cf.ThreadPoolExecutor(max_workers=threads) as ex:
        for part, hello in ex.map(drive_group, jobs):
            recs.extend(part)
            hellos.append(hello)
    recs.sort(key=lambda r: r["id"])
    return recs, hellos, len(jobs)


# ------------------------------------------------------------------- stages
def generate(cfgname, **kw):
    gen = kit.run_tlc("C17_Gen", cfgname, **kw)
    kit.require_clean(gen, f"C17 model check ({cfgname})")
    printed = gen.printed()
    head = [p for p in printed if "cat" in p]
    cases = [p for p in printed if "evs" in p]
    if len(head) != 1 or not cases:
        raise kit.MachineryError(f"C17 generator ({cfgname}) printed no catalogue / schedules")
    return gen, head[0], cases


def run_negative():
    return [kit.run_tlc("C17_Gen", cfg, workers=2, heap="2g", continue_=True)
            for cfg in (NEG_CFG, NEG2_CFG)]


def negative_controls(out, results=None):
    if results is None:
        results = run_negative()
    out.extra["negative_controls"] = {}
    for res, cfg, must in zip(results, (NEG_CFG, NEG2_CFG), (NEG_MUST, NEG2_MUST)):
        seen = set(res.invariant_violated)
        missing = sorted(set(must) - seen)
        if missing:
            raise kit.MachineryError(
                f"negative control {cfg}: TLC did not report {missing} violated "
                f"(switches {[must[m] for m in missing]}; reported {sorted(seen)})")
        out.add_tlc(res)
        out.extra["negative_controls"].update({must[k]: k for k in sorted(must)})


def signature(v):
    return {"clause": v["v"], "a": v["a"], "root": v["root"], "kind": v["kind"],
            "origin": v["origin"], "err": v["err"]}


def judge(recs, wd, out):
    # few, larger JVM runs: the machine-wide TLC slots are shared with other checks
    shards = kit.write_shards(recs, wd / "trace", "c17", max(500, min(6000, len(recs) // 2 + 1)))
    big = len(recs) >= 20000
    verdicts, st, tr = kit.judge_shards("C17_Judge", "C17_Judge", shards,
                                         jvms=4 if big else 2, workers=4 if big else 8)
    out.states += st
    out.transitions += tr
    if sorted(v["id"] for v in verdicts) != sorted(r["id"] for r in recs):
        raise kit.MachineryError(
            f"C17 judge returned {len(verdicts)} verdicts for {len(recs)} traces")
    return verdicts


def classify(verdicts, recs, cases, out):
    byid = {r["id"]: r for r in recs}
    cbyid = {c["id"]: c for c in cases}
    drift = {"pickle_contains_hash_value": 0, "unpickled_with_filled_slot": 0,
             "digest_collisions": 0, "digest_refusals": 0}
    for v in verdicts:
        if v["v"] == "OK":
            out.skipped += v["skip"]
            drift["pickle_contains_hash_value"] += v["carries"]
            drift["unpickled_with_filled_slot"] += v["filled"]
            drift["digest_collisions"] += v["coll"]
            drift["digest_refusals"] += v["refused"]
            continue
        rec = byid[v["id"]]
        out.fail(signature(v), {"case": cbyid[v["id"]], "verdict": v,
                                "recorded_event": rec["evs"][v["at"] - 1],
                                "recorded": rec["evs"][:v["at"]]})
    out.drift += drift["pickle_contains_hash_value"] + drift["unpickled_with_filled_slot"]
    prev = out.extra.get("observations", {})
    out.extra["observations"] = {k: drift[k] + prev.get(k, 0) for k in drift}


ACTIONS = ("Build", "Hash", "Pickle", "Unpickle", "Eq", "DictGet", "ContGet", "Digest", "Call")


def account(cases, recs, hellos, out):
    counts = dict.fromkeys(ACTIONS, 0)
    for r in recs:
        for e in r["evs"]:
            counts[e["a"]] += 1
    if len(recs) > 100 and not all(counts.values()):
        raise kit.MachineryError(f"C17: some action never occurred in the driven schedules: {counts}")
    prev = out.extra.get("calls_by_action", {})
    out.extra["calls_by_action"] = {a: counts[a] + prev.get(a, 0) for a in ACTIONS}
    out.traces += len(recs)
    out.evaluations += sum(len(r["evs"]) for r in recs)
    for c in cases:
        # distinct by (instantiation, history); non-trivial: a pickle reached another
        # process and something was asked of the unpickled object before the audit
        out.note_case({k: c[k] for k in ("ta", "tb", "proto", "wrap", "cfg", "np", "evs")},
                      nontrivial=any(e["a"] == "Unpickle" for e in c["evs"]))
    seen = out.extra.setdefault("interpreters", [])
    for hs in hellos:
        for h in hs:
            d = {"optimize": h["optimize"], "hash_x_low16": h["hash_x"]}
            if d not in seen:
                seen.append(d)


def sharing_account(recs, cat, out):
    """Machinery check + evidence: entries of mode "shared" really are DAGs when built, and
    the copies that come out of a pickle still are (an observation, not judged)."""
    n = {"built_dag": 0, "built_tree": 0, "unpickled_dag": 0, "other_mode_with_sharing": 0}
    for r in recs:
        for e in r["evs"]:
            if not e.get("ok"):
                continue
            if e["a"] == "Build":
                shared = cat[e["x"] - 1].get("mode") == "shared"
                if shared and e["sh"] > 0:
                    n["built_dag"] += 1
                elif not shared and e["sh"] > 0:
                    n["other_mode_with_sharing"] += 1      # (the parser may share on its own)
                else:
                    n["built_tree"] += 1
            elif e["a"] == "Unpickle" and e["sh"] > 0:
                n["unpickled_dag"] += 1
    if len(recs) > 100 and not n["built_dag"]:
        raise kit.MachineryError("C17: no catalogue entry of mode 'shared' came out as a DAG")
    prev = out.extra.get("sharing", {})
    out.extra["sharing"] = {k: n[k] + prev.get(k, 0) for k in n}


def run(tier, seed, out):
    wd = kit.fresh_workdir("C17")
    # the negative control is independent of the rest: its JVM runs alongside
    negpool = cf.ThreadPoolExecutor(max_workers=1)
    negfut = negpool.submit(run_negative)
    gen, head, cases = generate(f"C17_Gen_{tier}")
    out.add_tlc(gen)
    kit.log(f"C17: TLC generated {len(cases)} schedules ({gen.distinct} states, {gen.wall:.1f}s)")
    exhaustive_cases = len(cases)
    if tier == "thorough":
        sim, head2, more = generate("C17_Gen_sim", simulate="num=1000", depth=60, seed=seed,
                                    workers=8)     # num is per worker
        if head2 != head:
            raise kit.MachineryError("C17: catalogue differs between generator runs")
        out.add_tlc(sim)
        kit.log(f"C17: TLC simulated {len(more)} random schedules ({sim.wall:.1f}s)")
        cases += more
    for i, c in enumerate(cases):
        c["id"] = i + 1
    catpath = wd / "catalogue.json"
    catpath.write_text(json.dumps(head))
    t0 = time.time()
    recs, hellos, njobs = drive_all(cases, head["cfgs"], seed, catpath)
    kit.log(f"C17: drove {len(recs)} schedules, {sum(len(r['evs']) for r in recs)} calls, "
            f"{njobs} groups of real interpreter processes ({time.time() - t0:.1f}s)")
    t0 = time.time()
    verdicts = judge(recs, wd, out)
    kit.log(f"C17: TLC judged {len(verdicts)} traces ({time.time() - t0:.1f}s)")
    negative_controls(out, negfut.result())
    negpool.shutdown()
    classify(verdicts, recs, cases, out)
    account(cases, recs, hellos, out)
    sharing_account(recs, head["cat"], out)
    pick = [r for r in recs if r["np"] == 3][:1] + recs[:: max(1, len(recs) // 2)][:2]
    out.samples = [{"schedule": {k: r[k] for k in ("ta", "tb", "proto", "wrap", "cfg", "np")},
                    "catalogue_entry": head["cat"][r["ta"] - 1],
                    "interpreters": [head["cfgs"][i - 1] for i in r["cfg"][:r["np"]]],
                    "recorded_events": [{k: v for k, v in e.items() if k not in ("y", "s", "args") or v}
                                        for e in r["evs"]]} for r in pick]
    out.rule = ("TLC enumerates (instantiation = two catalogue entries x pickle protocol x interpreter "
                "configuration tuple) x every history of Build/Hash/Pickle/Unpickle/Eq/DictGet/ContGet commands "
                "up to the instantiation's depth, one representative per class of histories equal up to "
                "reordering independent commands of different processes, each completed by a closing "
                "audit; thorough adds -simulate random histories over 3 processes.  A case is one "
                "schedule; non-trivial = a pickle is unpickled in another process; distinct by "
                "canonical JSON of (instantiation, history).  Catalogue entries come in building "
                "modes (tree / DAG with shared subexpression objects / parsed from text / defaults "
                "omitted / numpy constants) that are the same structure; compiled expressions list their "
                "leading variables by name / as Variable objects / as the leaf-subclass objects of the expression; "
                "user node types are declared with every usable option combination of the decorator (init=False "
                "with a hand-written __init__, hash=False with an own / inherited hash), as leaf and inner node, "
                "one entry per combination under every configuration tuple")
    out.exhaustive = True
    out.extra["exhaustive_schedules"] = exhaustive_cases
    out.extra["catalogue_entries"] = len(head["cat"])
    out.assumptions += [
        "== on catalogue objects as transcribed in C17_Trees!PyEq (equivalence laws checked by TLC)",
        "hash values are compared within one process only, as first-occurrence class ids",
        "the driver carries pickles between the processes unchanged (hex over pipes)",
        "CompiledValue uses spec/Eval.tla; the lexicographic order of unlisted variables is catalogue data",
    ]


def replay(path, out):
    data = json.loads(Path(path).read_text())
    case = dict(data["detail"]["case"])
    case["id"] = 1
    case.setdefault("wrap", "")
    wd = kit.fresh_workdir("C17")
    gen, head, _ = generate("C17_Gen_cat")
    out.add_tlc(gen)
    catpath = wd / "catalogue.json"
    catpath.write_text(json.dumps(head))
    recs, hellos, _ = drive_all([case], head["cfgs"], out.seed, catpath)
    verdicts = judge(recs, wd, out)
    classify(verdicts, recs, [case], out)
    account([case], recs, hellos, out)
    out.samples = [{"replayed": recs[0]}]
    out.rule = "replay of one stored schedule"
