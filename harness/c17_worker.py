"""C17 interpreter worker: ONE real interpreter process of a schedule.

Started by harness/c17.py as
    PYTHONHASHSEED=<seed> PYTHONPATH=<pymbolic under test>:/verif \
        python [-O] -m harness.c17_worker <catalogue.json>
and then fed, over stdin, one JSON line per *segment* (the consecutive commands
of a schedule addressed to this process); it answers one JSON line with what
each call returned.  It builds objects, calls hash / == / dict / pickle /
digest functions and serialises what it sees.  It never judges anything.

Hash values leave the process as small class ids (first occurrence within the
schedule = 1, ...): TLC integers are 32 bit and nothing but equality of hashes
within one process matters."""
from __future__ import annotations

import hashlib
import json
import pickle
import sys
import warnings

warnings.simplefilter("ignore")

import pymbolic.primitives as p  # noqa: E402
from pymbolic.compiler import CompiledExpression  # noqa: E402

from harness import c17_classes, ser  # noqa: E402


# ------------------------------------------------------------------ building
def from_json(j):
    """Catalogue record (C17_Trees.tla shapes) -> object, constructors only.
    Mode "shared": equal subtrees are built ONCE and the one object is used in every
    place (u = x + y; u*u + f(u)) - the way a program names an intermediate result;
    otherwise every occurrence is an object of its own."""
    if _MEMO is None:
        return _from_json(j)
    k = json.dumps(j, sort_keys=True)
    if k not in _MEMO:
        _MEMO[k] = _from_json(j)
    return _MEMO[k]


def _from_json(j):
    t = j["t"]
    if t == "User":
        cls = c17_classes.CLASSES[j["cls"]]
        s = list(j["s"])
        c = [from_json(x) for x in j["c"]]
        n = j["cls"]
        if n in c17_classes.MAKE:
            return c17_classes.MAKE[n](s, c, _OMIT)
        if n == "C17Pair":
            return cls(c[0], s[0], c[1])
        if n in ("C17Tagged", "C17OldVar"):
            return cls(s[0], s[1])
        if n in ("C17Unit", "C17OldLeaf", "C17Fn"):
            return cls()
        if n in ("C17NoHash", "C17Old"):
            return cls(s[0], c[0])
        if n == "C17Names":
            return cls(tuple(s), tuple(c))
        if n in ("MultiVectorVariable", "Nabla"):
            return cls(s[0])
        if n in ("NablaComponent", "DerivativeSource"):
            return cls(c[0], s[0])
        raise ValueError(n)
    if t == "NaNNode":
        return p.NaN()
    if t == "Poly":
        from pymbolic.polynomial import Polynomial
        return Polynomial(from_json(j["a"]),
                          tuple((e, from_json(c)) for e, c in zip(j["exps"], j["c"])))
    if t == "Rat":
        from pymbolic.rational import Rational
        return Rational(from_json(j["a"]), from_json(j["b"]))
    # stock kinds: same construction as ser.from_json, but recursing through
    # this function so that user nodes may sit anywhere
    if t in ("Var", "Const", "None", "FunctionSymbol", "Wild"):
        v = ser.from_json(j)
        if _NP and type(v) is float:
            import numpy
            v = numpy.float64(v)      # catalogue entries marked np: numpy scalars as constants
        return v
    if t in ser._NARY:
        return getattr(p, ser._NARY[t])(tuple(from_json(c) for c in j["c"]))
    if t == "Tup":
        return tuple(from_json(c) for c in j["c"])
    if t == "List":
        return [from_json(c) for c in j["c"]]
    if t in ser._BIN:
        return getattr(p, ser._BIN[t])(from_json(j["a"]), from_json(j["b"]))
    if t in ser._UN:
        return getattr(p, ser._UN[t])(from_json(j["a"]))
    if t == "Cmp":
        op = j["op"]
        if _ALT:      # the operator by its name (accepted, normalised by the constructor)
            op = {"==": "eq", "!=": "ne", "<": "lt", "<=": "le", ">": "gt", ">=": "ge"}[op]
        return p.Comparison(from_json(j["a"]), op, from_json(j["b"]))
    if t == "If":
        return p.If(from_json(j["i"]), from_json(j["th"]), from_json(j["el"]))
    if t == "Call":
        return p.Call(from_json(j["f"]), tuple(from_json(c) for c in j["c"]))
    if t == "CallKw":
        from immutabledict import immutabledict
        return p.CallWithKwargs(
            from_json(j["f"]), tuple(from_json(c) for c in j["c"]),
            immutabledict({kw["name"]: from_json(kw["e"]) for kw in j["kw"]}))
    if t == "Look":
        return p.Lookup(from_json(j["a"]), j["name"])
    if t == "CSE":
        return p.CommonSubexpression(from_json(j["a"]), j["prefix"] or None, j["scope"])
    if t == "Subst":
        return p.Substitution(from_json(j["a"]), tuple(j["names"]),
                              tuple(from_json(c) for c in j["c"]))
    if t == "Deriv":
        return p.Derivative(from_json(j["a"]), tuple(j["names"]))
    raise ValueError(f"unknown node kind {t!r}")


_NP = False
_OMIT = False
_ALT = False
_MEMO = None


def var_leaf(j, name):
    """the description of the variable leaf called `name` inside the description j (None: the
    expression has no such leaf); leaves are Var records and User records of a class derived
    from Variable"""
    if isinstance(j, list):
        for x in j:
            r = var_leaf(x, name)
            if r is not None:
                return r
        return None
    if not isinstance(j, dict):
        return None
    if j.get("t") == "Var" and j["name"] == name:
        return j
    if (j.get("t") == "User" and issubclass(c17_classes.CLASSES[j["cls"]], p.Variable)
            and j["s"][0] == name):
        return j
    for k in sorted(j):
        r = var_leaf(j[k], name)
        if r is not None:
            return r
    return None


def listed_variable(entry, name):
    """one element of the explicit `variables` list of a compiled expression, given the way
    the catalogue entry says (vobj): a string, a Variable object, or the object the expression
    itself uses for that name (in mode "shared": the very same object)"""
    how = entry.get("vobj", "")
    if how == "":
        return name
    if how == "same":
        leaf = var_leaf(entry["e"], name)
        if leaf is not None:
            return from_json(leaf)
    return p.Variable(name)


def build(entry):
    global _NP, _OMIT, _MEMO, _ALT
    _NP = bool(entry.get("np"))
    _OMIT = entry.get("mode") == "omit"
    _ALT = entry.get("mode") == "alt"
    _MEMO = {} if entry.get("mode") == "shared" else None
    try:
        e = from_json(entry["e"])
        if entry["kind"] == "compiled":
            variables = [listed_variable(entry, n) for n in entry["vars"]]
    finally:
        _NP, _OMIT, _MEMO, _ALT = False, False, None, False
    if entry["kind"] == "compiled":
        return CompiledExpression(e, variables)
    if entry.get("src"):
        from pymbolic import parse
        return parse(str(e))     # built from source: what the parser makes of the printed form
    return e


# ---------------------------------------------------------------- projecting
def target(obj):
    """what hash / == / lookups / digests are asked of"""
    if isinstance(obj, CompiledExpression):
        return obj._Expression
    return obj


def filled_slots(obj, seen=None):
    """number of nodes in the object graph whose _hash_value slot is filled"""
    seen = set() if seen is None else seen
    if id(obj) in seen:
        return 0
    seen.add(id(obj))
    n = 0
    if isinstance(obj, (tuple, list)):
        return sum(filled_slots(c, seen) for c in obj)
    if isinstance(obj, dict) or type(obj).__name__ == "immutabledict":
        return sum(filled_slots(c, seen) for c in obj.values())
    d = getattr(obj, "__dict__", None)
    if isinstance(obj, (p.Expression, CompiledExpression)) and d is not None:
        if "_hash_value" in d:
            n += 1
        for k, v in d.items():
            if k != "_code":
                n += filled_slots(v, seen)
    return n


def shared_nodes(obj):
    """number of compound objects (nodes with fields, non-empty tuples) that are
    reached along more than one path in the object graph"""
    count = {}

    def walk(o):
        kids = None
        if isinstance(o, (tuple, list)) and len(o):
            kids = list(o)
        elif isinstance(o, dict) or type(o).__name__ == "immutabledict":
            kids = list(o.values())
        elif isinstance(o, CompiledExpression):
            kids = [o._Expression]
        elif isinstance(o, p.Expression):
            kids = [v for k, v in getattr(o, "__dict__", {}).items() if k != "_hash_value"]
            if not any(isinstance(v, (p.Expression, tuple, list)) for v in kids):
                return            # a leaf (name, number fields only)
        if kids is None:
            return
        count[id(o)] = count.get(id(o), 0) + 1
        if count[id(o)] == 1:
            for c in kids:
                walk(c)

    walk(obj)
    return sum(1 for v in count.values() if v > 1)


class Worker:
    def __init__(self, cat):
        self.cat = cat
        self.reset()

    def reset(self):
        self.heap = []
        self.conts = {}     # heap index -> the container the object arrived in
        self.hids = {}

    def hid(self, raw):
        if raw not in self.hids:
            self.hids[raw] = len(self.hids) + 1
        return self.hids[raw]

    def slot(self, obj):
        d = getattr(target(obj), "__dict__", None)
        if d is None or "_hash_value" not in d:
            return 0
        return self.hid(d["_hash_value"])

    def obj(self, i):
        o = self.heap[i - 1]
        if o is None:
            raise LookupError("object was never made")
        return o

    def run(self, c):
        a = c["a"]
        out = dict(c)
        out.pop("payload", None)
        out.pop("wrap", None)
        try:
            if a == "Build":
                self.heap.append(None)
                o = build(self.cat[c["x"] - 1])
                self.heap[-1] = o
                out.update(c=self.slot(o), nc=filled_slots(o), sh=shared_nodes(o))
            elif a == "Hash":
                o = self.obj(c["x"])
                h = hash(target(o))
                out.update(h=self.hid(h), c=self.slot(o))
            elif a == "Pickle":
                o = self.obj(c["x"])
                what = o
                if c["s"] == "dict":
                    what = {target(o): 1}
                elif c["s"] == "set":
                    what = frozenset({target(o)})
                b = pickle.dumps(what, protocol=c["y"])
                out.update(carried=int(b"_hash_value" in b), payload=b.hex())
            elif a == "Unpickle":
                self.heap.append(None)
                o = pickle.loads(bytes.fromhex(c["payload"]))
                if c["wrap"]:
                    self.conts[len(self.heap)] = o
                    o, = list(o)
                self.heap[-1] = o
                out.update(c=self.slot(o), nc=filled_slots(o), sh=shared_nodes(o),
                           cls=type(o).__name__)
            elif a == "Eq":
                o1, o2 = self.obj(c["x"]), self.obj(c["y"])
                r = target(o1) == target(o2)
                out.update(r=bool(r), c1=self.slot(o1), c2=self.slot(o2))
            elif a == "DictGet":
                k, o = self.obj(c["x"]), self.obj(c["y"])
                fd = {target(k): 1}.get(target(o)) is not None
                fs = target(o) in {target(k)}
                out.update(fd=bool(fd), fs=bool(fs), c1=self.slot(k), c2=self.slot(o))
            elif a == "ContGet":
                cont, u, o = self.conts[c["x"]], self.obj(c["x"]), self.obj(c["y"])
                if isinstance(cont, dict):
                    f = cont.get(target(o)) is not None
                else:
                    f = target(o) in cont
                out.update(f=bool(f), c1=self.slot(u), c2=self.slot(o))
            elif a == "Digest":
                o = target(self.obj(c["x"]))
                try:
                    if c["s"] == "phw":
                        kh = hashlib.sha256()
                        c17_classes.C17PersistentHash(kh)(o)
                        out.update(hex=kh.hexdigest())
                    else:
                        from pytools.persistent_dict import KeyBuilder
                        out.update(hex=KeyBuilder()(o))
                except Exception as exc:  # noqa: BLE001 - a refusal is an observation
                    out.update(hex="", refused=type(exc).__name__)
            elif a == "Call":
                o = self.obj(c["x"])
                out.update(v=ser.call_to_json(lambda: o(*c["args"])))
            else:
                raise ValueError(a)
            out.update(ok=True, err="")
        except RecursionError:
            raise
        except Exception as exc:  # noqa: BLE001 - the exception class *is* the observation
            out.update(ok=False, err=type(exc).__name__, msg=str(exc)[:160])
        return out


def main():
    cat = json.load(open(sys.argv[1]))["cat"]
    w = Worker(cat)
    sys.stdout.write(json.dumps({"hello": True, "optimize": sys.flags.optimize,
                                 "hash_x": hash("x") & 0xffff,
                                 "pymbolic": p.__file__}) + "\n")
    sys.stdout.flush()
    for line in sys.stdin:
        req = json.loads(line)
        if req.get("reset"):
            w.reset()
        res = [w.run(c) for c in req["evs"]]
        sys.stdout.write(json.dumps(res, separators=(",", ":")) + "\n")
        sys.stdout.flush()


if __name__ == "__main__":
    main()
