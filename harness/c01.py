"""C01 - expression nodes: structural equality, consistent hashing, immutability.

Pipeline (BUILDING.md):
 1. TLC on spec/C01_Gen.tla: enumerates catalogue pairs/triples x operation histories,
    runs the C01_Objects state machine along every history (A-layer prediction as the
    observation) and checks its invariants / action properties; prints every maximal
    history.  In parallel: C01_Laws (M-layer laws, generated-__eq__ == PyEq theorem)
    under three hash functions, the deeper pure model check, and the Buggy_* negative
    controls that TLC must refute.  Thorough: + seeded -simulate histories.
 2. harness/c01drv.py replays every history through the real pymbolic.
 3. TLC on spec/C01_Judge.tla validates every recorded trace against the state machine.
 4. failing verdicts -> attribution signatures -> known findings / violations.
"""
from __future__ import annotations

import concurrent.futures as cf
import json
import time

from harness import kit

# negative controls: (cfg suffix, kind, name TLC must report as violated)
CONTROLS = [
    ("Buggy_DropField", "invariant", "EqIsPyEq"),
    ("Buggy_DropField_dict", "invariant", "DictFindsEqual"),
    ("Buggy_StaleHash", "invariant", "NeverStale"),
    ("Buggy_StaleHash_eq", "invariant", "HashRespectsEq"),
    ("Buggy_StaleHash_imm", "property", "Immutable"),
    ("Buggy_CopyKeepsHash", "invariant", "HashRespectsEq"),
    ("Buggy_NaNIdentity", "invariant", "EqIsPyEq"),
    # round 2: class-level state looked up through the base classes; a cached hash that
    # crosses a pickle into another interpreter
    ("Buggy_ClassMemo", "invariant", "EqIsPyEq"),
    ("Buggy_PickleKeepsHash", "invariant", "EqIsPyEq"),
    ("Buggy_ClassMemo_dict", "invariant", "DictFindsEqual"),
    ("Buggy_PickleKeepsHash_dict", "invariant", "DictFindsEqual"),
    # round 3: the generated __eq__ without its "self is other" exit: an object that holds a
    # value which is not == itself (float NaN) directly in a field is not == itself
    ("Buggy_NoIdentityPath", "invariant", "EqIsPyEq"),
    # round 4: the generated functions take their field list from the positional constructor
    # parameters: keyword-only / init=False fields drop out of ==, hash and copies
    ("Buggy_KwDropped", "invariant", "EqIsPyEq"),
    ("Buggy_KwDropped_copy", "invariant", "CopyFaithful"),
    # round 5: "is the keyword mapping hashable?" answered from its type: a read-only view of the
    # caller's dict (has a __hash__ slot that raises) is kept - the node is unhashable, and it
    # changes when the caller changes its dict
    ("Buggy_NominalHashable", "invariant", "BuiltOK"),
    ("Buggy_NominalHashable_imm", "property", "Immutable"),
    # round 6: equality memoised by ADDRESS ("I compared equal to the object at this address
    # last time"): an object dies, a different one is built where it was
    ("Buggy_AddrMemo", "invariant", "EqIsPyEq"),
    ("Buggy_AddrMemo_dict", "invariant", "DictFindsEqual"),
]
# the quick tier runs one control per Bug switch (the machine-wide TLC slots are scarce)
THOROUGH_ONLY = {"Buggy_DropField_dict", "Buggy_StaleHash_eq", "Buggy_ClassMemo_dict",
                 "Buggy_PickleKeepsHash_dict", "Buggy_KwDropped_copy", "Buggy_NominalHashable_imm",
                 "Buggy_AddrMemo_dict"}


def _side_runs(tier):
    """Laws, deeper model checks, negative controls.  Returns (results, errors)."""
    jobs = [("laws_" + hm, "C01_Laws", f"C01_Laws_{hm}", None) for hm in ("real", "perfect", "collide")]
    jobs += [("model_" + hm, "C01_Gen", f"C01_Gen_model_{hm}", None)
             for hm in (("real", "perfect", "collide") if tier == "thorough" else ("real",))]
    jobs += [(c[0], "C01_Gen", f"C01_Gen_{c[0]}", c) for c in CONTROLS
             if tier == "thorough" or c[0] not in THOROUGH_ONLY]

    def one(job):
        name, mod, cfg, ctl = job
        r = kit.run_tlc(mod, cfg, workers=3, heap="3g", tag=f"C01side.{name}")
        return job, r

    out, errs = {}, []
    with cf.ThreadPoolExecutor(max_workers=5) as ex:
        for (name, mod, cfg, ctl), r in ex.map(one, jobs):
            if ctl is None:
                if r.rc != 0 or "Error:" in r.out or not r.ok:
                    tail = "\n".join(r.out.splitlines()[-25:])
                    errs.append(f"{name}: TLC reported an error on the model:\n{tail}")
                out[name] = {"states": r.distinct, "ok": r.ok}
            else:
                got = r.invariant_violated if ctl[1] == "invariant" else r.property_violated
                hit = ctl[2] in got
                if not hit:
                    errs.append(f"negative control {name}: TLC did not refute {ctl[2]} (got {got})")
                out[name] = {"refuted": ctl[2] if hit else None, "states": r.distinct}
            out[name]["_res"] = r
    return out, errs


def _cases_from(res, start):
    cases = []
    for p in res.printed():
        if isinstance(p, dict) and "hist" in p:
            p["id"] = start + len(cases)
            cases.append(p)
    return cases


def signature(v):
    """Attribution pattern of a failing verdict (grouping only; every field was
    computed by TLC in C01_Judge!Report)."""
    clause = v["v"]
    if clause == "Immutable" and v["op"] in ("SetAttr", "DelAttr"):
        return {"clause": "Immutable", "op": v["op"], "template": v["tmpl"], "attr": v["own"]}
    if clause in ("EqIsPyEq", "NeIsNotPyEq", "HashRespectsEq", "DictFindsEqual"):
        sig = {"clause": clause, "cls": v["ci"]}
        if v.get("cj") and v["cj"] != v["ci"]:
            sig["other"] = v["cj"]
        if v.get("neq"):
            sig["differ"] = sorted(v["neq"])
        if clause in ("HashRespectsEq",):
            sig["op"] = v["op"]
        if v.get("via"):
            sig["via"] = sorted(v["via"])
        if v.get("addr"):
            # one of the objects sits at the address a dead object had
            sig["addr"] = v["addr"]
        return sig
    if clause in ("BuiltHashable", "BuiltAsGiven"):
        return {"clause": clause, "cls": v.get("cls0", ""), "forms": sorted(v.get("forms", []))}
    return {"clause": clause, "op": v["op"], "cls": v["ci"], "md": v.get("md", "")}


def _judge(recs, wd, name):
    # one wave of at most 6 JVMs (TLC slots are machine-wide and scarce): <= 9000 traces a shard
    per = min(9000, max(2000, -(-len(recs) // 6)))
    shards = kit.write_shards(recs, wd / "trace", name, per)
    return kit.judge_shards("C01_Judge", "C01_Judge", shards, jvms=6, workers=3)


def _classify(recs, cases, verdicts, out):
    byid = {c["id"]: c for c in cases}
    recid = {r["id"]: r for r in recs}
    seen = set()
    nfail = 0
    heap = {"histories": 0, "with_an_object_at_a_dead_objects_address": 0}
    for v in verdicts:
        if not isinstance(v, dict) or "id" not in v:
            continue
        seen.add(v["id"])
        out.drift += v.get("drift", 0)
        if byid[v["id"]].get("sweep") in ("heap", "heapd", "heapx") and v["v"] != "SKIP":
            heap["histories"] += 1
            heap["with_an_object_at_a_dead_objects_address"] += 1 if v.get("reu", 0) > 0 else 0
        if v["v"] == "OK":
            continue
        if v["v"] == "SKIP":
            out.skipped += 1
            continue
        nfail += 1
        rec = recid[v["id"]]
        out.fail(signature(v), {"case": byid[v["id"]], "verdict": v,
                                "recorded_step": rec["evs"][v["n"] - 1] if v["n"] <= len(rec["evs"]) else None,
                                "trees": rec["trees"]})
    if len(seen) != len(recs):
        raise kit.MachineryError(f"C01 judge produced {len(seen)} verdicts for {len(recs)} traces")
    out.extra["object_lifetimes"] = heap
    if heap["histories"] > 20 and 2 * heap["with_an_object_at_a_dead_objects_address"] < heap["histories"]:
        raise kit.MachineryError(
            f"C01: only {heap['with_an_object_at_a_dead_objects_address']} of {heap['histories']} lifetime "
            "histories put the new object at the address of the dead one: the driver did not exercise "
            "address reuse (other allocator?), the heap sweeps show nothing")
    if len(recs) > 20 and out.skipped > max(5, len(recs) // 50):
        raise kit.MachineryError(f"C01: {out.skipped} of {len(recs)} traces were not judgeable (SKIP); "
                                 "the catalogue is built to be inside the model, so the driver or the "
                                 "implementation under test is broken in a way the check cannot see through")
    return nfail


def _corruption_control(recs, wd):
    """Negative control for the trace specification: take traces the judge accepted,
    flip one recorded field, the judge must reject each with the expected clause."""
    import copy

    def find(pred):
        for r in recs:
            for n, e in enumerate(r["evs"]):
                if pred(r, n, e):
                    return copy.deepcopy(r), n
        return None, None

    bad = []
    r, n = find(lambda r, n, e: e["ev"]["op"] == "Eq" and e["r"]["k"] == "ok" and e["ev"]["i"] != e["ev"]["j"])
    if r:
        r["evs"][n]["r"]["b"] = 1 - r["evs"][n]["r"]["b"]
        bad.append((r, "EqIsPyEq"))
    r, n = find(lambda r, n, e: e["ev"]["op"] == "DictGet" and e["r"]["k"] == "ok" and e["r"]["v"] > 0)
    if r:
        r["evs"][n]["r"]["v"] = -1
        bad.append((r, "DictFindsEqual"))
    r, n = find(lambda r, n, e: n > 0 and e["r"]["proj"] and e["r"]["proj"][0]["hashed"] == 1
                and r["evs"][n - 1]["r"]["proj"] and r["evs"][n - 1]["r"]["proj"][0]["hashed"] == 1)
    if r:
        r["evs"][n]["r"]["proj"][0]["h"] = {"t": "H", "id": 99}
        bad.append((r, "HashStable"))
    r, n = find(lambda r, n, e: len(r["trees"]) >= 2 and len(e["r"]["proj"]) >= 2
                and e["ev"]["op"] in ("Eq", "Hash", "DictPut") and e["r"]["proj"][0]["tr"] != e["r"]["proj"][1]["tr"])
    if r:
        r["evs"][n]["r"]["proj"][0]["tr"] = r["evs"][n]["r"]["proj"][1]["tr"]
        bad.append((r, "Immutable"))
    r, n = find(lambda r, n, e: e["ev"]["op"] == "SetAttr" and e["r"]["k"] == "err")
    if r:
        r["evs"][n]["r"]["k"] = "ok"
        r["evs"][n]["r"]["exc"] = ""
        bad.append((r, "Immutable"))
    r, n = find(lambda r, n, e: e["ev"]["op"] == "Eq" and e["r"]["b"] == 1 and e["ev"]["i"] != e["ev"]["j"]
                and all(q["hashed"] == 1 for q in e["r"]["proj"][:2]))
    if r:
        r["evs"][n]["r"]["proj"][1]["h"] = {"t": "H", "id": 98}
        bad.append((r, "HashRespectsEq|HashStable"))
    # a copy that lost a field of its original
    r, n = find(lambda r, n, e: e["ev"]["op"] == "Copy" and e["r"]["k"] == "new"
                and r["trees"][e["r"]["proj"][-1]["tr"] - 1]["f"])
    if r:
        q = r["evs"][n]["r"]["proj"][-1]
        t = copy.deepcopy(r["trees"][q["tr"] - 1])
        t["f"][-1] = {"t": "Missing"}
        r["trees"].append(t)
        q["tr"] = len(r["trees"])
        bad.append((r, "CopyKeepsFields"))
    # a node that kept the read-only view of its builder's dict it was given
    def has_imm(t):
        return t["t"] == "N" and any(f.get("t") == "M" and f.get("mt") == "imm" for f in t["f"])

    r, n = find(lambda r, n, e: e["ev"]["op"] == "New" and e["ev"]["md"] == "" and e["r"]["k"] == "new"
                and has_imm(r["trees"][e["r"]["proj"][-1]["tr"] - 1]))
    if r:
        q = r["evs"][n]["r"]["proj"][-1]
        t = copy.deepcopy(r["trees"][q["tr"] - 1])
        for f in t["f"]:
            if f.get("t") == "M":
                f["mt"] = "proxy"
        r["trees"].append(t)
        q["tr"] = len(r["trees"])
        bad.append((r, "BuiltHashable"))
    base = [r["id"] for r, _ in bad]
    for k, (r, _) in enumerate(bad):
        r["id"] = k
    shards = kit.write_shards([b[0] for b in bad], wd / "corrupt", "c01bad", 1000)
    verdicts, st, tr = kit.judge_shards("C01_Judge", "C01_Judge", shards, jvms=1, workers=2)
    got = {v["id"]: v["v"] for v in verdicts if isinstance(v, dict) and "id" in v}
    res, errs = [], []
    for k, (r, want) in enumerate(bad):
        ok = got.get(k) in want.split("|")
        res.append({"corruption": want, "verdict": got.get(k), "rejected_as_expected": ok})
        if not ok:
            errs.append(f"corrupted trace {k}: expected {want}, judge said {got.get(k)}")
    if len(bad) < 4:
        errs.append(f"only {len(bad)} corruptible traces found")
    return res, errs, st, tr, base


def _nontrivial(case):
    ops = [e["op"] for e in case["hist"] if e["op"] != "New"]
    return len(ops) >= 1


def run(tier, seed, out):
    wd = kit.fresh_workdir("C01")
    t0 = time.time()
    # -simulate num=N is per worker: 4 workers x N random walks
    nsim = 50 if tier == "quick" else 2500
    with cf.ThreadPoolExecutor(max_workers=4) as ex:
        sim_f = ex.submit(kit.run_tlc, "C01_Gen", "C01_Gen_sim", workers=4, heap="3g",
                          simulate=f"num={nsim}", depth=14, seed=seed)
        gen_f = ex.submit(kit.run_tlc, "C01_Gen", f"C01_Gen_{tier}", workers=8, heap="4g")
        side_f = ex.submit(_side_runs, tier)
        gen = gen_f.result()
        kit.require_clean(gen, "C01 model check along the generated histories")
        out.add_tlc(gen)
        cases = _cases_from(gen, 0)
        kit.log(f"C01: TLC generated {len(cases)} histories ({gen.distinct} states, {gen.wall:.1f}s)")
        sim = sim_f.result()
        if "Error:" in sim.out:
            raise kit.MachineryError("C01 simulation run failed:\n" + "\n".join(sim.out.splitlines()[-25:]))
        simcases = _cases_from(sim, len(cases))
        # simulation prints one line per visited end state; keep distinct ones
        uniq, keep = set(), []
        for c in simcases:
            k = json.dumps(c["hist"], sort_keys=True)
            if k not in uniq:
                uniq.add(k)
                keep.append(c)
        for n, c in enumerate(keep):
            c["id"] = len(cases) + n
        kit.log(f"C01: TLC simulated {len(keep)} random histories of length 8 (seed {seed}, {sim.wall:.1f}s)")
        out.states += sim.distinct
        out.transitions += sim.generated
        cases += keep
        if not cases:
            raise kit.MachineryError("C01 generator printed no cases")
        t1 = time.time()
        recs = kit.drive("harness.c01drv", "drive_case", cases, None, chunk=500)
        kit.log(f"C01: drove {len(recs)} histories through pymbolic at {kit.REPO} ({time.time() - t1:.1f}s)")
        out.evaluations += sum(len(r["evs"]) for r in recs)
        t2 = time.time()
        corr_f = ex.submit(_corruption_control, recs, wd)
        verdicts, st, tr = _judge(recs, wd, "c01")
        kit.log(f"C01: TLC judged {len(recs)} traces ({st} states, {time.time() - t2:.1f}s)")
        out.states += st
        out.transitions += tr
        out.traces += len(recs)
        nfail = _classify(recs, cases, verdicts, out)
        corr, cerrs, st2, tr2, base = corr_f.result()
        accepted = {v["id"] for v in verdicts if isinstance(v, dict) and v.get("v") == "OK"}
        if not set(base) <= accepted:
            # the control ran in parallel with the judge and happened to corrupt a trace the
            # judge did not accept in the first place: redo it on accepted traces only
            corr, cerrs, st2, tr2, base = _corruption_control(
                [r for r in recs if r["id"] in accepted], wd)
        out.states += st2
        out.transitions += tr2
        side, errs = side_f.result()
        errs += cerrs
    for name, d in side.items():
        out.add_tlc(d.pop("_res"))
    if errs:
        raise kit.MachineryError("; ".join(errs))
    for c in cases:
        out.note_case(c["hist"], nontrivial=_nontrivial(c))
    pick = [recs[0], recs[len(recs) // 2], recs[-1]]
    out.samples = [{"history": [{k: v for k, v in e["ev"].items() if v not in ("", 0) and v != {"t": "None"}}
                                for e in r["evs"]],
                    "recorded": [{"k": e["r"]["k"], "b": e["r"]["b"], "h": e["r"]["h"], "exc": e["r"]["exc"],
                                  "v": e["r"]["v"], "proj": e["r"]["proj"]} for e in r["evs"]],
                    "trees": r["trees"]} for r in pick]
    pairs_txt = ("every near pair (each catalogue member with its separately built twin, with its "
                 "family's base instance and with its next two neighbours) x every history of length 2 "
                 "over the pair alphabet {Eq12, Eq21, Hash2, Put1, Get2}; 16 representative pairs + 3 "
                 "triples x every history of length 2 over the full alphabet (~34 operations); 20 tuples "
                 "over three-level class hierarchies (ancestor instances + two leaf instances) x every "
                 "history of length 2 over hash/==/dict put/dict get on every object (every order of first "
                 "use of the classes; every trace starts from a pristine interpreter state); every "
                 "catalogue member with its twin x 4 ways of arriving from another interpreter process "
                 "(unpickled; hashed / nested nodes hashed / untouched before pickling there) x 1 "
                 "operation, 28 representative pairs x the same x 2 operations; 11 single objects that "
                 "hold a float NaN (a value not == itself: directly in a field of built-in / user / "
                 "legacy classes, in a tuple field, below other nodes) x every history of length 2 over "
                 "the self alphabet (== / != with ITSELF, hash, dict put / get of itself, copy / "
                 "deepcopy / pickle copy / mappers and the same on the results), the same for 7 single "
                 "objects of user dataclass nodes with a keyword-only field (with / without default, "
                 "below CommonSubexpression) or a field(init=False) field; 5 pairs of keyword-argument "
                 "calls (same contents / one value different / colliding values / the empty mapping / "
                 "nodes as values, nested in a Sum) whose first member is built from each of 6 forms of "
                 "Mapping (dict, OrderedDict, ChainMap, a user Mapping class, MappingProxyType over a "
                 "dict, MappingProxyType over an immutabledict) x every history of length 2 over {the "
                 "caller mutates what it passed, Hash1, Hash2, Eq12, Eq21, Put1, Get2}; object lifetimes: 14 "
                 "tuples (a, separately built equal of a, c of the same class differing in one field by a "
                 "hash-colliding value -1/-2, plainly, or not at all; pure legacy class, legacy children in "
                 "five hierarchy shapes, decorated / plain / built-in classes, nested legacy nodes) x every "
                 "history with 3 events other than New over {hash, ==, dict put, dict get on the live objects, "
                 "Drop of a live object, New-again of c once an address is free} that ends with a use of the "
                 "new object, and x every history with 4 such events over {put of a, look-ups, Drop, New-again}"
                 if tier == "quick" else
                 "every unordered pair inside each catalogue family x every history of length 2, every "
                 "near pair x every history of length 3 over the pair alphabet; 24 representative pairs "
                 "+ 8 triples x every history of length 2 over the full alphabet (28 pairs since round 4); 20 class-hierarchy "
                 "tuples x every history of length 3 over hash/==/put/get on every object; cross-"
                 "interpreter arrival (4 ways) of every twin pair x 2 operations, every near pair x 1, "
                 "28 representative pairs x 2; every catalogue member alone x every history of length 2 "
                 "over the self alphabet (== / != with itself, hash, dict put / get of itself, copies, "
                 "mappers, the same on the results), the 21 NaN-holding members x length 3; 8 pairs of "
                 "keyword-argument calls x 6 forms of Mapping for the first member x every history of "
                 "length 3 over {the caller mutates what it passed, Hash1, Hash2, Eq12, Eq21, Put1, Get2}; "
                 "object lifetimes: (a, twin of a, c) for the 14 lifetime pairs, the representative pairs and "
                 "every near pair of the user-class families, 4 tuples whose second member is ==-but-other-"
                 "type x every history with 3 events other than New over {hash, ==, put, get on the live "
                 "objects, Drop, New-again} ending with a use of the new object, and x every history with 4 "
                 "such events over {put of a, look-ups, Drop, New-again}")
    out.rule = ("TLC enumerates (C01_Gen over the 328-object catalogue in 27 families): " + pairs_txt +
                "; plus seeded -simulate random walks of 8 operations from any family pair/triple. "
                "A case is one history (New events + operations), replayed on fresh objects; "
                "non-trivial = at least one operation after construction; distinct by canonical JSON "
                "digest of the history. exhaustive refers to the enumerated sweeps (the random walks "
                "come on top)")
    out.exhaustive = True
    out.extra["failing_verdicts"] = nfail
    out.extra["controls"] = {k: v for k, v in side.items()}
    out.extra["controls"]["trace_corruption"] = corr
    ops, clss = {}, {}
    for c in cases:
        for e in c["hist"]:
            key = e["op"] + (":" + e["md"] if e["md"] else "")
            ops[key] = ops.get(key, 0) + 1
            if e["op"] == "New":
                clss[e["spec"]["cls"]] = clss.get(e["spec"]["cls"], 0) + 1
    out.extra["events_by_operation"] = ops
    out.extra["objects_by_class"] = clss
    out.extra["sweeps"] = {s: sum(1 for c in cases if c["sweep"] == s) for s in ("pairs", "near", "deep", "deepq", "hier", "xtwin", "xnear", "xdeep", "self", "selfn", "forms", "heap", "heapd", "heapx", "sim")}
    out.assumptions += [
        "CPython semantics of ==/hash on tuples, numbers, str, mappings as transcribed in C01_Values.tla",
        "default interpreter mode (__debug__ true); python -O is out of scope as the statement says",
        "bounded: catalogue of 328 object specifications in 27 families, histories of the stated lengths",
        "the form in which the keyword mapping of a call is handed to the constructor is an input dimension "
        "(7 forms of Mapping); a node built here must be hashable (BuiltHashable), hold what it was given up "
        "to the three documented __post_init__ normalisations (BuiltAsGiven) and stay as it is when the "
        "caller changes the object it passed (Immutable along Mutate events); a list / set given where the "
        "class declares a tuple is an ill-typed argument and not generated",
        "a copy (copy.copy / copy.deepcopy / pickle round trip in the same process) that comes to be is "
        "judged: same class, every field present and == the original's (CopyKeepsFields); a pickle that "
        "fails is SKIP (C17)",
        "cross-interpreter arrival: only ==/hash/dict behaviour of the unpickled object is judged here, "
        "whether and how faithfully an expression pickles is C17 (a failed pickle is SKIP)",
        "object lifetimes: a Drop event ends the lifetime of an object for real (reference given up, CPython "
        "frees it, gc.collect() if not), every later object is recorded with its address (id()); the driver "
        "keeps the freed block reserved with a non-expression placeholder until the next constructor call so "
        "that its own recording work does not take it; TLC reports per history whether a new object sat at a "
        "dead object's address (evidence: object_lifetimes) - the clauses never read an address; fewer than "
        "half of the lifetime histories with a reused address is a machinery failure",
        "float NaN constants are in the model with the identity of the float object (three-valued "
        "meaning: the answer of == between two DIFFERENT objects that share a NaN object directly in a "
        "field, or that may share a nested NaN-holding node, is not fixed by the statement and not judged; "
        "== of an object with itself is); numpy NaN / infinities and values the driver cannot serialise "
        "are out of model (SKIP)",
    ]
    kit.log(f"C01: total {time.time() - t0:.1f}s")


def replay(path, out):
    data = json.loads(open(path).read())
    case = data["detail"]["case"]
    wd = kit.fresh_workdir("C01")
    recs = kit.drive("harness.c01drv", "drive_case", [case], None, procs=1)
    out.evaluations += len(recs[0]["evs"])
    verdicts, st, tr = _judge(recs, wd, "replay")
    out.states += st
    out.transitions += tr
    out.traces += 1
    _classify(recs, [case], verdicts, out)
    out.note_case(case["hist"])
    out.samples = [{"history": case["hist"], "verdicts": verdicts}]
    out.rule = "replay of one stored history"
    kit.log("C01 replay verdicts: " + json.dumps(verdicts))
