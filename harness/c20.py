"""C20 - statement-stream utilities keep programs well-formed.

Pipeline
  (1) C20_Model  (TLC): the fusion state machine, all histories, all admissible fresh names,
                        invariants IdsDistinct / DepsClosed / Acyclic / step clauses;
                        negative controls (Buggy_*) must violate their invariant.
      C20_Gen    (TLC): enumerates fuse pairs, disambiguation pairs x filters, re-fusion
                        histories, statements, all DAGs <= 5 nodes; checks TR uniqueness and
                        "algorithm (C20_Algo) refines meaning (C20_Imperative)".
  (2) drive: pymbolic.imperative (fuse / disambiguate / disambiguate_and_fuse /
             get_read_variables / get_written_variables / get_dot_dependency_graph).
  (3) C20_Judge (TLC): steps the C20_Fusion machine along every recorded history.
Python never decides a verdict: it builds objects, calls, serialises, groups."""
from __future__ import annotations

import concurrent.futures as cf
import json
import re
import time

from harness import kit, ser

PROP = "C20"
# deep recursive operators on 24-48 statement programs need more than the default 1 MB
JVM_ENV = {"JAVA_TOOL_OPTIONS": "-Xss64m"}

# ------------------------------------------------------------------ driving
_KIND = {"Assignment": "Assign", "ConditionalAssignment": "CondAssign", "Nop": "Nop"}
_NONE = {"t": "None"}


def build_stmt(j):
    from pymbolic.imperative.statement import Assignment, ConditionalAssignment, Nop
    kw = {"id": j["id"], "depends_on": frozenset(j["deps"])}
    kind = j["kind"]
    if kind == "Nop":
        return Nop(**kw)
    lhs, rhs = ser.from_json(j["lhs"]), ser.from_json(j["rhs"])
    if kind == "Assign":
        return Assignment(lhs=lhs, rhs=rhs, **kw)
    if kind == "CondAssign":
        return ConditionalAssignment(lhs=lhs, rhs=rhs, condition=ser.from_json(j["cond"]), **kw)
    raise ValueError(kind)


def build_stream(js):
    return [build_stmt(j) for j in js]


def ser_stmt(s):
    kind = _KIND.get(type(s).__name__)
    if kind is None or not isinstance(s.id, str):
        raise ser.Unserialisable(f"statement {type(s).__name__} id={s.id!r}")
    deps = list(s.depends_on)
    if not all(isinstance(d, str) for d in deps):
        raise ser.Unserialisable(f"depends_on={deps!r}")
    if kind == "Nop":
        lhs = rhs = cond = _NONE
    else:
        lhs, rhs = ser.to_json(s.lhs), ser.to_json(s.rhs)
        cond = ser.to_json(s.condition) if kind == "CondAssign" else _NONE
    return {"id": s.id, "deps": sorted(deps), "kind": kind, "lhs": lhs, "rhs": rhs, "cond": cond}


def ser_stream(stmts):
    return [ser_stmt(s) for s in stmts]


def ser_idmap(m):
    if not all(isinstance(k, str) and isinstance(v, str) for k, v in m.items()):
        raise ser.Unserialisable(f"id map {m!r}")
    return sorted([k, v] for k, v in m.items())


def ser_subst(m):
    from pymbolic.primitives import Variable
    out = []
    for k, v in m.items():
        if not isinstance(k, str) or not isinstance(v, Variable):
            raise ser.Unserialisable(f"substitution {k!r} -> {v!r}")
        out.append([k, v.name])
    return sorted(out)


def make_filter(flt):
    mode = flt["mode"]
    if mode == "default":
        return None
    if mode == "all":
        return lambda name: True
    if mode == "none":
        return lambda name: False
    names = frozenset(flt["names"])
    return lambda name: name in names


def _blank():
    return {"r": "ok", "R": [], "m": [], "sg": [], "B2": [], "e": "", "A1": [], "B1": []}


def _call(thunk):
    """Run thunk() -> dict of outputs; record exception class / unserialisable output."""
    import warnings
    out = _blank()
    try:
        with warnings.catch_warnings():
            warnings.simplefilter("ignore")
            out.update(thunk())
    except RecursionError:
        raise
    except ser.Unserialisable as exc:
        out = _blank()
        out.update(r="unser", e=str(exc)[:120])
    except Exception as exc:  # noqa: BLE001 - the exception class is the observation
        out = _blank()
        out.update(r="err", e=type(exc).__name__)
    return out


_EDGE = re.compile(r'^\s*"?([^\s"\[]+)"?\s*->\s*"?([^\s"\[;]+)"?\s*;?\s*$')
_NODE = re.compile(r'^\s*"([^"]+)"\s*\[')


def dot_edges(text):
    edges, nodes = [], []
    for line in text.splitlines():
        m = _EDGE.match(line)
        if m:
            edges.append([m.group(1), m.group(2)])
            continue
        m = _NODE.match(line)
        if m:
            nodes.append(m.group(1))
    return edges, nodes


def drive_dot(stmts, both):
    from pymbolic.imperative.utils import get_dot_dependency_graph
    import warnings
    out = {"r": "ok", "edges": [], "edges2": [], "nodes": [], "e": ""}
    try:
        with warnings.catch_warnings():
            warnings.simplefilter("ignore")
            e1, n1 = dot_edges(get_dot_dependency_graph(stmts))
            e2 = dot_edges(get_dot_dependency_graph(stmts, use_stmt_ids=True))[0] if both else e1
        out.update(edges=sorted(e1), edges2=sorted(e2), nodes=n1)
    except RecursionError:
        raise
    except Exception as exc:  # noqa: BLE001
        out.update(r="err", e=type(exc).__name__)
    return out


class _Objects:
    """Names for statement OBJECTS (small integers in order of first appearance); keeps every
    object alive so that the names stay unambiguous for the whole history."""

    def __init__(self):
        self.names, self.keep = {}, []

    def of(self, stmts):
        out = []
        for s in stmts:
            if id(s) not in self.names:
                self.names[id(s)] = len(self.keep) + 1
                self.keep.append(s)
            out.append(self.names[id(s)])
        return out


def _snapshot(stmts, out):
    """The operand list as it reads NOW (id, depends_on, kind, lhs, rhs, condition of every
    statement).  Observation only: C20_Judge compares it with what the call was given."""
    try:
        import warnings
        with warnings.catch_warnings():
            warnings.simplefilter("ignore")
            return ser_stream(stmts)
    except RecursionError:
        raise
    except Exception as exc:  # noqa: BLE001 - an operand that no longer serialises
        if out["r"] == "ok":
            out.update(r="unser", e=("operand after the call: " + str(exc))[:120])
        return []


def drive_hist(case):
    from pymbolic.imperative.transform import (disambiguate_and_fuse, disambiguate_identifiers,
                                              fuse_statement_streams_with_unique_ids)
    # alias = 1: a base stream is built ONCE per history and the same statement objects are
    # handed in every time it is used again (so results of earlier fusions that still hold
    # them meet them again); alias = 0: a fresh copy for every use
    alias = bool(case.get("alias", 0))
    built = {}

    def operand(js):
        if not alias:
            return build_stream(js)
        key = json.dumps(js, sort_keys=True)
        if key not in built:
            built[key] = build_stream(js)
        return built[key]

    objs = _Objects()
    cur = operand(case["init"])
    events = []
    ncalls = 0
    for op in case["ops"]:
        x = operand(op["X"])
        sa = x if op["side"] == "R" else cur
        sb = x if op["side"] == "L" else cur
        flt = make_filter(op["flt"])
        kind = op["op"]
        res = {}
        ids = {"a": objs.of(sa), "b": objs.of(sb), "r": []}

        def thunk(kind=kind, sa=sa, sb=sb, flt=flt, res=res):
            if kind == "fuse":
                r, m = fuse_statement_streams_with_unique_ids(sa, sb)
                res["R"] = res["O"] = r
                return {"R": ser_stream(r), "m": ser_idmap(m)}
            if kind == "dis":
                b2, sg = disambiguate_identifiers(sa, sb, flt)
                res["O"] = b2
                return {"B2": ser_stream(b2), "sg": ser_subst(sg)}
            r, sg, m = disambiguate_and_fuse(sa, sb, flt)
            res["R"] = res["O"] = r
            return {"R": ser_stream(r), "sg": ser_subst(sg), "m": ser_idmap(m)}

        out = _call(thunk)
        ncalls += 1
        # frame observation: read the two operand lists again after the call
        out["A1"] = _snapshot(sa, out)
        out["B1"] = _snapshot(sb, out)
        try:
            ids["r"] = objs.of(res.get("O") or [])
        except TypeError:
            pass
        events.append({"op": kind, "side": op["side"], "X": op["X"], "flt": op["flt"], "out": out,
                       "ids": ids})
        if kind in ("fuse", "daf") and out["r"] == "ok":
            cur = list(res["R"])
    try:
        dot = drive_dot(cur, both=False)
        ncalls += 1
    except Exception as exc:  # noqa: BLE001
        dot = {"r": "err", "edges": [], "edges2": [], "nodes": [], "e": type(exc).__name__}
    return {"id": case["id"], "k": "hist", "init": case["init"], "ev": events, "dot": dot,
            "pred": case.get("pred", "-"), "n": ncalls, "alias": int(alias), "g": case.get("g", "")}


def drive_rw(case):
    stmt = build_stmt(case["s"])
    out = {"r": "ok", "reads": [], "writes": [], "e": ""}
    import warnings
    try:
        with warnings.catch_warnings():
            warnings.simplefilter("ignore")
            reads = stmt.get_read_variables()
            writes = stmt.get_written_variables()
        if not all(isinstance(v, str) for v in list(reads) + list(writes)):
            out.update(r="unser", e=f"{reads!r} {writes!r}"[:120])
        else:
            out.update(reads=sorted(reads), writes=sorted(writes))
    except RecursionError:
        raise
    except Exception as exc:  # noqa: BLE001
        out.update(r="err", e=type(exc).__name__)
    return {"id": case["id"], "k": "rw", "s": case["s"], "out": out,
            "pred": case.get("pred", "-"), "n": 2}


def drive_case(case, extra):
    k = case["k"]
    if k == "hist":
        return drive_hist(case)
    if k == "rw":
        return drive_rw(case)
    if k == "dot":
        return {"id": case["id"], "k": "dot", "S": case["S"],
                "out": drive_dot(build_stream(case["S"]), both=True),
                "pred": case.get("pred", "-"), "n": 2}
    raise ValueError(k)


# ------------------------------------------------------------- classification
def signature(rec, v):
    """Attribution signature of one failing verdict: the clause TLC named plus the
    structural reason TLC computed (why / positions of the names involved).  Nothing
    here decides pass or fail."""
    clause = v["v"]
    if rec["k"] == "rw":
        return {"clause": clause, "pos": sorted(v.get("pos", []))}
    if rec["k"] == "dot":
        return {"clause": clause, "nodes": len(rec["S"])}
    sig = {"clause": clause}
    if v.get("why"):
        sig["why"] = v["why"]
    else:
        ev = rec["ev"][v["ev"] - 1] if 0 < v["ev"] <= len(rec["ev"]) else None
        sig["op"] = ev["op"] if ev else "final-dot"
    return sig


# ------------------------------------------------------------------ model runs
NEG_CONTROLS = [
    # (module, cfg, invariant that must be reported violated)
    ("C20_Model", "C20_Model_bug_NameReuse", "Inv_IdsDistinct"),
    ("C20_Model", "C20_Model_bug_MapNotInjective", "Inv_IdsDistinct"),
    ("C20_Model", "C20_Model_bug_DepsNotRemapped", "Step_DepIso"),
    ("C20_Model", "C20_Model_bug_RenameRhsOnly", "Step_NoSharedIdent"),
    ("C20_Model", "C20_Model_bug_FilterIgnored", "Step_DafClauses"),
]
# the heap model (statement objects, aliased operands): in-place updates must be found by the
# frame observation without aliasing, by the output clauses only WITH aliasing, and by the
# caller's handles; "blind" = output clauses only and no aliasing: must pass (that is the blind
# spot the frame observation and the aliased histories close)
HEAP_CONTROLS = [
    ("C20_Heap", "C20_Heap_bug_CondInPlace_frame", "HInv_FrameClause"),
    ("C20_Heap", "C20_Heap_bug_CondInPlace_value", "HInv_Value"),
    ("C20_Heap", "C20_Heap_bug_CondInPlace_handles", "HInv_HandlesKeep"),
    ("C20_Heap", "C20_Heap_bug_FuseIdsInPlace_frame", "HInv_FrameClause"),
    ("C20_Heap", "C20_Heap_bug_FuseIdsInPlace_value", "HInv_Value"),
    ("C20_Heap", "C20_Heap_blind_CondInPlace", ""),      # "" = must be clean
]
# the kinds of constants: a memoising renamer that answers a later expression with the rewritten
# form of an earlier ==-equal look-alike (C20_Algo.DisImplCachedResult) must be rejected by the
# strict expression clauses on the inputs of mode K; clauses that compare with Python's ==
# (DisClauseLoose) must accept it on EVERY input of mode K although it always changes a kind
KIND_CONTROLS = [
    ("C20_Gen", "C20_Gen_bug_CachedMapper", "Ctl_CachedRefines"),
    ("C20_Gen", "C20_Gen_blind_LooseEq", ""),
]
BLIND_TEXT = {
    "C20_Heap_blind_CondInPlace": "in-place update invisible to the output clauses without aliasing",
    "C20_Gen_blind_LooseEq": "a changed constant kind is invisible to clauses that compare with Python's ==",
}


def run_models(tier):
    """The S-layer model-checked by itself + its negative controls.  Three threads: the two
    model runs side by side, the (short) negative controls one after the other."""
    res = {}

    def one(job):
        module, cfg, expect = job
        return cfg, expect, kit.run_tlc(module, cfg, workers=4 if expect is None else 2,
                                        heap="4g", timeout=7200, env=JVM_ENV)

    def chain(jobs):
        return [one(j) for j in jobs]

    chains = [[("C20_Model", f"C20_Model_{tier}_fuse", None)],
              [("C20_Model", f"C20_Model_{tier}_daf", None)],
              NEG_CONTROLS,
              [("C20_Heap", f"C20_Heap_{tier}", None)] + HEAP_CONTROLS + KIND_CONTROLS]
    with cf.ThreadPoolExecutor(max_workers=len(chains)) as ex:
        for part in ex.map(chain, chains):
            for cfg, expect, r in part:
                res[cfg] = (expect, r)
    return res


def check_models(models, out):
    controls = {}
    for cfg, (expect, r) in models.items():
        if expect is None:
            kit.require_clean(r, f"{cfg}: S-layer invariants over all histories")
            out.add_tlc(r)
            out.extra.setdefault("model_runs", {})[cfg] = {
                "states": r.distinct, "transitions": r.generated, "wall_s": round(r.wall, 1)}
        elif expect == "":
            kit.require_clean(r, f"{cfg}: {BLIND_TEXT.get(cfg, 'blind-spot control')}")
            controls[cfg] = f"passes as required (blind spot: {BLIND_TEXT.get(cfg, '')})"
        else:
            if expect not in r.invariant_violated:
                raise kit.MachineryError(
                    f"negative control {cfg}: expected invariant {expect} to be violated, "
                    f"TLC reported {r.invariant_violated or 'no violation'}")
            controls[cfg] = f"violates {expect} as required"
    out.extra["controls"] = controls


# ------------------------------------------------------------------ TLAPS (supplementary)
def run_tlaps(wd):
    """IdsDistinct under repeated fusion for unbounded streams (spec/C20_FuseProof.tla).
    Supplementary evidence: a missing or failing prover is reported, never a verdict."""
    import shutil
    import subprocess
    exe = shutil.which("tlapm")
    if exe is None:
        return {"status": "tlapm not installed"}
    d = wd / "tlaps"
    d.mkdir(parents=True, exist_ok=True)
    shutil.copy(kit.SPEC / "C20_FuseProof.tla", d / "C20_FuseProof.tla")
    try:
        p = subprocess.run([exe, "--threads", "2", "C20_FuseProof.tla"], cwd=str(d),
                           capture_output=True, text=True, timeout=900)
    except subprocess.TimeoutExpired:
        return {"status": "timeout"}
    finally:
        (d / "C20_FuseProof.tla").unlink(missing_ok=True)
    txt = p.stdout + p.stderr
    m = re.search(r"All (\d+) obligations? proved", txt)
    if m:
        return {"status": "proved", "obligations": int(m.group(1)), "discharged": int(m.group(1))}
    m = re.search(r"(\d+)/(\d+) obligations? failed", txt)
    if m:
        return {"status": "failed", "obligations": int(m.group(2)),
                "discharged": int(m.group(2)) - int(m.group(1))}
    return {"status": "unparsed output", "tail": txt[-300:]}


# ------------------------------------------------------------------------ run
def _judge(recs, wd, prefix="c20", jvms=3):
    shards = kit.write_shards(recs, wd / "trace", prefix, 10000 if prefix[-1] in "GL" else 4000)
    return kit.judge_shards("C20_Judge", "C20_Judge", shards, jvms=jvms, workers=4, env=JVM_ENV)


def _classify(recs, verdicts, out):
    byid = {r["id"]: r for r in recs}
    failing_first = {}
    for v in verdicts:
        if v["v"] == "SKIP":
            out.skipped += 1
            continue
        if v["v"] == "spec-inconsistent":
            raise kit.MachineryError(f"C20_Judge: clauses and state machine disagree on {v}")
        key = v["id"]
        # one failure per record: the earliest failing event explains the later ones
        if key not in failing_first or v["ev"] < failing_first[key]["ev"]:
            failing_first[key] = v
    for rid, v in sorted(failing_first.items()):
        rec = byid[rid]
        case = {k: rec[k] for k in ("k", "init", "s", "S", "alias") if k in rec}
        if rec["k"] == "hist":
            case["ops"] = [{"op": e["op"], "side": e["side"], "X": e["X"], "flt": e["flt"]}
                           for e in rec["ev"]]
        out.fail(signature(rec, v), {"case": case, "verdict": v, "recorded": rec})
    return failing_first


def _drift(recs, failing_first):
    """A-layer prediction (code as transcribed, with Dev_ReadsIgnoreLhs) vs the verdict on
    the real code, for the records that carry a prediction."""
    n = 0
    examples = []
    for r in recs:
        pred = r.get("pred", "-")
        if pred == "-":
            continue
        v = failing_first.get(r["id"])
        got = "OK"
        if v is not None and (r["k"] != "hist" or v["ev"] == 1):
            got = v["v"]
        if (pred == "OK") != (got == "OK") or (pred != "OK" and pred != got):
            n += 1
            if len(examples) < 3:
                examples.append({"id": r["id"], "predicted": pred, "judged": got})
    return n, examples


GROUPS = ("FHR", "D", "G", "L", "P")
ID_STRIDE = 10_000_000


def _pipeline(group, gi, tier, seed, wd):
    """generate -> drive -> judge for one group of generator modes (runs in its own thread,
    so that the three generator JVMs, the drivers and the judges overlap)."""
    t0 = time.time()
    gen = kit.run_tlc("C20_Gen", f"C20_Gen_{tier}_{group}", workers=6, env=JVM_ENV, heap="6g")
    kit.require_clean(gen, f"C20_Gen {group} (TR uniqueness, algorithms refine meaning)")
    cases = [p for p in gen.printed() if isinstance(p, dict) and "k" in p]
    stats = {"gen_states": gen.distinct, "gen_transitions": gen.generated, "simulated": 0}
    if tier == "thorough" and group == "FHR":
        # one worker: with several, every worker replays the same seed
        sim = kit.run_tlc("C20_Gen", "C20_Gen_sim", workers=1, simulate="num=4000",
                          depth=8, seed=seed, env=JVM_ENV)
        if "Error:" in sim.out:
            raise kit.MachineryError("C20_Gen -simulate failed:\n" + sim.out[-2000:])
        seen, extra = set(), []
        for p in sim.printed():
            if isinstance(p, dict) and "k" in p:
                key = json.dumps(p, sort_keys=True)
                if key not in seen:
                    seen.add(key)
                    extra.append(p)
        stats["simulated"] = len(extra)
        cases += extra
    if not cases:
        raise kit.MachineryError(f"C20 generator {group} printed no behaviours")
    for i, c in enumerate(cases):
        c["id"] = gi * ID_STRIDE + i
    t1 = time.time()
    recs = kit.drive("harness.c20", "drive_case", cases, None, procs=8, chunk=250)
    t2 = time.time()
    verdicts, st, tr = _judge(recs, wd, prefix=f"c20{group}")
    t3 = time.time()
    # totality: one TLC state per (record, events consumed); a judge that got stuck or lost a
    # record would generate fewer
    expected = sum(len(r["ev"]) + 1 if r["k"] == "hist" else 1 for r in recs)
    if st != expected:
        raise kit.MachineryError(f"C20_Judge {group}: {st} trace states for {expected} expected "
                                 f"(some record was not judged to its end)")
    kit.log(f"C20[{group}]: {len(cases)} behaviours; gen {t1 - t0:.0f}s drive {t2 - t1:.0f}s "
            f"judge {t3 - t2:.0f}s")
    stats.update(judge_states=st, judge_transitions=tr,
                 wall={"gen": round(t1 - t0, 1), "drive": round(t2 - t1, 1), "judge": round(t3 - t2, 1)})
    return recs, verdicts, stats


def run(tier, seed, out):
    wd = kit.fresh_workdir(PROP)
    recs, verdicts = [], []
    with cf.ThreadPoolExecutor(max_workers=8) as ex:
        fmodels = ex.submit(run_models, tier)
        ftlaps = ex.submit(run_tlaps, wd)
        futs = [ex.submit(_pipeline, g, gi, tier, seed, wd) for gi, g in enumerate(GROUPS)]
        for g, f in zip(GROUPS, futs):
            r, v, stats = f.result()
            recs += r
            verdicts += v
            out.states += stats["gen_states"] + stats["judge_states"]
            out.transitions += stats["gen_transitions"] + stats["judge_transitions"]
            out.extra.setdefault("pipelines", {})[g] = stats
        models = fmodels.result()
        tl = ftlaps.result()
    out.extra["tlaps_IdsDistinct_unbounded"] = tl
    if tl.get("status") == "failed":
        raise kit.MachineryError(f"TLAPS proof C20_FuseProof no longer goes through: {tl}")
    if tl.get("status") == "proved":
        out.extra["obligations"] = tl["obligations"]
        out.extra["discharged"] = tl["discharged"]
    out.evaluations += sum(r["n"] for r in recs)
    check_models(models, out)
    out.traces += len(recs)
    failing_first = _classify(recs, verdicts, out)
    out.drift, drift_examples = _drift(recs, failing_first)
    out.extra["drift_examples"] = drift_examples
    kinds = {}
    for r in recs:
        key = r["k"] if r["k"] != "hist" else "hist:" + "/".join(e["op"] for e in r["ev"])
        kinds[key] = kinds.get(key, 0) + 1
        nontrivial = ((r["k"] == "hist" and any(len(e["X"]) > 0 or e["side"] == "S" for e in r["ev"]))
                      or (r["k"] == "rw" and r["s"]["kind"] != "Nop")
                      or (r["k"] == "dot" and any(s["deps"] for s in r["S"])))
        case = {k: r[k] for k in ("k", "init", "s", "S", "alias") if k in r}
        if r["k"] == "hist":
            case["ops"] = [[e["op"], e["side"], e["X"], e["flt"]] for e in r["ev"]]
        out.note_case(case, nontrivial=nontrivial)
    out.extra["cases_by_kind"] = kinds
    out.extra["lookalike_histories_mode_K"] = sum(1 for r in recs if r.get("g") == "K")
    evs = [e for r in recs if r["k"] == "hist" for e in r["ev"]]
    out.extra["events"] = {
        "total": len(evs),
        "operands_share_statement_objects": sum(1 for e in evs if set(e["ids"]["a"]) & set(e["ids"]["b"])),
        "same_list_as_both_operands": sum(1 for e in evs if e["side"] == "S"),
        "result_holds_operand_objects": sum(1 for e in evs if set(e["ids"]["r"]) & (set(e["ids"]["a"]) | set(e["ids"]["b"]))),
    }
    out.extra["failing_records"] = len(failing_first)
    pick = [next((r for r in recs if r["k"] == k), None) for k in ("hist", "rw", "dot")]
    out.samples = [{k: v for k, v in r.items() if k not in ("n",)} for r in pick if r]
    out.rule = ("TLC enumerates (F) all pairs of id/dependency skeletons over ids {s,s_0,t} with every "
                "dependency DAG, (D) streams of 1-2 statements from a pool of 16 bodies x 4 filters, each "
                "driven through disambiguate_identifiers and disambiguate_and_fuse, (H) histories of "
                "repeated fusion / disambiguate-and-fuse over 4 base streams, (R) statements "
                "lhs x rhs x cond, (G) every labelled DAG with <= 5 nodes, (L) chains of 6-8 nodes with "
                "shortcut edges in 3 list orders, (P) assignments with one identifier per position x "
                "filters admitting any subset, in histories whose operands share statement objects, "
                "(K) second streams holding in two TLC-chosen places (lhs index / rhs / condition of "
                "either statement, or inside one expression) two expressions that are ==-equal and "
                "differ only in the kind of a nested constant (2/2.0, 1/True/1.0), with and without "
                "identifier clashes; expressions are judged as trees that carry every constant's kind; "
                "H histories run twice: base streams built once (objects shared between uses) and "
                "rebuilt per use; after every call the two operand lists are read again and judged "
                "against what was handed in (frame); the thorough tier adds seeded -simulate histories of "
                "length 5; non-trivial = a history with a "
                "non-empty operand, a non-nop statement, a DAG with an edge; distinct by digest of the case")
    out.exhaustive = True   # the -simulate histories of the thorough tier come on top
    out.assumptions += [
        "function names in call position and the written variable itself may or may not be "
        "reported as read (both accepted); streams with duplicate ids, dangling or cyclic "
        "dependencies are outside the quantifier (SKIP)",
        "fresh names are taken from the implementation's log and only checked (freshness, injectivity)",
        "dot text is parsed with a regular expression for 'x -> y' lines and quoted node lines",
    ]


def replay(path, out):
    data = json.loads(open(path).read())
    case = dict(data["detail"]["case"])
    case["id"] = 0
    wd = kit.fresh_workdir(PROP)
    rec = drive_case(case, None)
    out.evaluations += rec["n"]
    verdicts, st, tr = _judge([rec], wd, prefix="replay", jvms=1)
    out.states += st
    out.transitions += tr
    out.traces += 1
    _classify([rec], verdicts, out)
    out.samples = [rec]
    out.rule = "replay of one stored behaviour"
