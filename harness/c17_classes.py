"""C17: user node types and legacy (init-args protocol) subclasses that the
interpreter subprocesses of the C17 check build, pickle and unpickle.  They
live in an importable module because pickle stores classes by reference
(module + qualified name); every worker has /verif on its PYTHONPATH.

Nothing in here judges anything."""
from __future__ import annotations

from dataclasses import field
from typing import ClassVar

import pymbolic.primitives as p
from pymbolic.mapper.persistent_hash import PersistentHashWalkMapper


# ------------------------------------------------------------- dataclass nodes
@p.expr_dataclass()
class C17Pair(p.Expression):
    """user node: two expression children and a string tag between them"""
    left: object
    tag: str
    right: object


@p.expr_dataclass()
class C17Tagged(p.Variable):
    """user node derived from a stock node, adding a string field"""
    tag: str


@p.expr_dataclass()
class C17Unit(p.Expression):
    """user node without any field"""


@p.expr_dataclass(hash=False)
class C17NoHash(p.Expression):
    """user node decorated with hash=False that brings its own, uncached hash
    (the inherited Expression.__hash__ cannot cache on a frozen dataclass)"""
    name: str
    child: object

    def __hash__(self):
        return hash(("C17NoHash", self.name, self.child))


@p.expr_dataclass()
class C17Names(p.Expression):
    """user node with a tuple-of-strings field and a children tuple"""
    names: tuple
    children: tuple


# ------------------------- dataclass nodes using more of the dataclass machinery
# (round 2) field order != positional order of __init__ / __match_args__, fields
# that __init__ does not take, defaults, class variables, a second level of
# inheritance.  What has to survive a pickle is the tuple of ALL fields, under
# their own names.
@p.expr_dataclass()
class C17Kw(p.Variable):
    """keyword-only field declared before a positional one: fields (name, tag,
    index), positional parameters (name, index)"""
    tag: str = field(kw_only=True, default="")
    index: object = 0


@p.expr_dataclass()
class C17KwMid(p.Expression):
    """keyword-only tuple-of-strings field between two positional ones"""
    operation: str
    inames: tuple = field(kw_only=True, default=())
    expr: object = 0


@p.expr_dataclass()
class C17Init(p.Expression):
    """a field __init__ does not take (derived in __post_init__), declared
    between two it does take"""
    name: str
    label: str = field(init=False)
    child: object

    def __post_init__(self):
        object.__setattr__(self, "label", "L:" + self.name)


@p.expr_dataclass()
class C17Dfl(p.Expression):
    """defaults on every field but the first, an init=False field with a
    default and a class variable (not a field)"""
    name: str
    child: object = 0
    tag: str = "dflt"
    count: int = field(init=False, default=7)
    kind: ClassVar[str] = "k"


@p.expr_dataclass()
class C17Kw2(C17Kw):
    """second level: dataclass node derived from a user dataclass node"""
    extra: object = 1


# ---------------------------------- (round 7) the decorator's OPTIONS: init=, hash=
# expr_dataclass(init=..., hash=...) is part of what a user can write.  Every combination that
# gives a usable node type, as a leaf (string fields only) and as an inner node (children):
#   init=False   the class writes its own __init__ (here: other parameter order than the field
#                order, or a normalising one); everything else - cached hash, ==, pickling by
#                field tuple - still comes from the decorator
#   hash=False   the decorator installs no hash: the class brings its own (uncached) one, or it
#                derives from a dataclass node and inherits that node's, or it has neither and
#                ends at the legacy Expression.__hash__
# Bases: Expression itself, a plain (non-dataclass) intermediate class, a stock dataclass node,
# a user dataclass node.  OPT_FIELDS: per class the fields in field order, "s" string / "c" child
# (catalogue record User(cls, s, c): the s fields in order, the c fields in order).
def _set(obj, **kw):
    for k, v in kw.items():
        object.__setattr__(obj, k, v)


@p.expr_dataclass(init=False)
class C17Oi(p.Expression):
    """init=False, directly under Expression; __init__ takes (child, name)"""
    name: str
    child: object

    def __init__(self, child, name="oi"):
        _set(self, name=str(name), child=child)


@p.expr_dataclass(init=False)
class C17OiLeaf(p.Expression):
    """init=False leaf, directly under Expression"""
    name: str
    tag: str

    def __init__(self, name, tag=""):
        _set(self, name=name, tag=tag)


class C17PlainBase(p.Expression):
    """a plain intermediate class (no dataclass, no fields): helper methods only"""

    def describe(self):
        return type(self).__name__


@p.expr_dataclass(init=False)
class C17OiMid(C17PlainBase):
    """init=False under a non-dataclass intermediate class"""
    left: object
    tag: str
    right: object

    def __init__(self, tag, left, right):
        _set(self, left=left, tag=tag, right=right)


@p.expr_dataclass(init=False)
class C17OiVar(p.Variable):
    """init=False leaf under a stock dataclass node"""
    tag: str

    def __init__(self, name, tag="t"):
        _set(self, name=name, tag=tag)


@p.expr_dataclass(init=False)
class C17OiSub(C17Oi):
    """init=False under a user dataclass node that is init=False itself"""
    extra: object

    def __init__(self, child, extra, name="sub"):
        _set(self, name=name, child=child, extra=extra)


@p.expr_dataclass(init=False, hash=False)
class C17OiNh(p.Expression):
    """init=False, hash=False, own uncached hash"""
    name: str
    child: object

    def __init__(self, name, child):
        _set(self, name=name, child=child)

    def __hash__(self):
        return hash(("C17OiNh", self.name, self.child))


@p.expr_dataclass(init=False, hash=False)
class C17OiNhLeaf(p.Expression):
    """init=False, hash=False leaf, own uncached hash"""
    name: str

    def __init__(self, name):
        _set(self, name=name)

    def __hash__(self):
        return hash(("C17OiNhLeaf", self.name))


@p.expr_dataclass(hash=False)
class C17NoHashLeaf(p.Expression):
    """hash=False leaf, own uncached hash (C17NoHash is the inner node of this kind)"""
    name: str

    def __hash__(self):
        return hash(("C17NoHashLeaf", self.name))


@p.expr_dataclass(hash=False)
class C17NhVar(p.Variable):
    """hash=False leaf under a stock dataclass node: inherits that node's hash"""
    tag: str


@p.expr_dataclass(hash=False)
class C17NhPair(C17Pair):
    """hash=False under a user dataclass node: inherits that node's hash"""
    extra: object = 0


@p.expr_dataclass(init=False, hash=False)
class C17OiNhVar(p.Variable):
    """init=False, hash=False leaf under a stock dataclass node"""
    tag: str

    def __init__(self, name, tag="t"):
        _set(self, name=name, tag=tag)


@p.expr_dataclass(init=False, hash=False)
class C17OiNhSub(C17Oi):
    """init=False, hash=False under a user dataclass node"""
    extra: object

    def __init__(self, child, extra, name="sub"):
        _set(self, name=name, child=child, extra=extra)


# hash=False WITHOUT an own __hash__, not below a dataclass node: hash() ends at the legacy
# Expression.__hash__, which caches the value on the (frozen unless -O) instance
@p.expr_dataclass(hash=False)
class C17Lg(p.Expression):
    """hash=False, no own hash, directly under Expression: inner node"""
    name: str
    child: object


@p.expr_dataclass(hash=False)
class C17LgLeaf(p.Expression):
    """hash=False, no own hash, directly under Expression: leaf"""
    name: str


@p.expr_dataclass(hash=False)
class C17LgMid(C17PlainBase):
    """hash=False, no own hash, under a plain intermediate class: inner node"""
    left: object
    tag: str
    right: object


@p.expr_dataclass(hash=False)
class C17LgMidLeaf(C17PlainBase):
    """hash=False, no own hash, under a plain intermediate class: leaf"""
    name: str
    tag: str = "t"


@p.expr_dataclass(init=False, hash=False)
class C17OiLg(p.Expression):
    """init=False, hash=False, no own hash: inner node"""
    name: str
    child: object

    def __init__(self, child, name="lg"):
        _set(self, name=name, child=child)


@p.expr_dataclass(init=False, hash=False)
class C17OiLgLeaf(C17PlainBase):
    """init=False, hash=False, no own hash, under a plain intermediate class: leaf"""
    name: str

    def __init__(self, name):
        _set(self, name=str(name))


OPT_FIELDS = {
    "C17Oi": (("s", "name"), ("c", "child")),
    "C17OiLeaf": (("s", "name"), ("s", "tag")),
    "C17OiMid": (("c", "left"), ("s", "tag"), ("c", "right")),
    "C17OiVar": (("s", "name"), ("s", "tag")),
    "C17OiSub": (("s", "name"), ("c", "child"), ("c", "extra")),
    "C17OiNh": (("s", "name"), ("c", "child")),
    "C17OiNhLeaf": (("s", "name"),),
    "C17NoHashLeaf": (("s", "name"),),
    "C17NhVar": (("s", "name"), ("s", "tag")),
    "C17NhPair": (("c", "left"), ("s", "tag"), ("c", "right"), ("c", "extra")),
    "C17OiNhVar": (("s", "name"), ("s", "tag")),
    "C17OiNhSub": (("s", "name"), ("c", "child"), ("c", "extra")),
    "C17Lg": (("s", "name"), ("c", "child")),
    "C17LgLeaf": (("s", "name"),),
    "C17LgMid": (("c", "left"), ("s", "tag"), ("c", "right")),
    "C17LgMidLeaf": (("s", "name"), ("s", "tag")),
    "C17OiLg": (("s", "name"), ("c", "child")),
    "C17OiLgLeaf": (("s", "name"),),
}
OPT_CLASSES = (C17Oi, C17OiLeaf, C17OiMid, C17OiVar, C17OiSub, C17OiNh, C17OiNhLeaf,
               C17NoHashLeaf, C17NhVar, C17NhPair, C17OiNhVar, C17OiNhSub,
               C17Lg, C17LgLeaf, C17LgMid, C17LgMidLeaf, C17OiLg, C17OiLgLeaf)


def _mk_opt(cls, flds):
    def mk(s, c, omit):
        s, c = list(s), list(c)
        kw = {name: (s if kind == "s" else c).pop(0) for kind, name in flds}
        assert not s and not c, (cls, s, c)
        return cls(**kw)        # by parameter name: a hand-written __init__ has its own order
    return mk


def _mk_kw(cls):
    def mk(s, c, omit):
        pos = list(c)
        while omit and pos and pos[-1] == (0, 1)[len(pos) - 1]:
            pos.pop()              # trailing positional arguments equal to the defaults (0, 1)
        kw = {} if omit and s[1] == "" else {"tag": s[1]}
        return cls(s[0], *pos, **kw)
    return mk


def _mk_kw_mid(s, c, omit):
    pos = [] if omit and c[0] == 0 else [c[0]]
    kw = {} if omit and not s[1:] else {"inames": tuple(s[1:])}
    return C17KwMid(s[0], *pos, **kw)


def _mk_init(s, c, omit):
    return C17Init(s[0], c[0])


def _mk_dfl(s, c, omit):
    pos = [c[0], s[1]]
    if omit and pos[1] == "dflt":
        pos.pop()
        if pos[0] == 0:
            pos.pop()
    return C17Dfl(s[0], *pos)


# how a catalogue record User(cls, s, c) of these classes becomes a constructor call;
# omit: arguments equal to the field defaults are left out
MAKE = {"C17Kw": _mk_kw(C17Kw), "C17Kw2": _mk_kw(C17Kw2), "C17KwMid": _mk_kw_mid,
        "C17Init": _mk_init, "C17Dfl": _mk_dfl}
MAKE.update({c.__name__: _mk_opt(c, OPT_FIELDS[c.__name__]) for c in OPT_CLASSES})


# -------------------------------------------------- legacy init-args subclasses
class C17Old(p.Expression):
    """legacy node: plain subclass of Expression using the init-args protocol"""
    init_arg_names = ("name", "child")

    def __init__(self, name, child):
        self.name = name
        self.child = child

    def __getinitargs__(self):
        return (self.name, self.child)

    mapper_method = "map_c17_old"


class C17OldLeaf(p.Expression):
    """legacy node without init args (like test_pymbolic.OldTimeyExpression)"""
    init_arg_names = ()

    def __getinitargs__(self):
        return ()

    mapper_method = "map_c17_old_leaf"


class C17OldVar(p.Variable):
    """legacy node derived from a stock *dataclass* node without being a
    dataclass itself (the transitional case the generated methods special-case)"""
    init_arg_names = ("name", "extra")

    def __init__(self, name, extra):
        object.__setattr__(self, "name", name)
        object.__setattr__(self, "extra", extra)

    def __getinitargs__(self):
        return (self.name, self.extra)

    mapper_method = "map_c17_old_var"


class C17Fn(p.FunctionSymbol):
    """plain subclass of a stock leaf, no field of its own (the pattern of
    pymbolic.geometric_algebra.primitives.MultiVectorVariable)"""
    mapper_method = "map_c17_fn"


def _ga():
    from pymbolic.geometric_algebra import primitives as gap
    return (gap.MultiVectorVariable, gap.Nabla, gap.NablaComponent, gap.DerivativeSource)


CLASSES = {c.__name__: c for c in
           (C17Pair, C17Tagged, C17Unit, C17NoHash, C17Names, C17Old, C17OldLeaf, C17OldVar,
            C17Kw, C17KwMid, C17Init, C17Dfl, C17Kw2, C17Fn, *OPT_CLASSES, *_ga())}


# ----------------------------------------------------------- persistent hashing
class C17PersistentHash(PersistentHashWalkMapper):
    """The stock persistent-hash walker, taught the user node types the way a
    user has to (visit, hash the string fields, recurse into the children,
    post_visit) - no hash(), no id(), no dict order involved."""

    def _s(self, s):
        self.key_hash.update(repr(s).encode("utf8"))

    def map_c17pair(self, expr):
        if not self.visit(expr):
            return
        self.rec(expr.left)
        self._s(expr.tag)
        self.rec(expr.right)
        self.post_visit(expr)

    def map_c17tagged(self, expr):
        if not self.visit(expr):
            return
        self._s(expr.name)
        self._s(expr.tag)
        self.post_visit(expr)

    def map_c17unit(self, expr):
        if not self.visit(expr):
            return
        self.post_visit(expr)

    def map_c17no_hash(self, expr):
        if not self.visit(expr):
            return
        self._s(expr.name)
        self.rec(expr.child)
        self.post_visit(expr)

    map_c17_old = map_c17no_hash

    def map_c17names(self, expr):
        if not self.visit(expr):
            return
        for n in expr.names:
            self._s(n)
        for c in expr.children:
            self.rec(c)
        self.post_visit(expr)

    map_c17_old_leaf = map_c17unit
    map_c17_fn = map_c17unit

    # stock nodes of pymbolic.geometric_algebra.primitives
    def map_multivector_variable(self, expr):
        if not self.visit(expr):
            return
        self._s(expr.name)
        self.post_visit(expr)

    def map_nabla(self, expr):
        if not self.visit(expr):
            return
        self._s(expr.nabla_id)
        self.post_visit(expr)

    def map_nabla_component(self, expr):
        if not self.visit(expr):
            return
        self._s(expr.ambient_axis)
        self._s(expr.nabla_id)
        self.post_visit(expr)

    def map_derivative_source(self, expr):
        if not self.visit(expr):
            return
        self.rec(expr.operand)
        self._s(expr.nabla_id)
        self.post_visit(expr)

    def map_c17_old_var(self, expr):
        if not self.visit(expr):
            return
        self._s(expr.name)
        self._s(expr.extra)
        self.post_visit(expr)

    # round 2 classes: every field, in field order
    def map_c17kw(self, expr):
        if not self.visit(expr):
            return
        self._s(expr.name)
        self._s(expr.tag)
        self.rec(expr.index)
        self.post_visit(expr)

    def map_c17kw2(self, expr):
        if not self.visit(expr):
            return
        self._s(expr.name)
        self._s(expr.tag)
        self.rec(expr.index)
        self.rec(expr.extra)
        self.post_visit(expr)

    def map_c17kw_mid(self, expr):
        if not self.visit(expr):
            return
        self._s(expr.operation)
        for n in expr.inames:
            self._s(n)
        self.rec(expr.expr)
        self.post_visit(expr)

    def map_c17init(self, expr):
        if not self.visit(expr):
            return
        self._s(expr.name)
        self._s(expr.label)
        self.rec(expr.child)
        self.post_visit(expr)

    def map_c17dfl(self, expr):
        if not self.visit(expr):
            return
        self._s(expr.name)
        self.rec(expr.child)
        self._s(expr.tag)
        self._s(expr.count)
        self.post_visit(expr)


# round 7 classes: every field, in field order (strings hashed, children walked)
def _opt_walker(flds):
    def walk(self, expr):
        if not self.visit(expr):
            return
        for kind, name in flds:
            if kind == "s":
                self._s(getattr(expr, name))
            else:
                self.rec(getattr(expr, name))
        self.post_visit(expr)
    return walk


for _c in OPT_CLASSES:
    setattr(C17PersistentHash, _c.mapper_method, _opt_walker(OPT_FIELDS[_c.__name__]))
