"""C13 - generated Python code computes what the evaluator computes."""
from __future__ import annotations

import ast
import json
import pickle
import warnings

from harness import kit, ser

_ENVS = None


def _envs(extra):
    global _ENVS
    if _ENVS is None:
        _ENVS = [{k: ser.json_to_val(v) for k, v in env.items()} for env in extra["envs"]]
        for e in _ENVS:
            e.setdefault("w", 0)
    return _ENVS


def _vals(fn_per_env, envs):
    return {"r": "vals", "vals": [ser.call_to_json(lambda: fn_per_env(env)) for env in envs]}


def _guard(builder):
    """Run a translation step; on an exception record its class."""
    try:
        with warnings.catch_warnings():
            warnings.simplefilter("ignore")
            return builder(), None
    except RecursionError:
        raise
    except Exception as exc:  # noqa: BLE001
        return None, {"r": "err", "v": ser.exc_to_json(exc)}


def drive_case(case, extra):
    import pymbolic
    from pymbolic.interop.ast import (ASTToPymbolic, to_evaluatable_python_function,
                                      to_python_ast)
    envs = _envs(extra)
    rec = _drive_one(case, ser.from_json(case["e"]), envs)
    # the same tree with every number given as a numpy scalar (coefficients read out of arrays):
    # recorded - and judged like any other record - only where that changes anything
    if '"Const"' in json.dumps(case["e"]):
        alt = _drive_one(case, ser.from_json_numpy(case["e"]), envs)
        # numpy's own arithmetic (fixed width, inf instead of ZeroDivisionError, ...) is not the
        # arithmetic of the model: of the numpy build only the TRANSLATION outcome is judged -
        # a path that translates the plain build must translate this one too
        def broken(r):      # the generated code cannot be built, or dies of a name / syntax error
            if not isinstance(r, dict):
                return None
            if r.get("r") == "err":
                return r
            vals = r.get("vals") or []
            bad = [v for v in vals if v.get("k") == "err" and v.get("e") in ("NameError", "SyntaxError")]
            if vals and len(bad) == len(vals):
                return {"r": "err", "v": bad[0]}
            return None
        raised = []
        for k in ("c", "cp", "a", "fn", "imp", "imps"):
            b = broken(alt.get(k))
            if b is not None and broken(rec.get(k)) is None:
                alt[k] = b
                raised.append(k)
        if raised:
            extra_rec = dict(rec)
            for k in raised:
                extra_rec[k] = alt[k]
            extra_rec["id"] = f"{case['id']}n"
            extra_rec["numpy_constants"] = True
            return [rec, extra_rec]
    return [rec]


def _drive_one(case, e, envs):
    import pymbolic
    from pymbolic.interop.ast import (ASTToPymbolic, to_evaluatable_python_function,
                                      to_python_ast)
    listed = list(case["listed"])
    full = len(listed) == 0
    rec = {"id": case["id"], "e": case["e"], "listed": listed, "full": full, "params": []}

    cexpr, err = _guard(lambda: pymbolic.compile(e, listed))
    if err:
        rec["c"] = rec["cp"] = err
    else:
        code = cexpr._code.__code__
        params = list(code.co_varnames[:code.co_argcount])
        rec["params"] = params
        rec["c"] = _vals(lambda env: cexpr(*[env[p] for p in params]), envs)
        c2, err2 = _guard(lambda: pickle.loads(pickle.dumps(cexpr)))
        rec["cp"] = err2 or _vals(lambda env: c2(*[env[p] for p in params]), envs)
    if full:
        def build_ast():
            body = to_python_ast(e)
            # the mapper leaves expression contexts unset; a consumer compiling the AST
            # has to supply them (ast.unparse does not care)
            for node in ast.walk(body):
                if isinstance(node, (ast.Name, ast.Attribute, ast.Subscript, ast.Tuple, ast.List)) \
                        and not hasattr(node, "ctx"):
                    node.ctx = ast.Load()
            tree = ast.fix_missing_locations(ast.Expression(body=body))
            return compile(tree, "<c13>", "eval")
        codeobj, err = _guard(build_ast)
        rec["a"] = err or _vals(lambda env: eval(codeobj, {"__builtins__": {}}, dict(env)), envs)  # noqa: S307

        def build_fn():
            src = to_evaluatable_python_function(e, "fn")
            ns = {}
            exec(src, ns)  # noqa: S102
            return ns["fn"]
        fn, err = _guard(build_fn)
        if err:
            rec["fn"] = err
        else:
            names = list(fn.__kwdefaults__ or []) or list(fn.__code__.co_varnames[:fn.__code__.co_kwonlyargcount])
            names = list(fn.__code__.co_varnames[:fn.__code__.co_kwonlyargcount])
            rec["fn"] = _vals(lambda env: fn(**{n: env[n] for n in names}), envs)
        rec["imp"] = ser.obj_to_json(lambda: ASTToPymbolic()(to_python_ast(e)))

        # from-AST on the AST *Python* makes of the generated program (the compile path's
        # source text): the only way an AST with comparisons, not, and/or reaches the importer
        def imp_src():
            from pymbolic.compiler import CompileMapper
            from pymbolic.mapper.stringifier import PREC_NONE
            src = CompileMapper()(e, PREC_NONE)
            return ASTToPymbolic()(ast.parse(src, mode="eval").body)
        rec["imps"] = ser.obj_to_json(imp_src)
    return rec


def kinds_in(e, acc=None):
    acc = set() if acc is None else acc
    if isinstance(e, dict):
        if "t" in e:
            acc.add(e["t"])
        for v in e.values():
            kinds_in(v, acc)
    elif isinstance(e, list):
        for v in e:
            kinds_in(v, acc)
    return acc


def has_one_tuple_index(e):
    if isinstance(e, dict):
        if e.get("t") == "Sub" and e["b"].get("t") == "Tup" and len(e["b"]["c"]) == 1:
            return True
        return any(has_one_tuple_index(v) for v in e.values())
    if isinstance(e, list):
        return any(has_one_tuple_index(v) for v in e)
    return False


def classify(out, verdicts, byid):
    known = [json.loads(k) for k in out.known]
    for v in verdicts:
        rec = byid[v["id"]]
        kinds = kinds_in(rec["e"])
        for b in v["bad"]:
            if b["v"]["v"] == "SKIP":
                out.skipped += 1
                continue
            hit = next((k for k in known if k.get("path") == b["path"] and (
                k.get("contains") in kinds
                or (k.get("pattern") == "subscript-by-1-tuple" and has_one_tuple_index(rec["e"])))), None)
            sig = hit or {"path": b["path"], "clause": b["v"]["v"], "root": rec["e"]["t"],
                          "kinds": sorted(kinds)}
            out.fail(sig, {"case": {"id": rec["id"], "e": rec["e"], "listed": rec["listed"]},
                           "recorded": {k: rec.get(k) for k in ("params", "c", "cp", "a", "fn", "imp", "imps")},
                           "env_index": b["v"]["env"]})


def judge(out, recs, wd):
    shards = kit.write_shards(recs, wd / "trace", "c13", 6000)
    verdicts, st, tr = kit.judge_shards("C13_Judge", "C13_Judge", shards)
    out.states += st
    out.transitions += tr
    out.traces += len(recs)
    (wd / "verdicts.json").write_text(json.dumps(verdicts))
    classify(out, verdicts, {r["id"]: r for r in recs})


def _gen(tier):
    gen = kit.run_tlc("C13_Gen", f"C13_Gen_{tier}")
    kit.require_clean(gen, "C13 generation")
    printed = gen.printed()
    envs = [p["envs"] for p in printed if "envs" in p]
    cases = [p for p in printed if "e" in p]
    for i, c in enumerate(cases):
        c["id"] = i
    gen.design = [p for p in printed if "design" in p]
    return gen, envs[0], cases


def run(tier, seed, out):
    wd = kit.fresh_workdir("C13")
    gen, envs, cases = _gen(tier)
    out.add_tlc(gen)
    kit.log(f"C13: TLC generated {len(cases)} (tree, listed variables) cases ({gen.wall:.1f}s); "
            f"{len(gen.design)} trees whose printed source means something else under Python's grammar (model)")
    out.extra["design_level_failures_on_model"] = len(gen.design)
    out.extra["design_level_examples"] = [d["de"] for d in gen.design[:3]]
    recs = [r for rs in kit.drive("harness.c13", "drive_case", cases, {"envs": envs}, chunk=300) for r in rs]
    out.extra["numpy_constant_builds_that_differ"] = sum(1 for r in recs if r.get("numpy_constants"))
    out.evaluations += sum((2 + (4 if r["full"] else 0)) * len(envs) for r in recs)

    def corrupt(r):      # a recorded compiled value off by one / a swapped parameter order
        if r["c"].get("r") == "vals" and r["e"]["t"] in ("Sum", "Product") \
                and r["c"]["vals"][0].get("k") == "int":
            r["c"]["vals"][0]["n"] += 1
            return r
        return None
    out.extra["corrupted_records_rejected"] = kit.corruption_control(
        "C13_Judge", "C13_Judge", recs, corrupt, wd, flagged=lambda v: any(
            b["v"]["v"] not in ("OK", "SKIP") for b in v.get("bad", [])))
    judge(out, recs, wd)
    for r in recs:
        out.note_case([r["e"], r["listed"]], nontrivial=r["e"]["t"] not in ("Var", "Const"))
    out.samples = [{"tree": r["e"], "listed": r["listed"], "params": r["params"], "compile": r["c"]}
                   for r in recs[:: max(1, len(recs) // 3)][:3]]
    out.rule = ("TLC enumerates trees of the Python-expressible fragment (root kind x typed holes) crossed with "
                "listed-variable tuples; every case: compile + pickle round trip in 6 environments and the parameter "
                "order; for the empty listing also to-AST, to-function-source and from-AST")
    out.exhaustive = True
    out.assumptions += ["Eval (PyNum.tla) is the evaluator's meaning (bound to the real evaluator by C02)",
                        "logical operators only over boolean operands (well-typedness)"]


def replay(path, out):
    wd = kit.fresh_workdir("C13")
    d = json.loads(open(path).read())
    gen, envs, _ = _gen("quick")
    case = dict(d["detail"]["case"])
    case["id"] = str(case["id"]).rstrip("n")
    recs = [r for rs in kit.drive("harness.c13", "drive_case", [case], {"envs": envs}) for r in rs]
    judge(out, recs, wd)
