"""C05 driver side: the cached / cache-free mapper pairs, their instrumentation and
the recording of one call history on one mapper instance.

Nothing in here judges anything: handlers log that they ran, results are
serialised, the cache-free counterpart is run afresh for every call and its result
is stored next to the memoizing mapper's.  The verdicts are TLC's (C05_Judge)."""
from __future__ import annotations

import json
import warnings

from harness import ser


# ------------------------------------------------------------ suffix (C05_Fresh!Sfx)
def _val_sfx(v):
    n, d = (int(v), 1) if isinstance(v, (bool, int)) else v.as_integer_ratio()
    letter = {"int": "i", "bool": "b", "float": "f", "Fraction": "F"}.get(type(v).__name__, "?")
    return f"_{letter}{n}" + (f"d{d}" if d != 1 else "")


def suffix(args, kwargs):
    return ("".join(_val_sfx(a) for a in args)
            + "".join(f"_{k}{_val_sfx(v)}" for k, v in sorted(kwargs.items())))


# ------------------------------------------- results with their own equality protocol
class _NoTruth:
    """What an elementwise comparison returns: not a boolean (cf. numpy arrays)."""

    def __bool__(self):
        raise ValueError("the truth value of an elementwise comparison is ambiguous")


class Probe:
    """A mapper RESULT that is a foreign object: it wraps the tuple `payload` and
    answers == / != by its class's protocol.  The recorder reads `payload` and
    `PROTO` only; the protocol is there for whatever the mapper under test does with
    its cached results."""
    __slots__ = ("payload",)
    PROTO = "std"

    def __init__(self, payload):
        self.payload = tuple(payload)

    __hash__ = object.__hash__


class ProbeAllEq(Probe):
    """Claims to be equal to everything (== is True, != is False)."""
    __slots__ = ()
    PROTO = "alleq"

    def __eq__(self, other):
        return True

    def __ne__(self, other):
        return False

    __hash__ = object.__hash__


class ProbeElementwise(Probe):
    """Comparisons are elementwise: the answer has no truth value."""
    __slots__ = ()
    PROTO = "elementwise"

    def __eq__(self, other):
        return _NoTruth()

    def __ne__(self, other):
        return _NoTruth()

    __hash__ = object.__hash__


PROBES = {c.PROTO: c for c in (Probe, ProbeAllEq, ProbeElementwise)}


def arr_json(a):
    """numpy array -> {"rk": "arr", dt, shape, items} (items as exact value records)."""
    items = [ser.val_to_json(x) for x in a.ravel().tolist()]
    if any(i["k"] == "unrep" for i in items):
        return {"rk": "unser"}
    return {"rk": "arr", "dt": a.dtype.kind, "shape": [int(n) for n in a.shape], "items": items}


def env_val(j):
    """environment value record -> Python value (arrays are this property's own)."""
    if j["k"] == "arr":
        import numpy as np
        return np.array([ser.json_to_val(i) for i in j["items"]])
    return ser.json_to_val(j)


# ---------------------------------------- leaves known through a base class (round 4)
# C05_Fresh!DispatchPath "mro": node classes whose own mapper_method no stock mapper
# defines; the mappers serve them with the handler of a base class found through the
# node's MRO.  The Expr.tla record is [t |-> "Var", name, cls]; harness/ser.py (shared)
# knows the stock classes only, so the two directions are wrapped here.
_LEAVES = None


def leaf_classes():
    """cls tag -> node class (one class object per process: node equality compares classes)."""
    global _LEAVES
    if _LEAVES is None:
        import pymbolic.primitives as p
        from pymbolic.geometric_algebra.primitives import MultiVectorVariable

        class C05SubVariable(p.Variable):
            """a user-defined leaf: no mapper has a map_c05_sub_variable"""
            mapper_method = "map_c05_sub_variable"

        _LEAVES = {"sub": C05SubVariable, "mv": MultiVectorVariable}
    return _LEAVES


def _has_cls(j):
    if isinstance(j, dict):
        return "cls" in j and j.get("t") == "Var" or any(_has_cls(v) for v in j.values())
    if isinstance(j, list):
        return any(_has_cls(v) for v in j)
    return False


def tree_from_json(j):
    """ser.from_json, also for trees with [Var, name, cls] leaves."""
    if not _has_cls(j):
        return ser.from_json(j)
    if isinstance(j, dict) and j.get("t") == "Var":
        return leaf_classes()[j["cls"]](j["name"]) if "cls" in j else ser.from_json(j)
    return _rebuild(j, tree_from_json)


def _swap(e, marks):
    """Copy of e in which every leaf of a leaf_classes() class is a stock Variable with a
    marker name (marks: marker name -> the leaf's record)."""
    import dataclasses

    import pymbolic.primitives as p
    for tag, cls in leaf_classes().items():
        if type(e) is cls:
            name = f"\x00{len(marks)}"
            marks[name] = {"t": "Var", "name": e.name, "cls": tag}
            return p.Variable(name)
    if isinstance(e, p.Expression):
        return type(e)(*[_swap(getattr(e, f.name), marks) for f in dataclasses.fields(e)])
    if isinstance(e, (tuple, list)):
        return type(e)(_swap(c, marks) for c in e)
    if isinstance(e, dict) or type(e).__name__ == "immutabledict":
        return type(e)({k: _swap(v, marks) for k, v in e.items()})
    return e


def _unswap(j, marks):
    if isinstance(j, dict):
        if j.get("t") == "Var" and j.get("name") in marks:
            return dict(marks[j["name"]])
        return {k: _unswap(v, marks) for k, v in j.items()}
    if isinstance(j, list):
        return [_unswap(v, marks) for v in j]
    return j


def tree_to_json(obj):
    """ser.to_json, also for trees with leaves of the leaf_classes()."""
    try:
        return ser.to_json(obj)
    except ser.Unserialisable:
        pass
    marks = {}
    with warnings.catch_warnings():
        warnings.simplefilter("ignore")
        twin = _swap(obj, marks)
    if not marks:
        raise ser.Unserialisable(repr(obj)[:200])
    return _unswap(ser.to_json(twin), marks)


# ------------------------------------------------------------------ trace recorder
class Recorder:
    """Interns trees (by their type-exact JSON) and argument tuples, collects events."""

    def __init__(self):
        self.trees, self._tidx = [], {}
        self.args, self._aidx = [], {}
        self.evs = []
        self.stack = []          # (expr object, args, kwargs) of the running handlers
        self.unser = False
        self.sink = None         # when set: a set collecting touched keys instead of events

    def tree(self, obj):
        try:
            j = tree_to_json(obj)
        except ser.Unserialisable:
            self.unser = True
            j = {"t": "Var", "name": "<unserialisable>"}
        s = json.dumps(j, sort_keys=True)
        i = self._tidx.get(s)
        if i is None:
            i = self._tidx[s] = len(self.trees)
            self.trees.append(j)
        return i

    def arg(self, args, kwargs):
        j = {"pos": [ser.val_to_json(a) for a in args],
             "kw": [{"name": k, "v": ser.val_to_json(v)} for k, v in sorted(kwargs.items())]}
        s = json.dumps(j, sort_keys=True)
        i = self._aidx.get(s)
        if i is None:
            i = self._aidx[s] = len(self.args)
            self.args.append(j)
        return i

    def result(self, thunk):
        """Run thunk, return the JSON result record (or error record)."""
        try:
            with warnings.catch_warnings():
                warnings.simplefilter("ignore")
                r = thunk()
        except RecursionError:
            raise
        except Exception as exc:  # noqa: BLE001 - the exception class is the observation
            return {"rk": "err", "v": {"k": "err", "e": type(exc).__name__, "a": ""}}
        return self.res_json(r)

    def res_json(self, r):
        import ast as pyast

        import numpy as np
        import pymbolic.primitives as p
        if r is None:
            return {"rk": "none"}
        if isinstance(r, Probe):
            was = self.unser
            i = self.tree(r.payload)
            if self.unser and not was:
                self.unser = was
                return {"rk": "unser"}
            return {"rk": "obj", "eq": type(r).PROTO, "i": i}
        if isinstance(r, np.ndarray):
            return arr_json(r) if r.dtype.kind in "biuf" else {"rk": "unser"}
        if isinstance(r, str):
            return {"rk": "str", "txt": r}
        if isinstance(r, pyast.AST):
            return {"rk": "str", "txt": pyast.dump(r)}
        if isinstance(r, (set, frozenset)):
            try:
                idx = sorted({self.tree(x) for x in r})
            except Exception:  # noqa: BLE001
                return {"rk": "unser"}
            return {"rk": "unser"} if self.unser else {"rk": "set", "s": idx}
        if isinstance(r, (p.Expression, tuple, list)):
            was = self.unser
            i = self.tree(r)
            if self.unser and not was:
                self.unser = was
                return {"rk": "unser"}
            return {"rk": "tree", "i": i}
        v = ser.val_to_json(r)
        if v["k"] == "unrep":
            return {"rk": "unser"}
        return {"rk": "val", "v": v}


def instrument(cls, names=None):
    """Subclass of cls whose map_* handlers (all, or only `names`) tell the recorder
    in self._c05 that they started / finished.  A handler that merely delegates to
    another handler for the same object (map_variable -> map_algebraic_leaf,
    map_common_subexpression -> ..._uncached) is one handler run."""
    ns = {}
    for name in dir(cls):
        if not name.startswith("map_") or not callable(getattr(cls, name)):
            continue
        if names is not None and name not in names:
            continue
        ns[name] = _wrap(name, cls)
    return type("Instr" + cls.__name__, (cls,), ns)


def _wrap(name, cls):
    orig = getattr(cls, name)

    def handler(self, expr, *args, **kwargs):
        rec = self._c05
        top = rec.stack[-1] if rec.stack else None
        if top is not None and top[0] is expr:
            return orig(self, expr, *args, **kwargs)    # delegation, not a new dispatch
        if rec.sink is not None:
            rec.sink.add((rec.tree(expr), rec.arg(args, kwargs)))
            rec.stack.append((expr,))
            try:
                return orig(self, expr, *args, **kwargs)
            finally:
                rec.stack.pop()
        e, a = rec.tree(expr), rec.arg(args, kwargs)
        rec.evs.append({"ev": "H", "e": e, "a": a})
        rec.stack.append((expr,))
        ok = False
        try:
            res = orig(self, expr, *args, **kwargs)
            ok = True
            return res
        finally:
            rec.stack.pop()
            rec.evs.append({"ev": "X", "e": e, "a": a, "ok": ok})
    handler.__name__ = name
    return handler


# ------------------------------------------------------------------- mapper classes
def _classes():
    import pymbolic.primitives as p
    from pymbolic.mapper import (
        CachedCollector, CachedCombineMapper, CachedIdentityMapper, CachedMapper,
        CachedWalkMapper, Collector, CombineMapper, CSECachingMapperMixin, IdentityMapper,
        Mapper, WalkMapper)
    from pymbolic.mapper.dependency import CachedDependencyMapper, DependencyMapper
    from pymbolic.mapper.evaluator import CachedEvaluationMapper, EvaluationMapper

    class _RenameLeaf:
        def map_variable(self, expr, *args, **kwargs):
            return type(expr)(expr.name + "_r" + suffix(args, kwargs))

    class Renamer(_RenameLeaf, IdentityMapper):
        pass

    class CachedRenamer(_RenameLeaf, CachedIdentityMapper):
        pass

    class CSERenamer(_RenameLeaf, CSECachingMapperMixin, IdentityMapper):
        map_common_subexpression_uncached = IdentityMapper.map_common_subexpression

    class _CollectLeaf:
        def map_variable(self, expr, *args, **kwargs):
            return {type(expr)(expr.name + "_r" + suffix(args, kwargs))}

    class VarCollector(_CollectLeaf, Collector):
        pass

    class CachedVarCollector(_CollectLeaf, CachedCollector):
        pass

    class _CountLeaf:
        def combine(self, values):
            return sum(values)

        def map_variable(self, expr, *args, **kwargs):
            return 1 + len(args) + len(kwargs)

        def map_constant(self, expr, *args, **kwargs):
            return 1

    class LeafCount(_CountLeaf, CombineMapper):
        pass

    class CachedLeafCount(_CountLeaf, CachedCombineMapper):
        pass

    def probe_leaf(proto):
        """Handlers of a combine mapper whose results are Probe objects of the given
        protocol wrapping the flat tuple of the (renamed) leaves below the node."""
        pcls = PROBES[proto]

        class _ProbeLeaf:
            def combine(self, values):
                return pcls([leaf for v in values for leaf in v.payload])

            def map_variable(self, expr, *args, **kwargs):
                return pcls((type(expr)(expr.name + "_r" + suffix(args, kwargs)),))

            def map_constant(self, expr, *args, **kwargs):
                return pcls((expr,))
        return _ProbeLeaf

    def probe_pair(proto):
        leaf = probe_leaf(proto)
        return (type("CachedProbe_" + proto, (leaf, CachedCombineMapper), {}),
                type("Probe_" + proto, (leaf, CombineMapper), {}))

    # round 7: every handler returns the same value that looks like nothing in Python
    NIL_VALUES = {"none": None, "zero": 0, "false": False, "empty": ()}

    def nil_pair(val):
        v = NIL_VALUES[val]

        class _NilLeaf:
            def combine(self, values):
                for _ in values:       # (the children are mapped whatever they return)
                    pass
                return v

            def map_variable(self, expr, *args, **kwargs):
                return v

            def map_constant(self, expr, *args, **kwargs):
                return v
        return (type("CachedNil_" + val, (_NilLeaf, CachedCombineMapper), {}),
                type("Nil_" + val, (_NilLeaf, CombineMapper), {}))

    def bypass_cse(cls):
        """cls without the CSE result cache: the wrapper is recomputed every time."""
        def map_common_subexpression(self, expr, *args, **kwargs):
            return self.map_common_subexpression_uncached(expr, *args, **kwargs)
        return type("Plain" + cls.__name__, (cls,),
                    {"map_common_subexpression": map_common_subexpression})

    def bypass_cache(cls):
        """cls without the CachedMapper look-aside: plain dispatch."""
        return type("Plain" + cls.__name__, (cls,),
                    {"__call__": Mapper.__call__, "rec": Mapper.__call__})

    return locals()


_CL = None


def classes():
    global _CL
    if _CL is None:
        _CL = _classes()
    return _CL


def make_pair(mk, tables):
    """(factory of the memoizing mapper class instrumented, factory of a cache-free
    counterpart instrumented the same way, observation style)."""
    C = classes()
    m = mk["m"]
    only_cse = ["map_common_subexpression_uncached"]
    if m == "ident" and mk["scope"] == "cse":
        return (instrument(C["CSERenamer"], only_cse), (), instrument(C["Renamer"]), ())
    if m == "ident":
        return (instrument(C["CachedRenamer"]), (), instrument(C["Renamer"]), ())
    if m == "pident":      # round 5: the stock pair - leaves come back as the very same objects
        return (instrument(C["CachedIdentityMapper"]), (), instrument(C["IdentityMapper"]), ())
    if m == "coll":
        return (instrument(C["CachedVarCollector"]), (), instrument(C["VarCollector"]), ())
    if m == "count":
        return (instrument(C["CachedLeafCount"]), (), instrument(C["LeafCount"]), ())
    if m == "probe":
        cached, plain = C["probe_pair"](mk["eq"])
        return (instrument(cached), (), instrument(plain), ())
    if m == "nil":         # round 7: results that look like nothing (None, 0, False, ())
        cached, plain = C["nil_pair"](mk["val"])
        return (instrument(cached), (), instrument(plain), ())
    if m == "walk":
        return (instrument(C["CachedWalkMapper"]), (), instrument(C["WalkMapper"]), ())
    if m == "ncount":
        from pymbolic.mapper.analysis import NodeCountMapper
        return (instrument(NodeCountMapper), (), instrument(C["WalkMapper"]), ())
    if m == "dep":
        calls = {"yes": True, "no": False, "descend": "descend_args"}[mk["calls"]]
        ctor = (mk["sub"], mk["look"], calls, mk["cse"])
        plain = C["bypass_cse"](C["DependencyMapper"])
        if mk["scope"] == "all":
            return (instrument(C["CachedDependencyMapper"]), ctor, instrument(plain), ctor)
        return (instrument(C["DependencyMapper"], only_cse), ctor, instrument(plain), ctor)
    if m == "subst":
        from pymbolic.mapper.substitutor import (
            CachedSubstitutionMapper, SubstitutionMapper, make_subst_func)
        sf = make_subst_func({k: ser.from_json(v) for k, v in mk["map"].items()})
        return (instrument(CachedSubstitutionMapper), (sf,),
                instrument(SubstitutionMapper), (sf,))
    if m == "eval":
        env = {k: env_val(v) for k, v in tables["envs"][mk["env"] - 1].items()}
        plain = C["bypass_cse"](C["EvaluationMapper"])
        if mk["scope"] == "all":
            return (instrument(C["CachedEvaluationMapper"]), (env,), instrument(plain), (env,))
        return (instrument(C["EvaluationMapper"], only_cse), (env,), instrument(plain), (env,))
    if m == "flop":
        from pymbolic.mapper.flop_counter import FlopCounter, FlopCounterBase
        return (instrument(FlopCounter), (), instrument(FlopCounterBase), ())
    if m == "str":
        from pymbolic.mapper.stringifier import CachedStringifyMapper, StringifyMapper
        return (instrument(CachedStringifyMapper), (), instrument(StringifyMapper), ())
    if m == "pyast":
        from pymbolic.interop.ast import PymbolicToASTMapper
        return (instrument(PymbolicToASTMapper), (),
                instrument(C["bypass_cache"](PymbolicToASTMapper)), ())
    if m == "fold":
        from pymbolic.mapper.constant_folder import ConstantFoldingMapper
        return (instrument(ConstantFoldingMapper, only_cse), (),
                instrument(C["bypass_cse"](ConstantFoldingMapper)), ())
    if m == "diff":
        import pymbolic.primitives as p
        from pymbolic.mapper.differentiator import DifferentiationMapper
        v = (p.Variable("x"),)
        return (instrument(DifferentiationMapper, only_cse), v,
                instrument(C["bypass_cse"](DifferentiationMapper)), v)
    raise ValueError(f"unknown mapper kind {m!r}")


# ------------------------------------------------------------------------ histories
class Builder:
    """Builds the expression objects of one history.  share: structurally equal
    subtrees become the very same object; otherwise every occurrence is its own
    object (equal but not identical)."""

    def __init__(self, share):
        self.share, self.memo = share, {}

    def build(self, j):
        if not self.share:
            return tree_from_json(j)
        return self._b(j)

    def _b(self, j):
        if not isinstance(j, dict) or "t" not in j:
            return j
        s = json.dumps(j, sort_keys=True)
        if s in self.memo:
            return self.memo[s]
        if j["t"] in ("Var", "Const", "None"):
            obj = tree_from_json(j)
        else:
            obj = _rebuild(j, self._b)
        self.memo[s] = obj
        return obj


def _rebuild(j, sub):
    """ser.from_json for a composite node whose children are built by `sub`."""
    import pymbolic.primitives as p
    from immutabledict import immutabledict
    t = j["t"]
    if t in ser._NARY:
        return getattr(p, ser._NARY[t])(tuple(sub(c) for c in j["c"]))
    if t == "Tup":
        return tuple(sub(c) for c in j["c"])
    if t == "List":
        return [sub(c) for c in j["c"]]
    if t in ser._BIN:
        return getattr(p, ser._BIN[t])(sub(j["a"]), sub(j["b"]))
    if t in ser._UN:
        return getattr(p, ser._UN[t])(sub(j["a"]))
    if t == "Cmp":
        return p.Comparison(sub(j["a"]), j["op"], sub(j["b"]))
    if t == "If":
        return p.If(sub(j["i"]), sub(j["th"]), sub(j["el"]))
    if t == "Call":
        return p.Call(sub(j["f"]), tuple(sub(c) for c in j["c"]))
    if t == "CallKw":
        return p.CallWithKwargs(sub(j["f"]), tuple(sub(c) for c in j["c"]),
                                immutabledict({kw["name"]: sub(kw["e"]) for kw in j["kw"]}))
    if t == "Look":
        return p.Lookup(sub(j["a"]), j["name"])
    if t == "CSE":
        return p.CommonSubexpression(sub(j["a"]), j["prefix"] or None, j["scope"])
    return ser.from_json(j)


def py_args(aj):
    return (tuple(ser.json_to_val(v) for v in aj["pos"]),
            {kw["name"]: ser.json_to_val(kw["v"]) for kw in aj["kw"]})


def record_history(cached_cls, cached_ctor, fresh_cls, fresh_ctor, style, calls, share):
    """Run the calls [(tree json, args json)] on ONE instance of cached_cls, and each
    of them on a fresh instance of fresh_cls.  Returns (recorder, events)."""
    rec = Recorder()
    with warnings.catch_warnings():
        warnings.simplefilter("ignore")
        inst = cached_cls(*cached_ctor)
    inst._c05 = rec
    b = Builder(share)
    for tj, aj in calls:
        expr = b.build(tj)
        args, kwargs = py_args(aj)
        e, a = rec.tree(expr), rec.arg(args, kwargs)
        r = rec.result(lambda: inst(expr, *args, **kwargs))     # noqa: B023
        # the cache-free counterpart, applied afresh; its handler runs go to a sink
        with warnings.catch_warnings():
            warnings.simplefilter("ignore")
            fresh = fresh_cls(*fresh_ctor)
        fresh._c05 = rec
        rec.sink, saved = set(), rec.stack
        rec.stack = []
        try:
            f = rec.result(lambda: fresh(expr, *args, **kwargs))   # noqa: B023
            touched = sorted(rec.sink)
        finally:
            rec.sink, rec.stack = None, saved
        n = len(getattr(inst, "_cache", ()))
        if style == "walk":
            ev = {"ev": "W", "e": e, "a": a, "r": r, "f": f, "n": n,
                  "F": [{"e": t[0], "a": t[1]} for t in touched]}
            cnt = getattr(inst, "count", None)
            ev["cnt"] = cnt if isinstance(cnt, int) else -1
        else:
            ev = {"ev": "R", "e": e, "a": a, "r": r, "f": f, "n": n}
        rec.evs.append(ev)
    return rec
