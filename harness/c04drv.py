"""C04 drivers: materialise TLC-generated class hierarchies / mapper classes / trees,
run the real pymbolic dispatch and stock traversals on them and record what happened.
Nothing in here judges anything: handlers only log and delegate to super()."""
from __future__ import annotations

import warnings


class Tag:
    """An extra argument handed through the mapper: identified by its number."""
    __slots__ = ("n",)

    def __init__(self, n):
        self.n = n

    def __repr__(self):
        return f"Tag({self.n})"

    # two calls made with "the same" extra arguments must look the same to a memoising mapper
    def __eq__(self, other):
        return isinstance(other, Tag) and other.n == self.n

    def __hash__(self):
        return hash(("Tag", self.n))


def tags_of(args):
    return [a.n if isinstance(a, Tag) else -1 for a in args]


def kw_of(kwargs):
    return [{"k": k, "v": (v.n if isinstance(v, Tag) else -1)} for k, v in sorted(kwargs.items())]


def mk_args(ap):
    return tuple(Tag(n) for n in ap["a"]), {e["k"]: Tag(e["v"]) for e in ap["k"]}


def exc_name(exc):
    return type(exc).__name__


# ------------------------------------------------------------------ dispatch half
_HIER_CACHE = {}


def build_hierarchy(base, chain):
    """The chain of user classes, created with type() and (where the case says so)
    decorated with expr_dataclass()."""
    import json
    key = json.dumps([base, chain], sort_keys=True)
    if key in _HIER_CACHE:
        return _HIER_CACHE[key]
    import pymbolic.primitives as p
    parent = getattr(p, base)
    classes = []
    mixin = None
    for c in chain:
        ns = {}
        if c["own"]:
            ns["mapper_method"] = c["own"]
        if c.get("mix"):
            bases = (p.Expression,)
        else:
            bases = (parent,) if mixin is None else (mixin, parent)
        # no dataclass among the ancestors: legacy protocol for undecorated classes
        if not c["deco"] and not any(hasattr(b, "__dataclass_fields__") for b in bases):
            ns["init_arg_names"] = ()
            ns["__getinitargs__"] = lambda self: ()
        cls = type(c["name"], bases, ns)
        if c["deco"]:
            cls = p.expr_dataclass()(cls)
        classes.append(cls)
        if c.get("mix"):
            mixin = cls
        else:
            parent, mixin = cls, None
    if len(_HIER_CACHE) > 2000:
        _HIER_CACHE.clear()
    _HIER_CACHE[key] = classes
    return classes


def instance_of(base, cls):
    import pymbolic.primitives as p
    if base in ("Expression", "AlgebraicLeaf", "Leaf"):
        return cls()
    if base == "Variable":
        return cls("x")
    if base == "Sum":
        return cls((p.Variable("a"), p.Variable("b")))
    if base == "CommonSubexpression":
        return cls(p.Variable("a"))
    if base == "Call":
        return cls(p.Variable("f"), (p.Variable("a"),))
    raise ValueError(base)


def foreign_object(kind):
    import collections
    import decimal
    import enum
    import fractions

    import numpy as np
    if kind == "int":
        return 5
    if kind == "negint":
        return -3
    if kind == "float":
        return 2.5
    if kind == "complex":
        return 1 + 2j
    if kind == "bool":
        return True
    if kind == "npint":
        return np.int64(4)
    if kind == "npfloat":
        return np.float32(1.5)
    if kind == "npbool":
        return np.bool_(False)
    if kind == "npcomplex":
        return np.complex128(1j)
    if kind == "intsub":
        return enum.IntEnum("Color", "RED GREEN").GREEN
    if kind == "nparray":
        return np.array([1.0, 2.0])
    if kind == "nparray0d":
        return np.array(3.0)
    if kind == "nparrayobj":
        import pymbolic.primitives as p
        return np.array([p.Variable("a"), 1], dtype=object)
    if kind == "nparray2d":
        return np.zeros((2, 2))
    if kind == "list":
        return [1, 2]
    if kind == "emptylist":
        return []
    if kind == "listsub":
        return type("MyList", (list,), {})([1])
    if kind == "tuple":
        return (1, 2)
    if kind == "emptytuple":
        return ()
    if kind == "namedtuple":
        return collections.namedtuple("Pt", "x y")(1, 2)
    if kind == "str":
        return "abc"
    if kind == "bytes":
        return b"abc"
    if kind == "none":
        return None
    if kind == "dict":
        return {"a": 1}
    if kind == "set":
        return frozenset({1})
    if kind == "object":
        return object()
    if kind == "function":
        return len
    if kind == "range":
        return range(3)
    if kind == "fraction":
        return fractions.Fraction(1, 2)
    if kind == "decimal":
        return decimal.Decimal("1.5")
    if kind == "mv":
        import pymbolic.primitives as p
        from pymbolic.geometric_algebra import MultiVector, Space
        return MultiVector({1: p.Variable("a"), 2: p.Variable("b")}, Space(3))
    raise ValueError(kind)


_EXC = {}


def exc_class(name):
    """The exception class an outcome names: builtins, pymbolic's unsupported-expression error,
    and two user classes (one derived from AttributeError, one unrelated)."""
    if not _EXC:
        import builtins

        from pymbolic.mapper import UnsupportedExpressionError
        _EXC["UnsupportedExpressionError"] = UnsupportedExpressionError
        _EXC["UserError"] = type("UserError", (Exception,), {})
        _EXC["UserAttributeError"] = type("UserAttributeError", (AttributeError,), {})
        for n in ("AttributeError", "KeyError", "TypeError", "ValueError", "NotImplementedError",
                  "LookupError", "IndexError", "RuntimeError", "StopIteration"):
            _EXC[n] = getattr(builtins, n)
    return _EXC[name]


def make_dispatch_mapper(basecls, user_impl, hookret, log, ocs=None, raised=None):
    """A user mapper class: the handlers in user_impl log and then do what the case's outcome
    table says (return a token, or raise an exception of the named class; the raised object is
    noted in `raised`); every map_* method the base class brings along is wrapped to log and
    delegate to it; the unsupported hook logs and delegates (or, when hookret, does what the
    table says for it)."""
    ns = {}
    ocs = ocs or {}
    raised = raised if raised is not None else []

    def act(name, token):
        what = ocs.get(name, "return")
        if what == "return":
            return token
        exc = exc_class(what)(f"raised inside {name}")
        raised.append(exc)
        raise exc

    def user_handler(name):
        def h(self, expr, *args, **kwargs):
            log.append((name, tags_of(args), kw_of(kwargs)))
            return act(name, "ret:" + name)
        return h

    def delegate(name):
        def h(self, expr, *args, **kwargs):
            log.append((name, tags_of(args), kw_of(kwargs)))
            return getattr(super(cls, self), name)(expr, *args, **kwargs)
        return h

    for name in user_impl:
        ns[name] = user_handler(name)
    stubs = [n for n in dir(basecls) if n.startswith("map_") and n != "map_foreign"]
    for name in stubs:
        if name not in ns:
            ns[name] = delegate(name)

    def hook(self, expr, *args, **kwargs):
        log.append(("handle_unsupported_expression", tags_of(args), kw_of(kwargs)))
        if hookret:
            return act("unsupported", "ret:hook")
        return super(cls, self).handle_unsupported_expression(expr, *args, **kwargs)
    ns["handle_unsupported_expression"] = hook
    cls = type("UserMapper", (basecls,), ns)
    return cls, stubs


def drive_dispatch(case, extra):
    import pymbolic.primitives as p
    from pymbolic.mapper import CachedMapper, Mapper
    with warnings.catch_warnings():
        warnings.simplefilter("ignore")
        rec = {"id": case["id"], "case": case["case"]}
        c = case["case"]
        registered = False
        if c["ty"] == "user":
            classes = build_hierarchy(c["base"], c["chain"])
            obj = instance_of(c["base"], classes[-1])
            # the handler names the classes ended up with (name derivation clause)
            rec["names"] = [getattr(k, "mapper_method", None) or "" for k in classes]
        else:
            obj = foreign_object(c["kind"])
            if c["reg"]:
                p.register_constant_class(type(obj))
                registered = True
            rec["names"] = []
        try:
            obs = []
            stubs = []
            for run in extra["runs"]:
                log, raised = [], []
                base = CachedMapper if run["mode"] in ("ccall", "cfallback") else Mapper
                cls, stubs = make_dispatch_mapper(base, c["impl"], run["hookret"], log,
                                                  c.get("ocs"), raised)
                m = cls()
                a, k = mk_args(run["ap"])
                o = {"first": "", "a": [], "k": [], "res": "", "exc": "", "n": 0, "seq": [],
                     "same": True}
                try:
                    if run["mode"] in ("call", "ccall"):
                        r = m(obj, *a, **k)
                    else:
                        r = m.rec_fallback(obj, *a, **k)
                    o["res"] = r if isinstance(r, str) else "other:" + type(r).__name__
                except RecursionError:
                    raise
                except Exception as exc:  # noqa: BLE001 - the class is the observation
                    o["exc"] = exc_name(exc)
                    # is it the very object one of the user's handlers raised?
                    o["same"] = any(exc is r for r in raised)
                if log:
                    o["first"], o["a"], o["k"] = log[0]
                o["n"] = len(log)
                o["seq"] = [e[0] for e in log[:8]]
                obs.append(o)
            rec["obs"] = obs
            rec["stubs"] = sorted(stubs)
        finally:
            if registered:
                p.unregister_constant_class(type(obj))
        return rec


def drive_dhist(case, extra):
    """A history of dispatches (C04_DHist) on ONE mapper instance per run: the node classes of
    the history are built once, the mapper is instantiated once per run and applied to an
    instance of each class in turn (entry point and extra arguments by position); the log is
    emptied between dispatches.  Recorded per dispatch: as in drive_dispatch."""
    import pymbolic.primitives as p
    from pymbolic.mapper import CachedMapper, Mapper
    with warnings.catch_warnings():
        warnings.simplefilter("ignore")
        c = case["case"]
        rec = {"id": case["id"], "case": c}
        nodes, names = [], []
        for e in c["hist"]:
            if e["chain"]:
                classes = build_hierarchy(e["base"], e["chain"])
                cls = classes[-1]
            else:
                classes, cls = [], getattr(p, e["base"])
            names.append([getattr(k, "mapper_method", None) or "" for k in classes])
            nodes.append(instance_of(e["base"], cls))
        rec["names"] = names
        obs, stubs = [], []
        for run in extra["hruns"]:
            log = []
            base = CachedMapper if run["mapper"] == "cached" else Mapper
            cls, stubs = make_dispatch_mapper(base, c["impl"], run["hookret"], log)
            m = cls()                      # ONE instance for the whole history
            row = []
            for i, node in enumerate(nodes):
                del log[:]
                a, k = mk_args(extra["hargs"][i])
                o = {"first": "", "a": [], "k": [], "res": "", "exc": "", "n": 0, "seq": [],
                     "same": True}
                try:
                    if run["pat"][i] == "call":
                        r = m(node, *a, **k)
                    else:
                        r = m.rec_fallback(node, *a, **k)
                    o["res"] = r if isinstance(r, str) else "other:" + type(r).__name__
                except RecursionError:
                    raise
                except Exception as exc:  # noqa: BLE001 - the class is the observation
                    o["exc"] = exc_name(exc)
                    o["same"] = False
                if log:
                    o["first"], o["a"], o["k"] = log[0]
                o["n"] = len(log)
                o["seq"] = [e[0] for e in log[:8]]
                row.append(o)
            obs.append(row)
        rec["obs"] = obs
        rec["stubs"] = sorted(stubs)
        return rec


# ------------------------------------------------------------------ traversal half
_USER = {}


def user_classes():
    """User node classes for the trees: a Variable subclass and a Sum subclass (reached by
    the stock handlers through the resolution order) and a class nobody handles."""
    if not _USER:
        import pymbolic.primitives as p
        _USER["UVar"] = p.expr_dataclass()(type("MyVar", (p.Variable,), {}))
        _USER["USum"] = p.expr_dataclass()(type("MySum", (p.Sum,), {}))
        _USER["ULeaf"] = p.expr_dataclass()(type("Opaque", (p.Expression,), {}))
    return _USER


_UTAB = {"key": None, "classes": [], "index": {}}


def user_node_classes(table):
    """The user node classes of C04_UCls.tla: class number u (1-based) -> the class at the
    end of its chain.  The first class of a chain declares the expression fields c0.."""
    import json
    key = json.dumps(table, sort_keys=True)
    if _UTAB["key"] == key:
        return _UTAB["classes"]
    import pymbolic.primitives as p
    classes = []
    for uc in table:
        parent = getattr(p, uc["base"])
        for i, c in enumerate(uc["chain"]):
            ns = {}
            if c["own"]:
                ns["mapper_method"] = c["own"]
            if i == 0:
                ns["__annotations__"] = {f"c{j}": p.ExpressionT for j in range(uc["ar"])}
            cls = type(c["name"], (parent,), ns)
            if c["deco"]:
                cls = p.expr_dataclass()(cls)
            parent = cls
        classes.append(parent)
    _UTAB["key"], _UTAB["classes"] = key, classes
    _UTAB["index"] = {cls: i + 1 for i, cls in enumerate(classes)}
    return classes


def user_kids(expr):
    """The expression fields of an instance of a table class (nothing for any other object)."""
    if type(expr) not in _UTAB["index"]:
        return ()
    import dataclasses
    return tuple(getattr(expr, f.name) for f in dataclasses.fields(expr)
                 if f.name[0] == "c" and f.name[1:].isdigit())


_NARY = {"Sum": "Sum", "Product": "Product", "BitOr": "BitwiseOr", "BitXor": "BitwiseXor",
         "BitAnd": "BitwiseAnd", "LogOr": "LogicalOr", "LogAnd": "LogicalAnd",
         "Min": "Min", "Max": "Max", "Slice": "Slice"}
_BIN = {"Quotient": "Quotient", "FloorDiv": "FloorDiv", "Remainder": "Remainder",
        "Power": "Power", "LShift": "LeftShift", "RShift": "RightShift", "Sub": "Subscript"}
_UN = {"BitNot": "BitwiseNot", "LogNot": "LogicalNot"}
_NARY_R = {v: k for k, v in _NARY.items()}
_BIN_R = {v: k for k, v in _BIN.items()}
_UN_R = {v: k for k, v in _UN.items()}


def const_of(v):
    import fractions

    import numpy as np
    k = v["k"]
    if k == "int":
        return int(v["n"])
    if k == "bool":
        return bool(v["n"])
    if k == "flt":
        return v["n"] / v["d"]
    if k == "cplx":
        return complex(v["n"], v["d"])
    if k == "npint":
        return np.int64(v["n"])
    if k == "npflt":
        return np.float64(v["n"] / v["d"])
    if k == "frac":
        return fractions.Fraction(v["n"], v["d"])
    raise ValueError(k)


def build(j, reg):
    """Generated tree (JSON) -> pymbolic object, built with the constructors; reg maps
    id(object) -> occurrence number of the node it was built for."""
    import numpy as np
    import pymbolic.primitives as p
    from immutabledict import immutabledict
    t = j["t"]
    if t == "None":
        return None

    def kids(key="c"):
        return tuple(build(c, reg) for c in j[key])

    if t == "Var":
        o = p.Variable(j["name"])
    elif t == "UVar":
        o = user_classes()["UVar"](j["name"])
    elif t == "ULeaf":
        o = user_classes()["ULeaf"]()
    elif t == "Const":
        o = const_of(j["v"])
    elif t == "Str":
        o = j["s"]
    elif t == "Wild":
        o = getattr(p, j["cls"])(*(() if j["cls"] == "Wildcard" else (j["name"],)))
    elif t == "FunctionSymbol":
        o = p.FunctionSymbol()
    elif t == "NaN":
        o = p.NaN()
    elif t in _NARY:
        o = getattr(p, _NARY[t])(kids())
    elif t == "USum":
        o = user_classes()["USum"](kids())
    elif t == "UNode":
        o = _UTAB["classes"][j["u"] - 1](*kids())
    elif t == "Tup":
        o = kids()
    elif t == "List":
        o = list(kids())
    elif t == "Arr":
        ks = kids()
        o = np.empty(len(ks), dtype=object)
        for i, c in enumerate(ks):
            o[i] = c
    elif t == "MV":
        from pymbolic.geometric_algebra import MultiVector, Space
        o = MultiVector({1 << i: c for i, c in enumerate(kids())}, Space(3))
    elif t in _BIN:
        o = getattr(p, _BIN[t])(build(j["a"], reg), build(j["b"], reg))
    elif t in _UN:
        o = getattr(p, _UN[t])(build(j["a"], reg))
    elif t == "Cmp":
        o = p.Comparison(build(j["a"], reg), j["op"], build(j["b"], reg))
    elif t == "If":
        o = p.If(build(j["i"], reg), build(j["th"], reg), build(j["el"], reg))
    elif t == "Call":
        o = p.Call(build(j["f"], reg), kids())
    elif t == "CallKw":
        o = p.CallWithKwargs(build(j["f"], reg), kids(),
                             immutabledict({kw["name"]: build(kw["e"], reg) for kw in j["kw"]}))
    elif t == "Look":
        o = p.Lookup(build(j["a"], reg), j["name"])
    elif t == "CSE":
        o = p.CommonSubexpression(build(j["a"], reg), j["prefix"] or None, j["scope"])
    elif t == "Subst":
        o = p.Substitution(build(j["a"], reg), tuple(j["names"]), kids())
    elif t == "Deriv":
        o = p.Derivative(build(j["a"], reg), tuple(j["names"]))
    else:
        raise ValueError(f"unknown node kind {t!r}")
    reg[id(o)] = j["id"]
    reg.setdefault("objs", {})[j["id"]] = o      # occurrence number -> the object built for it
    return o


class Unser(Exception):
    pass


def dump(e):
    """pymbolic object -> tree JSON in the shape of C04_Trees.tla, every node with id 0."""
    import fractions

    import numpy as np
    import pymbolic.primitives as p
    from pymbolic.geometric_algebra import MultiVector
    if e is None:
        return {"t": "None"}

    def node(t, **kw):
        d = {"t": t, "id": 0}
        d.update(kw)
        return d

    def const(k, n, d):
        if abs(n) > 10**6 or abs(d) > 10**6:
            raise Unser(repr(e))
        return node("Const", v={"k": k, "n": int(n), "d": int(d)})

    if isinstance(e, (bool, np.bool_)):
        return const("bool", int(bool(e)), 1)
    if isinstance(e, np.integer):
        return const("npint", int(e), 1)
    if isinstance(e, np.floating):
        return const("npflt", *float(e).as_integer_ratio())
    if isinstance(e, int):
        return const("int", e, 1)
    if isinstance(e, float):
        if e != e or e in (float("inf"), float("-inf")):
            raise Unser(repr(e))
        return const("flt", *e.as_integer_ratio())
    if isinstance(e, complex):
        if e.real != int(e.real) or e.imag != int(e.imag):
            raise Unser(repr(e))
        return const("cplx", int(e.real), int(e.imag))
    if isinstance(e, fractions.Fraction):
        return const("frac", e.numerator, e.denominator)
    if isinstance(e, str):
        return node("Str", s=e)
    if isinstance(e, tuple):
        return node("Tup", c=[dump(c) for c in e])
    if isinstance(e, list):
        return node("List", c=[dump(c) for c in e])
    if isinstance(e, np.ndarray):
        if e.ndim != 1:
            raise Unser("array shape")
        return node("Arr", c=[dump(c) for c in e])
    if isinstance(e, MultiVector):
        items = sorted(e.data.items())
        if [b for b, _ in items] != [1 << i for i in range(len(items))]:
            raise Unser("multivector blades")
        return node("MV", c=[dump(c) for _, c in items])
    if not isinstance(e, p.Expression):
        raise Unser(repr(e))
    cls = type(e).__name__
    u = user_classes()
    if type(e) is u["UVar"]:
        return node("UVar", name=e.name)
    if type(e) is u["ULeaf"]:
        return node("ULeaf")
    if type(e) is u["USum"]:
        return node("USum", c=[dump(c) for c in e.children])
    if type(e) in _UTAB["index"]:
        return node("UNode", u=_UTAB["index"][type(e)], c=[dump(c) for c in user_kids(e)])
    if cls == "Variable":
        return node("Var", name=e.name)
    if cls in ("Wildcard", "DotWildcard", "StarWildcard"):
        return node("Wild", cls=cls, name=getattr(e, "name", ""))
    if cls == "FunctionSymbol":
        return node("FunctionSymbol")
    if cls == "NaN":
        return node("NaN")
    if cls in _NARY_R:
        return node(_NARY_R[cls], c=[dump(c) for c in e.children])
    if cls in ("Quotient", "FloorDiv", "Remainder"):
        return node(cls, a=dump(e.numerator), b=dump(e.denominator))
    if cls == "Power":
        return node("Power", a=dump(e.base), b=dump(e.exponent))
    if cls in ("LeftShift", "RightShift"):
        return node(_BIN_R[cls], a=dump(e.shiftee), b=dump(e.shift))
    if cls == "Subscript":
        return node("Sub", a=dump(e.aggregate), b=dump(e.index))
    if cls in _UN_R:
        return node(_UN_R[cls], a=dump(e.child))
    if cls == "Comparison":
        return node("Cmp", a=dump(e.left), op=e.operator, b=dump(e.right))
    if cls == "If":
        return node("If", i=dump(e.condition), th=dump(e.then), el=dump(e.else_))
    if cls == "Call":
        return node("Call", f=dump(e.function), c=[dump(c) for c in e.parameters])
    if cls == "CallWithKwargs":
        return node("CallKw", f=dump(e.function), c=[dump(c) for c in e.parameters],
                    kw=[{"name": k, "e": dump(v)} for k, v in e.kw_parameters.items()])
    if cls == "Lookup":
        return node("Look", a=dump(e.aggregate), name=e.name)
    if cls == "CommonSubexpression":
        return node("CSE", a=dump(e.child), prefix=e.prefix or "", scope=e.scope)
    if cls == "Substitution":
        return node("Subst", a=dump(e.child), names=list(e.variables), c=[dump(c) for c in e.values])
    if cls == "Derivative":
        return node("Deriv", a=dump(e.child), names=list(e.variables))
    raise Unser(f"{cls}: {e!r}")


def safe_dump(e):
    try:
        return dump(e)
    except Unser:
        return {"t": "Unser"}


_FAMS = {}


def _handler_names(base):
    return [n for n in dir(base) if n.startswith("map_") and n != "map_foreign"
            and callable(getattr(base, n))]


def arg_suffix(args, kwargs):
    """What the renaming leaf handler appends to a name: the extra arguments it received."""
    return ("_new" + "".join(f"_{n}" for n in tags_of(args))
            + "".join(f"_{e['k']}{e['v']}" for e in kw_of(kwargs)))


def arg_sig(args, kwargs):
    return (tuple(tags_of(args)), tuple((e["k"], e["v"]) for e in kw_of(kwargs)))


def instrumented(base, kind, impl=()):
    """Subclass of a stock traversal whose every handler logs (event, handler, node
    occurrence, extra arguments) and delegates to the stock implementation.  kind selects
    the user-supplied parts: "walk" (visit/post_visit), "ident" (leaf handler that renames),
    "comb" (combine + leaf handlers), "coll" (leaf handlers only).  The results of the
    user-supplied leaf handlers carry the extra arguments they received.  impl: names of
    handlers for user node classes that the user adds (written the way the stock handlers of
    that traversal are written: every expression field is recursed into)."""
    key = (base, kind, tuple(impl))
    if key in _FAMS:
        return _FAMS[key]
    ns = {}

    def note(self, e, h, expr, args, kwargs, **more):
        d = {"e": e, "n": self._reg.get(id(expr), -1), "a": tags_of(args), "k": kw_of(kwargs)}
        if self._names or (e == "enter" and type(expr) in _UTAB["index"]):
            d["h"] = h
        d.update(more)
        self._log.append(d)

    def wrap(name, body=None):
        def h(self, expr, *args, **kwargs):
            note(self, "enter", name, expr, args, kwargs)
            if body is None:
                r = getattr(super(cls, self), name)(expr, *args, **kwargs)
            else:
                r = body(self, expr, *args, **kwargs)
            note(self, "exit", name, expr, args, kwargs, same=r is expr)
            return r
        return h

    for name in _handler_names(base):
        ns[name] = wrap(name)

    if kind == "walk":
        def visit(self, expr, *args, **kwargs):
            n = self._reg.get(id(expr), -1)
            answer = n not in self._F
            note(self, "visit", "visit", expr, args, kwargs, r=answer)
            return bool(super(cls, self).visit(expr, *args, **kwargs)) and answer

        def post_visit(self, expr, *args, **kwargs):
            note(self, "post", "post_visit", expr, args, kwargs, r=True)
            return super(cls, self).post_visit(expr, *args, **kwargs)
        ns["visit"] = visit
        ns["post_visit"] = post_visit

        def user_node(self, expr, *args, **kwargs):
            if not self.visit(expr, *args, **kwargs):
                return
            for c in user_kids(expr):
                self.rec(c, *args, **kwargs)
            self.post_visit(expr, *args, **kwargs)
    elif kind == "ident":
        def leaf(self, expr, *args, **kwargs):
            if expr.name in self._R:
                return type(expr)(expr.name + arg_suffix(args, kwargs))
            return super(cls, self).map_variable(expr, *args, **kwargs)
        ns["map_variable"] = wrap("map_variable", leaf)

        def user_node(self, expr, *args, **kwargs):
            kids = user_kids(expr)
            new = tuple(self.rec(c, *args, **kwargs) for c in kids)
            if all(a is b for a, b in zip(new, kids)):
                return expr
            return type(expr)(*new)
    elif kind in ("comb", "coll"):
        def leaf(self, expr, *args, **kwargs):
            return {(self._reg.get(id(expr), -1),) + arg_sig(args, kwargs)}
        ns["map_variable"] = wrap("map_variable", leaf)
        ns["map_constant"] = wrap("map_constant", leaf)
        if kind == "comb":
            def combine(self, values):
                res = set()
                for v in values:
                    res |= v
                return res
            ns["combine"] = combine

        def user_node(self, expr, *args, **kwargs):
            return self.combine([self.rec(c, *args, **kwargs) for c in user_kids(expr)])
    for name in impl:
        ns[name] = wrap(name, user_node)
    cls = type("I" + base.__name__, (base,), ns)
    _FAMS[key] = cls
    return cls


def make_traversal(fam, log, reg, F, R, names=False, impl=()):
    import pymbolic.mapper as pm
    table = {
        "walk": (pm.WalkMapper, "walk"), "cwalk": (pm.CachedWalkMapper, "walk"),
        "ident": (pm.IdentityMapper, "ident"), "cident": (pm.CachedIdentityMapper, "ident"),
        "comb": (pm.CombineMapper, "comb"), "ccomb": (pm.CachedCombineMapper, "comb"),
        "coll": (pm.Collector, "coll"), "ccoll": (pm.CachedCollector, "coll"),
        "cbident": (pm.IdentityMapper, "ident"),
    }
    base, kind = table[fam]
    m = instrumented(base, kind, impl)()
    m._log, m._reg, m._F, m._R, m._names = log, reg, F, R, names
    if fam != "cbident":
        return m, m

    def function(expr, mapper, *args, **kwargs):
        n = reg.get(id(expr), -1)
        m._log.append({"e": "cb-enter", "n": n, "a": tags_of(args), "k": kw_of(kwargs)})
        r = mapper.fallback_mapper(expr, *args, **kwargs)
        m._log.append({"e": "cb-exit", "n": n, "a": tags_of(args), "k": kw_of(kwargs),
                       "same": r is expr})
        return r
    return pm.CallbackMapper(function, m), m


def drive_walk(case, extra):
    """One tree x one traversal configuration x a history of calls on ONE mapper instance
    (each call: the node of the tree the mapper is applied to and the extra arguments) ->
    per call the event list, how the call ended, what it returned."""
    with warnings.catch_warnings():
        warnings.simplefilter("ignore")
        cfg = case["cfg"]
        rec = {"id": case["id"], "tree": case["tree"], "cfg": cfg, "calls": []}
        user_node_classes((extra or {}).get("uclasses", []))
        reg = {}
        try:
            expr = build(case["tree"], reg)
            rec["built"] = safe_dump(expr)
        except RecursionError:
            raise
        except Exception as exc:  # noqa: BLE001 - the generated tree cannot be constructed
            rec["built"] = {"t": "Unbuildable", "exc": exc_name(exc)}
            return rec
        objs = reg["objs"]
        fam = cfg["fam"]
        m, inner = make_traversal(fam, [], reg, set(cfg["F"]), set(cfg["R"]),
                                  names=bool(extra and extra.get("names")), impl=tuple(cfg["impl"]))
        for call in case["calls"]:
            c = {"n": call["n"], "a": call["a"], "k": call["k"], "evs": [],
                 "out": {"r": "ok", "exc": ""}}
            rec["calls"].append(c)
            inner._log = c["evs"]
            a, k = mk_args(call)
            target = objs[call["n"]]
            try:
                res = m(target, *a, **k)
            except RecursionError:
                raise
            except Exception as exc:  # noqa: BLE001 - the class is the observation
                c["out"] = {"r": "err", "exc": exc_name(exc)}
                continue
            if fam in ("ident", "cident", "cbident"):
                c["res"] = safe_dump(res)
                try:
                    c["eq"] = 1 if bool(res == target) else 0
                except Exception:  # noqa: BLE001 - == is not defined (arrays inside)
                    c["eq"] = -1
            elif fam in ("comb", "ccomb", "coll", "ccoll"):
                ok = isinstance(res, (set, frozenset)) and all(
                    isinstance(x, tuple) and len(x) == 3 and isinstance(x[0], int) for x in res)
                c["resok"] = bool(ok)
                c["res"] = ([{"n": n, "a": list(aa), "k": [{"k": kk, "v": vv} for kk, vv in ks]}
                             for n, aa, ks in sorted(res)] if ok else [])
        return rec
