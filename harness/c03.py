"""C03 - operator overloading builds trees that mean what the operators mean."""
from __future__ import annotations

import json
import operator as op

from harness import kit, ser

_BIN = {"+": op.add, "-": op.sub, "*": op.mul, "/": op.truediv, "//": op.floordiv,
        "%": op.mod, "**": op.pow, "<<": op.lshift, ">>": op.rshift, "&": op.and_,
        "|": op.or_, "^": op.xor}
_IBIN = {"+": op.iadd, "-": op.isub, "*": op.imul, "/": op.itruediv, "//": op.ifloordiv,
         "%": op.imod, "**": op.ipow, "<<": op.ilshift, ">>": op.irshift, "&": op.iand,
         "|": op.ior, "^": op.ixor}
_ORD = {"<": op.lt, "<=": op.le, ">": op.gt, ">=": op.ge}
_CMPM = {"==": "eq", "!=": "ne", "<": "lt", "<=": "le", ">": "gt", ">=": "ge"}


def execute(p):
    """Run one operator program with Python's real operators on real objects."""
    t = p["t"]
    if t == "leaf":
        return ser.from_json(p["e"])
    if t == "bin":
        return _BIN[p["op"]](execute(p["l"]), execute(p["r"]))
    if t == "aug":      # a = l; b = a; a op= r; result a ("target") or b ("alias")
        a = execute(p["l"])
        b = a
        a = _IBIN[p["op"]](a, execute(p["r"]))
        return a if p["obs"] == "target" else b
    if t == "un":
        a = execute(p["a"])
        return {"-": op.neg, "+": op.pos, "~": op.invert,
                "not_": lambda v: v.not_()}[p["op"]](a)
    if t == "cmp":
        l, r = execute(p["l"]), execute(p["r"])
        return getattr(l, _CMPM[p["op"]])(r)
    if t == "log":
        l, r = execute(p["l"]), execute(p["r"])
        return getattr(l, p["op"] + "_")(r)
    if t == "ord":
        return _ORD[p["op"]](execute(p["l"]), execute(p["r"]))
    if t == "call":
        f = execute(p["f"])
        args = [execute(a) for a in p["args"]]
        kw = {k["name"]: execute(k["e"]) for k in p["kw"]}
        return f(*args, **kw)
    if t == "idx":
        a, i = execute(p["a"]), execute(p["i"])
        return a[i]
    if t == "attr":
        return execute(p["a"]).attr(p["name"])
    if t == "attra":
        return getattr(execute(p["a"]).a, p["name"])
    raise ValueError(t)


def _twin(p):
    """The program with every integer constant replaced by the equal float and every
    integral float by the equal integer; None if it has no such constant."""
    changed = []

    def go(j):
        if isinstance(j, list):
            return [go(i) for i in j]
        if not isinstance(j, dict):
            return j
        if j.get("t") == "Const" and isinstance(j.get("v"), dict):
            v = j["v"]
            if v.get("k") == "int":
                changed.append(1)
                return {**j, "v": {"k": "flt", "n": v["n"], "d": 1}}
            if v.get("k") == "flt" and v.get("d") == 1:
                changed.append(1)
                return {**j, "v": {"k": "int", "n": v["n"]}}
        return {k: go(x) for k, x in j.items()}
    q = go(p)
    return q if changed else None


_ENVS = None


def _envs(extra):
    global _ENVS
    if _ENVS is None:
        _ENVS = [{k: ser.json_to_val(v) for k, v in env.items()} for env in extra["envs"]]
    return _ENVS


def drive_case(case, extra):
    """Build the object with the real operators; then let the real evaluator say what the
    built object means in every environment of the box (the tree's meaning is also computed
    by the model - both must be the plain Python value of the program)."""
    from pymbolic.mapper.evaluator import EvaluationMapper
    from pymbolic.primitives import Expression
    # history: the same program over numbers that are == but of the other type (2 <-> 2.0) is run
    # first in this process and thrown away - the tree built afterwards depends on the
    # computation written, not on what was built before it (C03_Hist.tla)
    twin = _twin(case["p"])
    if twin is not None:
        ser.obj_to_json(lambda: execute(twin))
    built = []
    res = ser.obj_to_json(lambda: built.append(execute(case["p"])) or built[0])
    ev = []
    if res["r"] == "ok" and isinstance(built[0], Expression):
        ev = [ser.call_to_json(lambda: EvaluationMapper(env)(built[0])) for env in _envs(extra)]  # noqa: B023
    return {"id": case["id"], "p": case["p"], "res": res, "ev": ev}


def classify(out, verdicts, byid):
    known_pats = [json.loads(k)["pattern"] for k in out.known if "pattern" in json.loads(k)]
    refused = 0
    for v in verdicts:
        if v["v"] == "SKIP":
            out.skipped += 1
        elif v["v"] == "DRIFT":
            out.drift += 1
        elif v["v"] == "REFUSED":
            refused += 1
        else:
            rec = byid[v["id"]]
            pats = [list(x) for x in v.get("pats", [])]
            hit = next((kp for kp in known_pats if kp in pats), None)
            if hit is not None:
                sig = {"pattern": hit}
            else:
                sig = {"clause": v["v"], "patterns": sorted(pats), "root": rec["p"]["t"]}
            out.fail(sig, {"case": {"id": rec["id"], "p": rec["p"]}, "recorded": rec["res"],
                           "env_index": v.get("env")})
    out.extra["refusals_tolerated"] = refused


def judge(out, recs, wd):
    shards = kit.write_shards(recs, wd / "trace", "c03", 12000)
    verdicts, st, tr = kit.judge_shards("C03_Judge", "C03_Judge", shards)
    out.states += st
    out.transitions += tr
    out.traces += len(recs)
    classify(out, verdicts, {r["id"]: r for r in recs})


def run(tier, seed, out):
    wd = kit.fresh_workdir("C03")
    gen = kit.run_tlc("C03_Gen", f"C03_Gen_{tier}")
    kit.require_clean(gen, "C03 generation / model check")
    out.add_tlc(gen)
    # S-layer: operator applications as a history in one process (C03_Hist): history-free
    # without state and with a table keyed by the trees themselves; refuted for a table keyed by ==
    for cfg in ("C03_Hist", "C03_Hist_strict"):
        h = kit.run_tlc("C03_Hist", cfg, workers=2, coverage=False)
        kit.require_clean(h, cfg)
        out.add_tlc(h)
    hneg = kit.run_tlc("C03_Hist", "C03_Hist_neg", workers=2, coverage=False)
    if "HistoryFree" not in hneg.invariant_violated:
        raise kit.MachineryError("negative control C03_Hist_neg: TLC did not report HistoryFree violated")
    out.extra["negative_controls"] = {"C03_Hist_neg": "HistoryFree"}
    printed = gen.printed()
    cases = [p for p in printed if "p" in p]
    envs = [p["envs"] for p in printed if "envs" in p]
    if len(envs) != 1:
        raise kit.MachineryError("C03 generator printed no environments")
    design = [p for p in printed if "design" in p]
    for i, c in enumerate(cases):
        c["id"] = i
    kit.log(f"C03: TLC generated {len(cases)} operator programs ({gen.wall:.1f}s); "
            f"{len(design)} programs fail on the model (design-level classes)")
    recs = kit.drive("harness.c03", "drive_case", cases, {"envs": envs[0]}, chunk=500)
    out.evaluations += len(recs)

    def corrupt(r):      # the built object replaced by "object + 1"
        if r["res"].get("r") == "ok" and r["p"]["t"] == "bin" and r["p"]["op"] in ("+", "*") \
                and r["res"]["e"]["t"] in ("Sum", "Product") \
                and r["p"]["l"]["t"] == "leaf" and r["p"]["r"]["t"] == "leaf" \
                and r["p"]["l"]["e"]["t"] == "Var" and r["p"]["l"]["e"]["name"] in ("x", "y", "z"):
            r["res"]["e"] = {"t": "Sum", "c": [r["res"]["e"], {"t": "Const", "v": {"k": "int", "n": 1, "d": 1}}]}
            return r
        return None
    out.extra["corrupted_records_rejected"] = kit.corruption_control(
        "C03_Judge", "C03_Judge", recs, corrupt, wd,
        flagged=lambda v: v.get("v") not in ("SKIP", "DRIFT", "REFUSED", "OK"))
    judge(out, recs, wd)
    for r in recs:
        out.note_case(r["p"], nontrivial=r["p"]["t"] != "leaf")
    out.samples = [{"program": r["p"], "built": r["res"]} for r in recs[:: max(1, len(recs) // 3)][:3]]
    out.extra["design_level_failures_on_model"] = len(design)
    out.rule = ("TLC enumerates operator programs: depth 1 = every operator x (expression kind, any kind) "
                "and (number kind, expression kind); depth 2 = nested operator pairs over reduced kinds; "
                "plus unary, constructor-method, ordering, call/subscript/attribute programs; "
                "each judged in 7 environments; non-trivial = not a bare leaf")
    out.exhaustive = True
    out.assumptions += ["CPython numeric semantics as in PyNum.tla", "the box of 9 environments (incl. all-equal operands and non-commuting words)",
                        "construction-time refusals for boolean operands are tolerated (documented type guard)"]


def replay(path, out):
    wd = kit.fresh_workdir("C03")
    d = json.loads(open(path).read())
    case = d["detail"]["case"]
    gen = kit.run_tlc("C03_Gen", "C03_Gen_quick")
    envs = [p["envs"] for p in gen.printed() if "envs" in p]
    recs = kit.drive("harness.c03", "drive_case", [case], {"envs": envs[0]})
    judge(out, recs, wd)
