"""C16, matchpy bridge part (and the serialiser extension for wildcards).
See harness/c16.py for the pipeline.  Nothing in here judges anything."""
from __future__ import annotations

import json

from harness import kit, ser


def to_json(e):
    """ser.to_json extended with the wildcard leaves
    {"t": "Wild", "cls": "DotWildcard" | "StarWildcard", "name": ..}
    (ser.to_json is closed under recursion, so the node kinds C16 uses are repeated here)."""
    import pymbolic.primitives as p
    if isinstance(e, (p.DotWildcard, p.StarWildcard)):
        return {"t": "Wild", "cls": type(e).__name__, "name": e.name}
    if isinstance(e, tuple):
        return {"t": "Tup", "c": [to_json(c) for c in e]}
    if isinstance(e, list):
        return {"t": "List", "c": [to_json(c) for c in e]}
    if not isinstance(e, p.Expression):
        return ser.to_json(e)
    cls = type(e).__name__
    if cls in ser._NARY_R:
        return {"t": ser._NARY_R[cls], "c": [to_json(c) for c in e.children]}
    if cls in ("Quotient", "FloorDiv", "Remainder"):
        return {"t": cls, "a": to_json(e.numerator), "b": to_json(e.denominator)}
    if cls == "Power":
        return {"t": "Power", "a": to_json(e.base), "b": to_json(e.exponent)}
    if cls in ("LeftShift", "RightShift"):
        return {"t": ser._BIN_R[cls], "a": to_json(e.shiftee), "b": to_json(e.shift)}
    if cls == "Subscript":
        return {"t": "Sub", "a": to_json(e.aggregate), "b": to_json(e.index)}
    if cls in ser._UN_R:
        return {"t": ser._UN_R[cls], "a": to_json(e.child)}
    if cls == "Comparison":
        return {"t": "Cmp", "a": to_json(e.left), "op": e.operator, "b": to_json(e.right)}
    if cls == "If":
        return {"t": "If", "i": to_json(e.condition), "th": to_json(e.then),
                "el": to_json(e.else_)}
    if cls == "Call":
        return {"t": "Call", "f": to_json(e.function),
                "c": [to_json(c) for c in e.parameters]}
    if cls == "Lookup":
        return {"t": "Look", "a": to_json(e.aggregate), "name": e.name}
    return ser.to_json(e)     # Variable and everything without children of interest


# ------------------------------------------------------------------ driver
NONE = {"t": "None"}


def _bindings(subst):
    """A matchpy substitution as it reaches the user (values already converted back to
    pymbolic): name -> expression | tuple | Multiset."""
    import multiset
    res = []
    for name, val in subst.items():
        if isinstance(val, multiset.Multiset):
            items = []
            for el, cnt in val.items():
                items.extend([to_json(el)] * cnt)
            res.append({"n": str(name), "kind": "bag", "items": items})
        elif isinstance(val, tuple):
            res.append({"n": str(name), "kind": "seq", "items": [to_json(el) for el in val]})
        else:
            res.append({"n": str(name), "kind": "expr", "items": [to_json(val)]})
    return res


def _attempt(thunk):
    """(exception class name or "", value)"""
    import warnings
    try:
        with warnings.catch_warnings():
            warnings.simplefilter("ignore")
            return "", thunk()
    except RecursionError:
        raise
    except ser.Unserialisable:
        return "Unserialisable", None
    except Exception as exc:  # noqa: BLE001 - the exception class is the observation
        return type(exc).__name__, None


class _TooManyCalls(Exception):
    pass


def drive_mcase(case, extra):
    import pymbolic.interop.matchpy as m
    import pymbolic.primitives as prim
    from pymbolic.interop.matchpy.tofrom import (FromMatchpyExpressionMapper,
                                                 ToMatchpyExpressionMapper)
    subj = ser.from_json(case["s"])
    out = {"id": case["id"], "kind": case["kind"], "s": case["s"], "p": case["p"],
           "c": case["c"]}
    exc, back = _attempt(lambda: to_json(FromMatchpyExpressionMapper()(
        ToMatchpyExpressionMapper()(subj))))
    out["rt"] = {"exc": exc, "e": back if not exc else NONE}
    if case["kind"] != "mp":
        return out
    pat = ser.from_json(case["p"])
    exc, subs = _attempt(lambda: [_bindings(sb) for sb in m.match(subj, pat)])
    out["match"] = {"exc": exc, "subs": subs if not exc else []}
    exc, hits = _attempt(lambda: [{"sub": to_json(sub), "b": _bindings(sb)}
                                  for sb, sub in m.match_anywhere(subj, pat)])
    out["anyw"] = {"exc": exc, "hits": hits if not exc else []}
    # replace_all with a logging replacement callback.  The callback's return value is fixed
    # by convention with the spec (C16_Matchpy.ReplTerm): mode "marker" -> R<k>,
    # mode "wrap" -> R<k> + q  (R<k> * q when the pattern is a sum)
    for field, mode in (("rep", "marker"), ("rep2", "wrap")):
        calls = []

        def replacement(calls=calls, mode=mode, **kw):
            if len(calls) >= 12:
                raise _TooManyCalls()
            calls.append(_bindings(kw))
            marker = prim.Variable(f"R{len(calls)}")
            if mode == "marker":
                return marker
            cls = prim.Product if case["p"]["t"] == "Sum" else prim.Sum
            return cls((marker, prim.Variable("q")))

        exc, res = _attempt(lambda: to_json(m.replace_all(
            subj, [m.make_replacement_rule(pat, replacement)])))
        out[field] = {"exc": exc, "calls": calls, "e": res if not exc else NONE}
    return out


# ---------------------------------------------------------------- pipeline
JENV = {"JAVA_TOOL_OPTIONS": "-Xss64m"}


def tlc_judge_matchpy(recs, wd, label):
    shards = kit.write_shards(recs, wd / "trace", label, 4000)
    return kit.judge_shards("C16_MJudge", "C16_MJudge", shards, env=JENV)


def judge_matchpy(recs, wd, out, label, judged=None):
    verdicts, st, tr = judged or tlc_judge_matchpy(recs, wd, label)
    out.states += st
    out.transitions += tr
    out.traces += len(recs)
    if len(verdicts) != len(recs):
        raise kit.MachineryError(
            f"C16 matchpy judge returned {len(verdicts)} verdicts for {len(recs)} records")
    byid = {r["id"]: r for r in recs}
    stats = out.extra.setdefault("matchpy", {
        "cases": 0, "round_trips": 0, "match_substitutions": 0, "anywhere_hits": 0,
        "replace_histories": 0, "replace_calls_validated": 0,
        "refused_operations": 0, "refusals_with_star_wildcard": 0,
        "refusals_unsupported_kind": 0, "refusals_other": 0})
    for v in verdicts:
        rec = byid[v["id"]]
        stats["cases"] += 1
        stats["round_trips"] += 1
        if rec["kind"] == "mp":
            stats["match_substitutions"] += len(rec["match"]["subs"])
            stats["anywhere_hits"] += len(rec["anyw"]["hits"])
            for fld in ("rep", "rep2"):
                stats["replace_histories"] += 0 if rec[fld]["exc"] else 1
                stats["replace_calls_validated"] += 0 if rec[fld]["exc"] else len(rec[fld]["calls"])
        if v["nskip"]:
            stats["refused_operations"] += v["nskip"]
        if v["ra"]:
            stats["replace_raised_in_argument_list"] = \
                stats.get("replace_raised_in_argument_list", 0) + 1
        if v["v"] == "OK":
            continue
        if v["v"].startswith("SKIP"):
            out.skipped += 1
            if v["ra"]:
                pass        # counted above: crash variant of finding C16-F2
            elif v["star"]:
                stats["refusals_with_star_wildcard"] += 1
            elif v["op"] == "rt":
                stats["refusals_unsupported_kind"] += 1
            else:
                stats["refusals_other"] += 1
                out.drift += 1
                if len(stats.setdefault("refusal_examples", [])) < 5:
                    stats["refusal_examples"].append({k: rec.get(k) for k in
                                                      ("s", "p", "match", "anyw", "rep", "rep2")})
            continue
        # both replace_all drives (marker / wrap callback) are the same operation
        op = "replace" if v["op"] == "replace_wrap" else v["op"]
        sig = {"part": "matchpy", "clause": op + "_" + v["v"], "feat": v["feat"]}
        out.fail(sig, {"part": "matchpy",
                       "case": {k: rec[k] for k in ("kind", "s", "p", "c")},
                       "recorded": {k: rec.get(k) for k in ("rt", "match", "anyw", "rep", "rep2")},
                       "verdict": v})
    return verdicts


def generate(tier, out):
    """Stage 1 for the matchpy part (runs concurrently with the unifier's)."""
    gen = kit.run_tlc("C16_MGen", f"C16_MGen_{tier}", env=JENV, workers=6)
    kit.require_clean(gen, "C16 matchpy model check (instantiation law / rewriting machine)")
    cases = [p for p in gen.printed() if "kind" in p and "s" in p]
    if not cases:
        raise kit.MachineryError("C16 matchpy generator printed no cases")
    for i, c in enumerate(cases):
        c["id"] = i
    kit.log(f"C16: TLC generated {len(cases)} matchpy cases ({gen.distinct} states, {gen.wall:.1f}s)")
    return gen, cases


def negative_control():
    neg = kit.run_tlc("C16_MGen", "C16_MGen_bug_noreplace", workers=2, heap="2g", env=JENV)
    if "RewriteMachineOK" not in neg.invariant_violated:
        raise kit.MachineryError("negative control C16_MGen_bug_noreplace: TLC did not report "
                                 "RewriteMachineOK violated")
    return neg


def drive_all(cases, out):
    recs = kit.drive("harness.c16m", "drive_mcase", cases, None, chunk=100)
    out.evaluations += sum(1 if r["kind"] == "rt" else 5 for r in recs)
    return recs


def finish_part(recs, out):
    for r in recs:
        out.note_case([r["s"], r["p"]], nontrivial=r["s"]["t"] not in ("Var", "Const"))
    mp = [r for r in recs if r["kind"] == "mp" and r["c"] == "id" and r["rep"]["calls"]
          and not r["rep"]["exc"] and r["match"]["subs"]]
    if mp:
        r = mp[len(mp) // 2]
        out.samples.append({"subject": r["s"], "wildcard_pattern": r["p"],
                            "match": r["match"], "replace_all_history": r["rep"]})


def replay_case(detail, out, wd):
    case = dict(detail["case"])
    case["id"] = 0
    recs = kit.drive("harness.c16m", "drive_mcase", [case], None)
    out.evaluations += 1
    vs = judge_matchpy(recs, wd, out, "replaym")
    kit.log(f"C16 replay: recorded {json.dumps(recs[0])[:3000]}")
    kit.log(f"C16 replay: verdict {vs}")
