"""C19 - exact-arithmetic helpers and number types compute what they claim.

Pipeline: C19_Algo (TLC: loops as state machines + negative controls), C19_Gen (TLC:
enumerate the cases, check every implementation-shaped algorithm against the meaning)
-> drive (the real integer_power / extended_euclidean / gcd / lcm - through every entry point:
pymbolic.algorithm and the traits objects - / fft / ifft / sym_fft / Polynomial operators /
mappers / quotient) -> C19_Judge (TLC judges every recorded
observation).  Python only builds objects, calls functions and serialises."""
from __future__ import annotations

import concurrent.futures as cf
import json
import random
import signal
import time

from harness import kit, ser

# Limits are in *CPU seconds of the worker process* (ITIMER_VIRTUAL), so that a loaded
# machine cannot turn a slow call into a "timeout": normal calls need well under 2 s of CPU
# (the largest symbolic FFT of the thorough tier), a call that exceeds the limit is looping.
CPU_LIMIT_S = 20.0
CPU_LIMIT_LOOPY_S = 0.25     # extended_euclidean on polynomials (microseconds when it returns)


class _Timeout(BaseException):
    pass


def _alarm(_sig, _frm):
    raise _Timeout()


def _timed(thunk, limit=None):
    """Run thunk() under a CPU-time limit.  ("ok", value) | ("err", class name) |
    ("timeout", "")"""
    import warnings
    old = signal.signal(signal.SIGVTALRM, _alarm)
    signal.setitimer(signal.ITIMER_VIRTUAL, limit or CPU_LIMIT_S)
    try:
        with warnings.catch_warnings():
            warnings.simplefilter("ignore")
            return "ok", thunk()
    except _Timeout:
        return "timeout", ""
    except RecursionError:
        return "err", "RecursionError"
    except Exception as exc:  # noqa: BLE001 - the exception class *is* the observation
        return "err", type(exc).__name__
    finally:
        signal.setitimer(signal.ITIMER_VIRTUAL, 0)
        signal.signal(signal.SIGVTALRM, old)


def _vals(thunk, k):
    """Observation of a call returning k numbers (a k-tuple, or a number when k == 1)."""
    st, r = _timed(thunk)
    if st != "ok":
        return {"r": st, "v": [], "e": r}
    if k == 1:
        r = (r,)
    if not isinstance(r, tuple) or len(r) != k:
        return {"r": "other", "v": [], "e": type(r).__name__}
    return {"r": "ok", "v": [ser.val_to_json(x) for x in r], "e": ""}


# ------------------------------------------------------------------ (a) pow
def _drive_pow(c):
    from pymbolic.algorithm import integer_power
    from harness.c19_shim import Mat2, Word, ZMod
    mon, m = c["mon"], c["m"]
    if mon == "zm":
        x, one = ZMod(m, c["x"][0]), ZMod(m, 1)
    elif mon == "mat":
        x, one = Mat2(m, c["x"]), Mat2(m, (1, 0, 0, 1))
    elif mon == "word":
        x, one = Word(c["x"]), Word(())
    elif mon == "rat":
        from fractions import Fraction
        x, one = Fraction(c["x"][0], c["x"][1]), Fraction(1)
    else:
        x, one = c["x"][0], 1
    kw = {} if c["one"] == "default" else {"one": one}
    xb = x.seq() if hasattr(x, "seq") else []
    st, r = _timed(lambda: integer_power(x, c["n"], **kw))
    xa = x.seq() if hasattr(x, "seq") else []
    if st != "ok":
        return {"r": st, "t": "", "v": [], "e": r, "xb": xb, "xa": xa}
    if isinstance(r, (ZMod, Mat2, Word)):
        # xb / xa: the caller's element before and after the call
        return {"r": "ok", "t": "mon", "v": r.seq(), "e": "", "xb": xb, "xa": xa}
    if mon == "rat" and type(r).__name__ == "Fraction" and abs(r.numerator) < 2 ** 30 \
            and r.denominator < 2 ** 30:
        return {"r": "ok", "t": "mon", "v": [r.numerator, r.denominator], "e": "", "xb": xb, "xa": xa}
    if type(r) is int and abs(r) < 2 ** 30:
        return {"r": "ok", "t": "int", "v": [r], "e": "", "xb": xb, "xa": xa}
    return {"r": "ok", "t": "other", "v": [], "e": type(r).__name__, "xb": xb, "xa": xa}


# --------------------------------------------------------------- (b) Euclid
def _entry(ep, q, r):
    """The three functions (gcd_extended, gcd, lcm) behind the entry point named ep, for the
    caller's operands q, r: pymbolic.algorithm itself, or a traits object / the generic class.
    Looked up lazily (inside the thunks), so that a failing look-up is an observation too."""
    import pymbolic.algorithm as alg
    import pymbolic.traits as tr
    if ep == "alg":
        return (lambda: alg.extended_euclidean(q, r), lambda: alg.gcd(q, r), lambda: alg.lcm(q, r))
    getters = {"traits_q": lambda: tr.traits(q), "traits_r": lambda: tr.traits(r),
               "common": lambda: tr.common_traits(q, r), "ring": lambda: tr.EuclideanRingTraits}
    if ep not in getters:
        return None
    get = getters[ep]
    return (lambda: get().gcd_extended(q, r), lambda: get().gcd(q, r), lambda: get().lcm(q, r))


_OTHER = {"r": "other", "v": [], "e": "unknown-entry"}


def _drive_euclid(c):
    q, r = c["q"], c["r"]
    es = []
    for ep in c["eps"]:
        fns = _entry(ep, q, r)
        if fns is None:
            es.append({"ep": ep, "ee": _OTHER, "g": _OTHER, "l": _OTHER})
            continue
        es.append({"ep": ep, "ee": _vals(fns[0], 3), "g": _vals(fns[1], 1), "l": _vals(fns[2], 1)})
    return {"es": es}


def _drive_euclidbig(c):
    """One operand is 2^k + a, the other the small integer sm (sw = 1: the small one first).  What
    is seen of the big results: residues modulo the primes c["ps"] (and g itself when it is small);
    an lcm that is not an int is read as the exact rational it is."""
    from fractions import Fraction
    big, sm, ps = 2 ** c["k"] + c["a"], c["sm"], c["ps"]
    q, r = (big, sm) if c["sw"] == 0 else (sm, big)
    es = []
    for ep in c["eps"]:
        fns = _entry(ep, q, r)
        other = {"r": "other", "e": "unknown-entry", "res": [], "g": {"k": "unrep"}}
        if fns is None:
            es.append({"ep": ep, "ee": other, "g": _OTHER, "l": other})
            continue
        st, t = _timed(fns[0])
        if st != "ok":
            ee = {"r": st, "e": t, "res": [], "g": {"k": "unrep"}}
        elif not (isinstance(t, tuple) and len(t) == 3 and all(type(x) is int for x in t)):
            ee = {"r": "other", "e": type(t).__name__, "res": [], "g": {"k": "unrep"}}
        else:
            ee = {"r": "ok", "e": "", "res": [[x % p for x in t] for p in ps], "g": ser.val_to_json(t[0])}
        st, v = _timed(fns[2])
        if st != "ok":
            lo = {"r": st, "e": v, "res": []}
        elif isinstance(v, bool) or not isinstance(v, (int, float, Fraction)) or (isinstance(v, float) and v != v) \
                or v in (float("inf"), float("-inf")):
            lo = {"r": "other", "e": type(v).__name__, "res": []}
        else:
            fr = Fraction(v)
            lo = {"r": "ok", "e": "", "res": [[fr.numerator % p, fr.denominator % p] for p in ps],
                  "t": type(v).__name__}
        es.append({"ep": ep, "ee": ee, "g": _vals(fns[1], 1), "l": lo})
    return {"es": es}


def _drive_gcdmany(c):
    from pymbolic.algorithm import gcd_many
    return _vals(lambda: gcd_many(*c["xs"]), 1)


# ------------------------------------------------------------------ (c) fft
def _drive_fft(c):
    from pymbolic.algorithm import fft, ifft, sym_fft
    from harness.c19_shim import ModP, Vec, ZpNP, twiddle_to_residue
    n, p, w, sign, kind = c["n"], c["p"], c["w"], c["sign"], c["kind"]
    np_ = ZpNP(p, w, n)
    kw = {"custom_np": np_, "complex_dtype": "zp"}

    def vec():
        return Vec(np_, list(c["x"]))

    if kind == "fft":
        def thunk():
            return fft(vec(), sign=sign, **kw).v
    elif kind == "ifft":
        def thunk():
            return ifft(vec(), **kw).v
    elif kind == "round":
        def thunk():
            return ifft(fft(vec(), **kw), **kw).v
    elif kind == "round2":
        def thunk():
            return fft(ifft(vec(), **kw), **kw).v
    elif kind == "symfft":
        def thunk():
            import numpy
            import pymbolic.primitives as prim
            from pymbolic.mapper.evaluator import EvaluationMapper

            class ZpEval(EvaluationMapper):
                def map_constant(self, expr):
                    if type(expr) is int:
                        return ModP(p, expr)
                    return twiddle_to_residue(expr, p, w, n)

            arr = numpy.empty(n, dtype=object)
            for i in range(n):
                arr[i] = prim.Variable(f"x{i}")
            res = sym_fft(arr, sign=sign)
            ev = ZpEval({f"x{i}": ModP(p, v) for i, v in enumerate(c["x"])})
            out = []
            for e in res:
                v = ev(e)
                out.append(v.v if isinstance(v, ModP) else None)
            return out
    else:
        return {"r": "other", "y": [], "e": kind}
    st, r = _timed(thunk)
    if st != "ok":
        return {"r": st, "y": [], "e": r}
    if not all(type(v) is int for v in r):
        return {"r": "other", "y": [], "e": "non-residue"}
    return {"r": "ok", "y": list(r), "e": ""}


def _drive_symg(c):
    from pymbolic.algorithm import sym_fft
    n, sign = c["n"], c["sign"]

    def thunk():
        import numpy
        import pymbolic.primitives as prim
        from pymbolic.mapper.evaluator import EvaluationMapper
        arr = numpy.empty(n, dtype=object)
        for i in range(n):
            arr[i] = prim.Variable(f"x{i}")
        res = sym_fft(arr, sign=sign)
        ev = EvaluationMapper({f"x{i}": complex(a, b) for i, (a, b) in enumerate(c["x"])})
        return [complex(ev(e)) for e in res]
    st, r = _timed(thunk)
    if st != "ok":
        return {"r": st, "y": [], "e": r}
    if not all(v.real.is_integer() and v.imag.is_integer() and abs(v) < 1e6 for v in r):
        return {"r": "other", "y": [], "e": "non-integral"}
    return {"r": "ok", "y": [[int(v.real), int(v.imag)] for v in r], "e": ""}


# ---------------------------------------------------------- (d) polynomials
_PARAM = "p"          # a parameter coefficient [k = "sym", n = i] is the pymbolic Variable("p<i>")


def _coef_from_json(j):
    import pymbolic.primitives as prim
    if j["k"] == "sym":
        return prim.Variable(f"{_PARAM}{j['n']}")
    return ser.json_to_val(j)


def _coef_to_json(v):
    import pymbolic.primitives as prim
    if isinstance(v, prim.Variable) and v.name.startswith(_PARAM) and v.name[len(_PARAM):].isdigit():
        return {"k": "sym", "n": int(v.name[len(_PARAM):]), "d": 1}
    return ser.val_to_json(v)


def _mkpoly(data):
    import pymbolic.primitives as prim
    from pymbolic.polynomial import Polynomial
    return Polynomial(prim.Variable("x"), tuple((e["e"], _coef_from_json(e["c"])) for e in data))


def _polyobs(st, r, arg=None):
    """What is seen of a returned polynomial: data tuple, name of the base variable, and
    (mapper results) whether it is the very object that was passed in."""
    import pymbolic.primitives as prim
    from pymbolic.polynomial import Polynomial
    if st != "ok":
        return {"r": st, "e": r}
    if not isinstance(r, Polynomial):
        return {"r": "other", "e": type(r).__name__}
    try:
        data = [{"e": e, "c": _coef_to_json(cf_)} for e, cf_ in r.data]
        if not all(type(d["e"]) is int for d in data):
            return {"r": "other", "e": "non-integer exponent"}
        base = r.base.name if isinstance(r.base, prim.Variable) else "?"
    except Exception as exc:  # noqa: BLE001
        return {"r": "other", "e": type(exc).__name__}
    return {"r": "poly", "d": data, "b": base, "id": 1 if r is arg else 0}


def _mapper(c):
    """The IdentityMapper subclass described by the case: constant rule c["map"] applied to all
    constants or only to those equal to a member of c["msel"] (every other constant is handed
    back as it is), base variable x renamed to c["mbase"], parameter p<i> bound to c["mbind"][i-1]."""
    import pymbolic.primitives as prim
    from pymbolic.mapper import IdentityMapper

    rule = {"dbl": lambda v: 2 * v, "neg": lambda v: -v, "inc": lambda v: v + 1,
            "half": lambda v: v // 2 if type(v) is int and v % 2 == 0 else v,
            "keep": lambda v: v}[c["map"]]
    every = c["mmode"] == "all"
    sel = [ser.json_to_val(v) for v in c["msel"]]
    base = c["mbase"]
    bind = {f"{_PARAM}{i + 1}": ser.json_to_val(v) for i, v in enumerate(c["mbind"])}

    class CaseMapper(IdentityMapper):
        def map_constant(self, expr):
            if every or any(expr == v for v in sel):
                return rule(expr)
            return expr

        def map_variable(self, expr):
            if expr.name == "x" and base != "x":
                return prim.Variable(base)
            if expr.name in bind:
                return bind[expr.name]
            return expr

    return CaseMapper()


def _values(obj, pts, name, default=False):
    """obj evaluated with the variable `name` at every point: the uncached EvaluationMapper, or
    pymbolic.evaluate() (the default, memoising entry point)."""
    import pymbolic
    from pymbolic.mapper.evaluator import EvaluationMapper
    out = []
    for pt in pts:
        if default:
            out.append(ser.call_to_json(lambda: pymbolic.evaluate(obj, {name: pt})))  # noqa: B023
        else:
            out.append(ser.call_to_json(lambda: EvaluationMapper({name: pt})(obj)))  # noqa: B023
    return out


def _drive_poly(c):
    import pymbolic.primitives as prim
    op = c["op"]
    two = op in ("add", "sub", "mul", "divmod")
    pts = [ser.json_to_val(v) for v in c["pts"]]
    P = _mkpoly(c["P"])
    Q = _mkpoly(c["Q"]) if two else None
    s = ser.json_to_val(c["s"])
    k = c["k"]
    bn = c["mbase"]          # the name of the base variable of the operands of the operation
    o = {"mp": {"r": "same"}, "mq": {"r": "same"}, "res": [], "vp": [], "vq": [], "vr": [], "vd": []}
    n_eval = 0
    if c["map"] != "none":
        st, r = _timed(lambda: _mapper(c)(P))
        o["mp"] = _polyobs(st, r, P)
        n_eval += 1
        if o["mp"]["r"] == "poly":
            P = r
        if two:
            st, r = _timed(lambda: _mapper(c)(Q))
            o["mq"] = _polyobs(st, r, Q)
            n_eval += 1
            if o["mq"]["r"] == "poly":
                Q = r
    o["vp"] = _values(P, pts, bn)
    if two:
        o["vq"] = _values(Q, pts, bn)
    thunks = {
        "add": lambda: P + Q, "sub": lambda: P - Q, "mul": lambda: P * Q,
        "divmod": lambda: divmod(P, Q),
        "adds": lambda: P + s, "radds": lambda: s + P, "subs": lambda: P - s,
        "rsubs": lambda: s - P, "muls": lambda: P * s, "rmuls": lambda: s * P,
        "divmods": lambda: divmod(P, s), "pow": lambda: P ** k, "neg": lambda: -P,
        "mulbase": lambda: P * prim.Variable(bn),
    }
    st, r = _timed(thunks[op])
    n_eval += 1
    if st == "ok" and op in ("divmod", "divmods"):
        if isinstance(r, tuple) and len(r) == 2:
            results = list(r)
            o["res"] = [_polyobs("ok", x) for x in results]
        else:
            results = []
            o["res"] = [{"r": "other", "e": type(r).__name__}]
    else:
        results = [r] if st == "ok" else []
        o["res"] = [_polyobs(st, r)]
    if results and all(x["r"] == "poly" for x in o["res"]):
        o["vr"] = [_values(x, pts, bn) for x in results]
        if c.get("dv"):
            o["vd"] = _values(results[0], pts, bn, default=True)
    n_eval += len(pts) * (len(o["vr"]) + (1 if o["vd"] else 0) + 1 + (1 if two else 0))
    return o, n_eval


def _drive_peuclid(c):
    """Polynomial pairs through every entry point: gcd_extended (three polynomials), gcd, lcm."""
    from pymbolic.polynomial import Polynomial
    P, Q = _mkpoly(c["P"]), _mkpoly(c["Q"])

    def aspoly(x):
        if not isinstance(x, Polynomial) and type(x) is int:
            # a constant (cofactor): the constant polynomial
            return Polynomial(P.base, ((0, x),) if x else ())
        return x

    es = []
    for ep in c["eps"]:
        fns = _entry(ep, P, Q)
        if fns is None:
            other = {"r": "other", "e": "unknown-entry"}
            es.append({"ep": ep, "ee": {**other, "res": []}, "g": other, "l": other})
            continue
        st, r = _timed(fns[0], CPU_LIMIT_LOOPY_S)
        if st != "ok":
            ee = {"r": st, "e": r, "res": []}
        elif not isinstance(r, tuple) or len(r) != 3:
            ee = {"r": "other", "e": type(r).__name__, "res": []}
        else:
            ee = {"r": "ok", "e": "", "res": [_polyobs("ok", aspoly(x)) for x in r]}
        st, r = _timed(fns[1], CPU_LIMIT_LOOPY_S)
        g = _polyobs(st, aspoly(r) if st == "ok" else r)
        st, r = _timed(fns[2], CPU_LIMIT_LOOPY_S)
        lo = _polyobs(st, aspoly(r) if st == "ok" else r)
        es.append({"ep": ep, "ee": ee, "g": g, "l": lo})
    return {"es": es}


# ------------------------------------------------------------- (e) quotient
def _drive_quot(c):
    import pymbolic
    from fractions import Fraction
    from pymbolic.mapper.evaluator import EvaluationMapper
    from pymbolic.primitives import quotient

    class ExactConstants(EvaluationMapper):
        """every constant read as the exact rational it is"""
        def map_constant(self, expr):
            if isinstance(expr, (int, float)) and not isinstance(expr, bool):
                return Fraction(expr)
            return expr

    st, node = _timed(lambda: quotient(c["n"], c["d"]))
    if st != "ok":
        return {"b": "err", "e": node or st, "fk": "", "ev": {"k": "unrep"}, "evx": {"k": "unrep"},
                "evd": {"k": "unrep"}}
    fk = ""
    if type(node).__name__ == "Rational":
        kinds = {ser.val_to_json(node.numerator)["k"], ser.val_to_json(node.denominator)["k"]}
        fk = "int" if kinds == {"int"} else "+".join(sorted(kinds))
    return {"b": type(node).__name__, "e": "", "fk": fk,
            "ev": ser.call_to_json(lambda: EvaluationMapper({})(node)),
            "evx": ser.call_to_json(lambda: ExactConstants({})(node)),
            "evd": ser.call_to_json(lambda: pymbolic.evaluate(node))}


def _drive_quotbig(c):
    from fractions import Fraction
    from pymbolic.mapper.evaluator import EvaluationMapper
    from pymbolic.primitives import quotient

    class ExactConstants(EvaluationMapper):
        def map_constant(self, expr):
            if isinstance(expr, (int, float)) and not isinstance(expr, bool):
                return Fraction(expr)
            return expr

    n = 2 ** c["k"] + c["a"]
    st, node = _timed(lambda: quotient(n, c["d"]))
    if st != "ok":
        return {"b": "err", "e": node or st, "res": []}
    st, val = _timed(lambda: ExactConstants({})(node))
    if st != "ok":
        return {"b": "err", "e": val or st, "res": []}
    if not isinstance(val, (int, Fraction)) or isinstance(val, bool):
        return {"b": type(node).__name__, "e": "", "res": []}
    val = Fraction(val)
    return {"b": type(node).__name__, "e": "",
            "res": [[val.numerator % p, val.denominator % p] for p in c["ps"]]}


# ------------------------------------------------------------------ driver
def drive_case(case, extra):
    part = case["part"]
    c = {k: v for k, v in case.items() if k not in ("id", "ph", "ac")}
    n_eval = 1
    if part == "pow":
        o = _drive_pow(c)
    elif part == "euclid":
        o, n_eval = _drive_euclid(c), 3 * len(c["eps"])
    elif part == "euclidbig":
        o, n_eval = _drive_euclidbig(c), 3 * len(c["eps"])
    elif part == "gcdmany":
        o = _drive_gcdmany(c)
    elif part == "fft":
        o = _drive_fft(c)
    elif part == "symg":
        o = _drive_symg(c)
    elif part == "poly":
        o, n_eval = _drive_poly(c)
    elif part == "peuclid":
        o, n_eval = _drive_peuclid(c), 3 * len(c["eps"])
    elif part == "quot":
        o, n_eval = _drive_quot(c), 4
    elif part == "quotbig":
        o, n_eval = _drive_quotbig(c), 2
    else:
        raise ValueError(part)
    return {"id": case["id"], "part": part, "c": c, "o": o, "ne": n_eval}


# ---------------------------------------------------------- classification
def signature(rec, f):
    """Attribution signature of one failing clause (DESIGN 7.2): the clause TLC named plus the
    attribute TLC computed for it; as fine as the property's quantifier."""
    part, c, cl, at = rec["part"], rec["c"], f["cl"], f["at"]
    if cl == "evaluate-default-raises":
        return {"clause": cl, "node": "Polynomial" if part == "poly" else "Rational", "exc": at}
    if part == "pow":
        return {"clause": cl, "monoid": at}
    if part == "fft":
        return {"clause": cl, "kind": at, "n": c["n"]}
    if part == "poly":
        if cl in ("map-coeffs", "map-base", "map-value"):
            return {"clause": cl, "at": at}
        if cl in ("op-coeffs", "op-value", "evaluate-default-value"):
            return {"clause": "op-result", "op": c["op"], "at": at}
        return {"clause": cl, "op": c["op"], "at": at}
    if part == "peuclid":
        # ep: the entry point TLC attributes the clause to (absent: the routine itself)
        return {"clause": cl, "exc": at, **({"entry": f["ep"]} if f.get("ep") else {})}
    if part in ("euclid", "euclidbig"):
        return {"clause": cl, **({"at": at} if at else {}), **({"entry": f["ep"]} if f.get("ep") else {})}
    if part in ("quot", "quotbig"):
        return {"clause": cl, "at": at}
    return {"clause": cl}


_NONTRIVIAL = {
    "pow": lambda c: c["n"] >= 2 or c["n"] < 0,
    "euclid": lambda c: c["q"] != 0 and c["r"] != 0,
    "euclidbig": lambda c: True,
    "gcdmany": lambda c: len(c["xs"]) >= 2,
    "fft": lambda c: c["n"] >= 2,
    "symg": lambda c: c["n"] >= 2,
    "poly": lambda c: len(c["P"]) >= 1,
    "peuclid": lambda c: len(c["P"]) >= 1 and len(c["Q"]) >= 1,
    "quot": lambda c: c["d"] not in (0, 1),
    "quotbig": lambda c: c["d"] not in (0, 1),
}

ALGO_CONTROLS = {
    "drop_last": "PowResult", "no_square": "PowLoopInv", "accept_negative": "PowRefusal",
    "swap_forgot": "EuResult", "wrong_T": "EuBezoutInv", "stride": "FFTResult",
    "twiddle": "FFTResult",
    # the entry-point layer of the Euclidean routine
    "forward_swapped": "EuResult", "coeffs_exchanged": "EuResult", "lcm_divides_twice": "EuLcm",
    # IdentityMapper.map_polynomial: which parts decide "return the argument"
    "flag_overwritten": "MapFlagInv", "flag_overwritten_result": "MapResult", "base_ignored": "MapResult",
    "any_for_all": "MapResult", "generator_consumed": "MapResult",
}


def _model_runs(out):
    """S-layer model (must be clean) and its negative controls: one TLC run with -continue
    in which every Ctl_<bug> invariant must be reported violated."""
    with cf.ThreadPoolExecutor(max_workers=2) as ex:
        f_model = ex.submit(kit.run_tlc, "C19_Algo", "C19_Algo", workers=4, heap="2g", tag="C19_Algo.none")
        f_ctl = ex.submit(kit.run_tlc, "C19_Algo", "C19_Algo_controls", workers=2, heap="1g",
                          tag="C19_Algo.controls", continue_=True)
        model, ctl = f_model.result(), f_ctl.result()
    kit.require_clean(model, "C19_Algo (loop invariants of integer_power / extended_euclidean, "
                             "Cooley-Tukey = DFT)")
    out.add_tlc(model)
    violated = set(ctl.invariant_violated)
    controls = {}
    for bug, inv in ALGO_CONTROLS.items():
        if f"Ctl_{bug}" not in violated:
            raise kit.MachineryError(
                f"negative control bug={bug} did not violate {inv} (Ctl_{bug}): "
                + "\n".join(ctl.out.splitlines()[-15:]))
        controls[bug] = inv
    if violated - {f"Ctl_{b}" for b in ALGO_CONTROLS}:
        raise kit.MachineryError(f"unexpected invariant violated in the control run: {sorted(violated)}")
    return controls


def _judge(recs, wd, name="c19", quick=True):
    # the FFT records are long (2n integers), keep shards moderate; the quick tier uses four
    # JVMs in all (the machine-wide number of TLC slots is limited)
    size = max(2000, -(-len(recs) // 4)) if quick else 12000
    shards = kit.write_shards(recs, wd / "trace", name, size)
    return kit.judge_shards("C19_Judge", "C19_Judge", shards, heap="2g")


_CORRUPTIONS = {"pow": {"pow"}, "euclid": {"euclid", "euclid-entry-order"}, "euclidbig": {"euclidbig-entry-order"},
                "fft": {"fft"}, "poly": {"poly", "poly-mapper-coeffs", "poly-mapper-base"}, "quot": {"quot"}}


def _corrupt(rec):
    """Trace corruption controls: flip one recorded field; the judge must reject it.
    Yields (label, corrupted record, clause that must reject it, entry it must be attributed to
    or None)."""
    def copy():
        r = json.loads(json.dumps(rec))
        return r, r["o"]
    part, o, c = rec["part"], rec["o"], rec["c"]
    if part == "pow" and o["r"] == "ok" and o["t"] == "mon" and c["mon"] == "zm" and c["n"] >= 1:
        r, o2 = copy()
        o2["v"] = [(o["v"][0] + 1) % c["m"]]
        yield part, r, "pow-value", None
    def holds(v):
        # the corruption starts from a recorded triple that satisfies the identity (on a changed
        # tree a record may be wrong already - corrupting it could repair it)
        return len(v) == 3 and all(x.get("k") == "int" for x in v) \
            and v[0]["n"] == v[1]["n"] * c["q"] + v[2]["n"] * c["r"]
    if part == "euclid" and o["es"][0]["ee"]["r"] == "ok" and c["q"] != 0 and holds(o["es"][0]["ee"]["v"]):
        r, o2 = copy()
        o2["es"][0]["ee"]["v"][1]["n"] += 1
        yield part, r, "ee-bezout", None
    # an entry point that "took the operands in the other order": the two recorded Bezout
    # coefficients of one traits entry exchanged (the gcd stays right), on a pair where it matters
    if part == "euclid" and len(o["es"]) >= 2 and o["es"][1]["ee"]["r"] == "ok":
        v = o["es"][1]["ee"]["v"]
        if holds(v) and v[1]["n"] * c["q"] + v[2]["n"] * c["r"] != v[2]["n"] * c["q"] + v[1]["n"] * c["r"]:
            r, o2 = copy()
            w = o2["es"][1]["ee"]["v"]
            w[1], w[2] = w[2], w[1]
            yield "euclid-entry-order", r, "ee-bezout", "ee@" + c["eps"][1]
    if part == "euclidbig" and len(o["es"]) >= 2 and o["es"][1]["ee"]["r"] == "ok" and c["k"] >= 53:
        res = o["es"][1]["ee"]["res"]
        p0 = c["ps"][0]
        bigm = (pow(2, c["k"], p0) + c["a"]) % p0
        q0, r0 = (bigm, c["sm"] % p0) if c["sw"] == 0 else (c["sm"] % p0, bigm)
        if res and (res[0][1] - res[0][2]) * (q0 - r0) % p0 != 0 \
                and (res[0][0] - res[0][1] * q0 - res[0][2] * r0) % p0 == 0:
            r, o2 = copy()
            for t in o2["es"][1]["ee"]["res"]:
                t[1], t[2] = t[2], t[1]
            yield "euclidbig-entry-order", r, "ee-bezout", "ee@" + c["eps"][1]
    if part == "fft" and o["r"] == "ok" and c["n"] >= 3:
        r, o2 = copy()
        o2["y"][2] = (o["y"][2] + 1) % c["p"]
        yield part, r, "fft-value", None
    if part == "poly" and c["op"] == "add" and c["map"] == "none" and o["res"] \
            and o["res"][0]["r"] == "poly" and o["res"][0]["d"]:
        r, o2 = copy()
        o2["res"][0]["d"][0]["c"]["n"] += 1
        yield part, r, "op-coeffs", None
    # a mapper that rewrites only some coefficients "returned its argument": the recorded mapper
    # result is replaced by the unmapped operand
    if part == "poly" and c["map"] != "none" and c["mmode"] == "only" and o["mp"]["r"] == "poly" \
            and c["mbase"] == "x" and o["mp"]["d"] != c["P"] and len(c["P"]) >= 3:
        r, o2 = copy()
        o2["mp"]["d"] = c["P"]
        o2["mp"]["id"] = 1
        yield "poly-mapper-coeffs", r, "map-coeffs", None
    # ... "did not rename the base"
    if part == "poly" and c["map"] != "none" and o["mp"]["r"] == "poly" and c["mbase"] != "x" \
            and o["mp"]["b"] == c["mbase"]:
        r, o2 = copy()
        o2["mp"]["b"] = "x"
        yield "poly-mapper-base", r, "map-base", None
    if part == "quot" and c["d"] not in (0, 1, -1) and o["evx"].get("k") in ("int", "frac"):
        r, o2 = copy()
        o2["evx"]["n"] += 1
        yield part, r, "quot-exact-value", None


def _corrupted_records(recs, first_id):
    """One corrupted copy per kind of corruption (ids from first_id on) with the clause (and entry
    point) that must reject it."""
    picked, seen = [], set()
    for r in recs:
        if _CORRUPTIONS.get(r["part"], set()) <= seen:
            continue
        for label, bad, clause, ep in _corrupt(r):
            if label not in seen:
                seen.add(label)
                bad["id"] = first_id + len(picked)
                picked.append((label, bad, clause, ep))
    return picked


def _check_corrupted(picked, verdicts):
    byid = {v["id"]: v for v in verdicts}
    for label, bad, clause, ep in picked:
        v = byid.get(bad["id"])
        if v is None or not any(f["cl"] == clause and (ep is None or f.get("ep") == ep) for f in v.get("fs", [])):
            raise kit.MachineryError(
                f"trace-corruption control: corrupted {label} record was not rejected with {clause}"
                f"{' attributed to ' + ep if ep else ''}: {v}")
    return {label: cl for label, _b, cl, _e in picked}


def _classify(recs, verdicts, out, counts):
    byid = {r["id"]: r for r in recs}
    for v in verdicts:
        rec = byid[v["id"]]
        if v.get("dr"):
            out.drift += 1
            counts["drift"][f"{rec['part']}:{v['dr']}"] = counts["drift"].get(f"{rec['part']}:{v['dr']}", 0) + 1
        if v.get("sk"):
            out.skipped += 1
        if v["v"] in ("SKIP", "DRIFT"):
            continue
        for f in v.get("fs", []):
            out.fail(signature(rec, f),
                     {"case": {"part": rec["part"], **rec["c"]}, "recorded": rec["o"], "clause": f})
        # the A-layer of C19_PolyRing predicts data tuples, not hashability: only clauses
        # about the polynomial data count for the prediction bookkeeping
        if any(f["cl"] != "evaluate-default-raises" for f in v.get("fs", [])):
            counts["failed_ids"].add(v["id"])


def run(tier, seed, out):
    wd = kit.fresh_workdir("C19")
    # the S-layer model and its negative controls run beside the generator (the machine-wide
    # TLC slots may make any of them wait)
    bg = cf.ThreadPoolExecutor(max_workers=1)
    f_controls = bg.submit(_model_runs, out)
    gen = kit.run_tlc("C19_Gen", f"C19_Gen_{tier}", heap="3g" if tier == "quick" else "6g")
    kit.require_clean(gen, "C19 model check (A-layer algorithms refine the meaning or fall in a named deviation)")
    out.add_tlc(gen)
    cases = [p for p in gen.printed() if isinstance(p, dict) and p.get("ph") == "case"]
    exhaustive_n = len(cases)
    if tier == "thorough":
        sim = kit.run_tlc("C19_Gen", "C19_Gen_random", simulate="num=400", depth=3, seed=seed, workers=8, heap="3g")
        if sim.rc != 0 or "Error:" in sim.out:
            kit.require_clean(sim, "C19 random generation")
        out.add_tlc(sim)
        cases += [p for p in sim.printed() if isinstance(p, dict) and p.get("ph") == "case"]
    if not cases:
        raise kit.MachineryError("C19 generator printed no cases")
    for i, c in enumerate(cases):
        c["id"] = i
    kit.log(f"C19: TLC generated {len(cases)} cases ({exhaustive_n} exhaustive; {gen.distinct} states, "
            f"{gen.wall:.1f}s)")
    predicted = {c["id"]: c["ac"] for c in cases if c.get("ac")}
    t0 = time.time()
    # spread the expensive cases (long FFTs, looping polynomial Euclid) over all workers
    random.Random(0).shuffle(cases)
    recs = kit.drive("harness.c19", "drive_case", cases, None, chunk=100)
    recs.sort(key=lambda r: r["id"])
    controls = f_controls.result()
    bg.shutdown()
    kit.log(f"C19: S-layer model clean, negative controls violated as required: {sorted(controls)}")
    out.evaluations += sum(r.pop("ne") for r in recs)
    kit.log(f"C19: drove {len(recs)} cases, {out.evaluations} calls into pymbolic ({time.time() - t0:.1f}s)")
    t0 = time.time()
    # trace-corruption control: a few recorded observations with one field flipped are judged
    # along with the real ones; TLC must reject each of them with the expected clause
    corrupted = _corrupted_records(recs, len(recs))
    verdicts, st, tr = _judge(recs + [b for _l, b, _c, _e in corrupted], wd, quick=(tier == "quick"))
    corr = _check_corrupted(corrupted, verdicts)
    verdicts = [v for v in verdicts if v["id"] < len(recs)]
    kit.log(f"C19: TLC judged {len(recs)} records, {len(verdicts)} not plainly OK; "
            f"{len(corr)} corrupted records rejected as required ({time.time() - t0:.1f}s)")
    out.states += st
    out.transitions += tr
    out.traces += len(recs)
    counts = {"drift": {}, "failed_ids": set()}
    _classify(recs, verdicts, out, counts)
    # A-layer predictions (named deviation classes) against what the real code showed
    failed = counts["failed_ids"]
    pred_failed = sum(1 for i in predicted if i in failed)
    pred_not_failed = sorted(i for i in predicted if i not in failed)
    poly_ids = {r["id"] for r in recs if r["part"] == "poly"}
    failed_not_pred = sorted(i for i in failed if i in poly_ids and i not in predicted)
    by_part = {}
    for r in recs:
        by_part[r["part"]] = by_part.get(r["part"], 0) + 1
        out.note_case({"part": r["part"], **r["c"]}, nontrivial=_NONTRIVIAL[r["part"]](r["c"]))
    out.drift += len(pred_not_failed)
    pick = {}
    for r in recs:
        if _NONTRIVIAL[r["part"]](r["c"]):
            pick.setdefault(r["part"], r)
    out.samples = [{"case": {"part": r["part"], **r["c"]}, "recorded": r["o"]}
                   for r in list(pick.values())[:4]]
    out.rule = ("a case is one generated input of one part (pow: element x exponent x unit; euclid: "
                "integer pair (also 2^k+a against a small integer) judged for gcd_extended, gcd and lcm through every "
                "entry point - pymbolic.algorithm, traits(q), traits(r), common_traits(q, r), EuclideanRingTraits; fft: (length, kind, sign, "
                "vector) over Z_p; poly: (operation, operands, mapper = constant rule x selection of constants "
                "x base name x parameter binding) judged clause by clause; quot: "
                "integer pair); non-trivial = exponent >= 2 or negative / both integers non-zero / "
                "length >= 2 / non-zero polynomial operand / denominator not in {0,1}; distinct by "
                "canonical JSON digest of the case")
    out.exhaustive = True
    out.extra.update({
        "cases_by_part": by_part,
        "negative_controls_model": controls,
        "negative_controls_trace_corruption": corr,
        "deviation_classes_predicted_by_model": {
            k: sum(1 for v in predicted.values() if v == k) for k in sorted(set(predicted.values()))},
        "predicted_and_observed_failing": pred_failed,
        "predicted_but_not_observed": len(pred_not_failed),
        "polynomial_failures_not_predicted_by_model": len(failed_not_pred),
        "drift_notes": counts["drift"],
    })
    out.assumptions += [
        "CPython arithmetic as transcribed in PyNum.tla; TLC; the JSON boundary",
        "fft/ifft/sym_fft are judged in exact arithmetic over Z_p through custom_np / a residue "
        "evaluator (harness/c19_shim.py): exp(-2 i pi t/n) is read as the t-th power of an element of "
        "order n; double-precision accuracy of the twiddle factors is not judged",
        "values beyond |n|,d <= 30000 are out of model (that clause is skipped)",
        "bounded to the generated space (see C19_Gen.tla); thorough adds seeded random cases",
    ]


def replay(path, out):
    data = json.loads(open(path).read())
    case = dict(data["detail"]["case"])
    case["id"] = 0
    wd = kit.fresh_workdir("C19")
    recs = kit.drive("harness.c19", "drive_case", [case], None, procs=1)
    out.evaluations += sum(r.pop("ne") for r in recs)
    verdicts, st, tr = _judge(recs, wd, "c19replay")
    out.states += st
    out.transitions += tr
    out.traces += 1
    counts = {"drift": {}, "failed_ids": set()}
    _classify(recs, verdicts, out, counts)
    out.samples = [{"case": case, "recorded": recs[0]["o"], "verdict": verdicts}]
    out.rule = "replay of one stored case"
