"""Shared machinery: running TLC, collecting what it prints, sharding traces,
driving the implementation in worker processes, classifying verdicts against
known_findings.json and writing evidence.  See DESIGN.md sections 3, 7, 10."""
from __future__ import annotations

import concurrent.futures as cf
import hashlib
import json
import multiprocessing as mp
import os
import re
import shutil
import subprocess
import sys
import time
from pathlib import Path

ROOT = Path(__file__).resolve().parent.parent
SPEC = ROOT / "spec"
WORK = ROOT / ".work"
# evidence describes runs on /repo; a run against another source tree (PYMBOLIC_SRC: seeded
# changes, mutants) leaves /verif/evidence alone and writes next to its work files
EVID = ROOT / "evidence" if os.environ.get("PYMBOLIC_SRC", "/repo") == "/repo" else WORK / "evidence_other_source"
JAR = "/opt/veriftools/tla/tla2tools.jar:/opt/veriftools/tla/CommunityModules-deps.jar"
REPO = os.environ.get("PYMBOLIC_SRC", "/repo")
NCPU = os.cpu_count() or 4


class MachineryError(Exception):
    """Exit code 2: the machinery failed; never disguised as pass or violation."""


def log(*a):
    print(*a, file=sys.stderr, flush=True)


# --------------------------------------------------------------------- TLC
class TLCResult:
    def __init__(self, out, rc, wall):
        self.out, self.rc, self.wall = out, rc, wall
        m = re.search(r"(\d+) states generated, (\d+) distinct states found", out)
        self.generated = int(m.group(1)) if m else 0
        self.distinct = int(m.group(2)) if m else 0
        if not m:
            # simulation mode
            m2 = re.search(r"The number of states generated: (\d+)", out)
            if m2:
                self.generated = self.distinct = int(m2.group(1))
        self.ok = ("Model checking completed. No error has been found." in out
                   or "Finished in" in out and rc == 0)
        self.invariant_violated = re.findall(r"Invariant (\w+) is violated", out)
        self.property_violated = re.findall(r"Action property (\w+) is violated", out)
        self.coverage = None

    def printed(self):
        """Every JSON value TLC printed with PrintT(ToJson(..)): lines that are a
        single TLA+ string literal."""
        res = []
        for line in self.out.splitlines():
            line = line.strip()
            if len(line) >= 2 and line[0] == '"' and line[-1] == '"':
                try:
                    s = json.loads(line)
                    res.append(json.loads(s))
                except Exception:  # noqa: BLE001
                    continue
        return res


class _Slot:
    """Machine-wide limit on concurrently running TLC JVMs (several checks / builders may
    share the sandbox): one of N lock files is held while a JVM runs."""
    N = int(os.environ.get("VERIF_TLC_SLOTS", "8"))
    DIR = "/tmp/verif_tlc_slots"

    def __enter__(self):
        import fcntl
        os.makedirs(self.DIR, exist_ok=True)
        while True:
            for i in range(self.N):
                f = open(os.path.join(self.DIR, f"slot{i}"), "w")
                try:
                    fcntl.flock(f, fcntl.LOCK_EX | fcntl.LOCK_NB)
                    self.f = f
                    return self
                except OSError:
                    f.close()
            time.sleep(0.5)

    def __exit__(self, *a):
        self.f.close()


def run_tlc(module, cfg, *, workers=NCPU, env=None, timeout=3600, simulate=None,
            depth=None, seed=None, extra=(), heap="3g", tag=None, coverage=False,
            continue_=False):
    """Run TLC on spec/<module>.tla with spec/<cfg>.cfg.  Returns TLCResult."""
    tag = tag or f"{module}.{cfg}.{os.getpid()}.{time.time_ns() % 10**9}"
    meta = WORK / "tlc" / tag
    if meta.exists():
        shutil.rmtree(meta)
    meta.mkdir(parents=True)
    cmd = ["java", "-XX:+UseParallelGC", "-XX:ParallelGCThreads=4", f"-Xmx{heap}", "-Xss64m",
           f"-DTLA-Library={SPEC}",
           "-cp", JAR, "tlc2.TLC", "-workers", str(workers), "-metadir", str(meta),
           "-noGenerateSpecTE", "-config", str(SPEC / f"{cfg}.cfg")]
    if simulate:
        cmd += ["-simulate", simulate]
    if depth:
        cmd += ["-depth", str(depth)]
    if seed is not None:
        cmd += ["-seed", str(seed)]
    if coverage:
        cmd += ["-coverage", "1"]
    if continue_:
        cmd += ["-continue"]
    cmd += list(extra) + [str(SPEC / f"{module}.tla")]
    e = dict(os.environ)
    e.update(env or {})
    t0 = time.time()
    try:
        with _Slot():
            t0 = time.time()
            p = subprocess.run(cmd, cwd=str(meta), env=e, capture_output=True, text=True,
                               timeout=timeout)
    except subprocess.TimeoutExpired as exc:
        raise MachineryError(f"TLC timed out after {timeout}s on {module}/{cfg}") from exc
    res = TLCResult(p.stdout + p.stderr, p.returncode, time.time() - t0)
    shutil.rmtree(meta, ignore_errors=True)
    return res


def require_clean(res, what):
    """A TLC run that must finish without any error (spec self-consistency)."""
    if res.rc != 0 or "Error:" in res.out:
        tail = "\n".join(res.out.splitlines()[-40:])
        try:        # the full output, for diagnosis (kept out of the verdict)
            d = WORK / "tlc_failures"
            d.mkdir(parents=True, exist_ok=True)
            (d / f"{os.getpid()}.{time.time_ns() % 10**9}.log").write_text(what + "\n" + res.out[-200000:])
        except OSError:
            pass
        raise MachineryError(f"TLC failed in {what} (rc={res.rc}):\n{tail}")


def simulate_many(module, cfg, *, runs, num, depth, seed, timeout=3600):
    """Random behaviours beyond the exhaustive bounds: several TLC simulation runs
    (-simulate num=.. -depth .. -seed ..) with seeds derived from the check's seed.
    Returns (distinct printed JSON values, states generated)."""
    seen, out, states = set(), [], 0

    def one(i):
        return run_tlc(module, cfg, workers=1, simulate=f"num={num}", depth=depth,
                       seed=seed * 1000 + i + 1, timeout=timeout, heap="2g")

    with cf.ThreadPoolExecutor(max_workers=min(runs, 8)) as ex:
        for r in ex.map(one, range(runs)):
            require_clean(r, f"simulation of {module}")
            states += r.generated
            for p in r.printed():
                k = json.dumps(p, sort_keys=True)
                if k not in seen:
                    seen.add(k)
                    out.append(p)
    return out, states


# --------------------------------------------------------------- sharding
def write_shards(records, dirpath, prefix, shard_size=20000):
    dirpath = Path(dirpath)
    dirpath.mkdir(parents=True, exist_ok=True)
    paths = []
    for k in range(0, max(len(records), 1), shard_size):
        pth = dirpath / f"{prefix}.{k // shard_size:04d}.ndjson"
        with open(pth, "w") as f:
            for r in records[k:k + shard_size]:
                f.write(json.dumps(r, separators=(",", ":")) + "\n")
        paths.append(pth)
    return paths


def judge_shards(module, cfg, shard_paths, *, jvms=4, workers=4, env=None, timeout=3600,
                 heap="2500m"):
    """Run the judging spec once per shard (several JVMs at a time).  Returns
    (verdicts, states, transitions): verdicts are the JSON values printed."""
    verdicts, states, trans = [], 0, 0
    t0 = time.time()

    def one(pth):
        e = dict(env or {})
        e["TRACE_FILE"] = str(pth)
        r = run_tlc(module, cfg, workers=workers, env=e, timeout=timeout, heap=heap,
                    tag=f"{module}.{Path(pth).stem}.{os.getpid()}.{time.time_ns() % 10**9}")
        require_clean(r, f"judging {pth}")
        return r

    with cf.ThreadPoolExecutor(max_workers=jvms) as ex:
        for r in ex.map(one, shard_paths):
            verdicts.extend(r.printed())
            states += r.distinct
            trans += r.generated
    log(f"  judged {len(shard_paths)} shard(s) with {module} in {time.time() - t0:.1f}s")
    return verdicts, states, trans


def corruption_control(module, cfg, recs, corrupt, wd, *, want=4, flagged=None):
    """Negative control of the binding (DESIGN 9.3): corrupt one recorded field in a few
    records that were accepted, judge the corrupted copies alone, and require that TLC
    rejects every one of them.  corrupt(rec) returns a corrupted deep copy or None;
    flagged(verdict) says whether a printed verdict is a rejection (default: anything that
    is not a SKIP / drift / oracle line).  Returns the number of controls run."""
    import copy
    bad = []
    for r in recs:
        c = corrupt(copy.deepcopy(r))
        if c is not None:
            c["id"] = 10 ** 9 + len(bad)
            bad.append(c)
            if len(bad) >= want:
                break
    if not bad:
        raise MachineryError(f"{module}: no record could be corrupted for the negative control")
    shards = write_shards(bad, Path(wd) / "control", "ctl", 1000)
    verdicts, _, _ = judge_shards(module, cfg, shards, jvms=1)
    if flagged is None:
        def flagged(v):
            return not (v.get("v") == "SKIP" or "drift" in v or "oracle" in v)
    hit = {v["id"] for v in verdicts if flagged(v)}
    missed = [b["id"] for b in bad if b["id"] not in hit]
    if missed:
        raise MachineryError(f"{module}: {len(missed)} corrupted record(s) were accepted by the judge "
                             f"(the trace specification does not bind the recorded field)")
    return len(bad)


# ----------------------------------------------------------------- driving
def _drive_chunk(args):
    modname, funcname, chunk, extra = args
    sys.path.insert(0, str(ROOT))
    if REPO not in sys.path:
        sys.path.insert(0, REPO)
    import importlib
    mod = importlib.import_module(modname)
    fn = getattr(mod, funcname)
    out = []
    for case in chunk:
        out.append(fn(case, extra))
    return out


def _limit_worker_memory():
    """Address-space limit for a driving process: a case whose value explodes (towers of
    powers, shifts by powers) gets a MemoryError there - recorded as out-of-model by
    ser.call_to_json - instead of the kernel's OOM killer taking the worker."""
    import resource
    lim = int(os.environ.get("VERIF_WORKER_MEM_GB", "6")) << 30
    try:
        resource.setrlimit(resource.RLIMIT_AS, (lim, lim))
    except (ValueError, OSError):
        pass


def drive(modname, funcname, cases, extra=None, procs=NCPU, chunk=200):
    """Replay every generated behaviour through the real pymbolic in worker
    processes (fresh interpreters: spawn), keep order.  A worker that dies is a
    machinery failure (exit 2), never a hang and never a verdict."""
    import concurrent.futures as cf
    from concurrent.futures.process import BrokenProcessPool
    chunks = [(modname, funcname, cases[i:i + chunk], extra)
              for i in range(0, len(cases), chunk)]
    if not chunks:
        return []
    ctx = mp.get_context("spawn")
    out = []
    t0 = time.time()
    try:
        with cf.ProcessPoolExecutor(min(procs, len(chunks)), mp_context=ctx,
                                    initializer=_limit_worker_memory) as pool:
            try:
                for part in pool.map(_drive_chunk, chunks,
                                     timeout=int(os.environ.get("VERIF_DRIVE_TIMEOUT", "2400"))):
                    out.extend(part)
            except cf.TimeoutError as exc:
                for p in list(pool._processes.values()):   # a case that computes for ever
                    p.kill()
                raise MachineryError(f"driving {modname}.{funcname} timed out") from exc
    except BrokenProcessPool as exc:
        raise MachineryError(f"a driving process of {modname}.{funcname} died ({exc})") from exc
    log(f"  drove {len(cases)} case(s) through {modname}.{funcname} in {time.time() - t0:.1f}s")
    return out


# ---------------------------------------------------------- known findings
def load_known(prop):
    files = [ROOT / "known_findings.json"] + sorted((ROOT / "known_findings.d").glob("*.json"))
    res = []
    for p in files:
        if not p.exists():
            continue
        data = json.loads(p.read_text())
        res += [f for f in data.get("findings", [])
                if f["property"] == prop and f.get("status") == "open"]
    return res


def sig_key(sig):
    return json.dumps(sig, sort_keys=True, separators=(",", ":"))


class Outcome:
    """Collects verdicts for one check run and turns them into exit code, stdout
    lines, replay files and the evidence file."""

    def __init__(self, prop, tier, seed):
        self.prop, self.tier, self.seed = prop, tier, seed
        self.t0 = time.time()
        self.known = {sig_key(f["signature"]): f for f in load_known(prop)}
        self.known_seen = {}
        self.violations = []      # (sig, detail)
        self.states = 0
        self.transitions = 0
        self.traces = 0
        self.evaluations = 0
        self.skipped = 0
        self.distinct = set()
        self.samples = []
        self.extra = {}
        self.assumptions = []
        self.rule = ""
        self.exhaustive = False
        self.drift = 0

    def add_tlc(self, res):
        self.states += res.distinct
        self.transitions += res.generated

    def note_case(self, case_json, nontrivial=True):
        if nontrivial:
            self.distinct.add(hashlib.sha1(
                json.dumps(case_json, sort_keys=True).encode()).digest()[:8])

    def fail(self, sig, detail):
        """One failing verdict with its attribution signature."""
        k = sig_key(sig)
        if k in self.known:
            self.known_seen.setdefault(k, detail)
        else:
            self.violations.append((sig, detail))

    def finish(self):
        wall = time.time() - self.t0
        for k, detail in sorted(self.known_seen.items()):
            f = self.known[k]
            print(f"KNOWN-FINDING: property={self.prop} {f['id']} {k} -- {f['description'][:140]}")
        rdir = WORK / self.prop / "replay"
        rc = 0
        if self.violations:
            rc = 1
            rdir.mkdir(parents=True, exist_ok=True)
            seen = set()
            first = None
            for sig, detail in self.violations:
                k = sig_key(sig)
                if k in seen:
                    continue
                seen.add(k)
                name = hashlib.sha1(k.encode()).hexdigest()[:12]
                pth = rdir / f"{name}.json"
                pth.write_text(json.dumps({"property": self.prop, "signature": sig,
                                           "detail": detail}, indent=1))
                if first is None:
                    first = pth
                if len(seen) <= 25:
                    log(f"  unlisted failure {k}")
            print(f"VIOLATION property={self.prop} replay={first}")
            log(f"{len(self.violations)} failing verdicts, {len(seen)} distinct unlisted signatures")
        cov = {
            "states": self.states, "transitions": self.transitions,
            "traces_validated_against_impl": self.traces,
            "samples": self.samples[:5] or [{"note": "no sample recorded"}],
            "evaluations": self.evaluations,
            "distinct_nontrivial": len(self.distinct),
            "rule": self.rule,
            "exhaustive": self.exhaustive,
            "skipped_out_of_model": self.skipped,
            "model_drift": self.drift,
            "known_findings_seen": sorted(self.known[k]["id"] for k in self.known_seen),
        }
        cov.update(self.extra)
        ev = {
            "property_id": self.prop, "tier": self.tier, "seed": self.seed,
            "level": "model_checking", "coverage": cov,
            "assumptions": self.assumptions, "wall_s": round(wall, 2),
            "violations": len({sig_key(s) for s, _ in self.violations}),
        }
        EVID.mkdir(parents=True, exist_ok=True)
        (EVID / f"{self.prop}.json").write_text(json.dumps(ev, indent=1) + "\n")
        print(f"{self.prop} {self.tier}: states={self.states} traces={self.traces} "
              f"evaluations={self.evaluations} skipped={self.skipped} "
              f"known={len(self.known_seen)} violations={ev['violations']} wall={wall:.1f}s")
        return rc


def fresh_workdir(prop):
    d = WORK / prop
    if d.exists():
        for c in d.iterdir():
            if c.name == "replay":
                continue
            if c.is_dir():
                shutil.rmtree(c, ignore_errors=True)
            else:
                c.unlink()
    d.mkdir(parents=True, exist_ok=True)
    return d
