"""C05 - memoization and mapper optimization are observationally transparent.

Pipeline (BUILDING.md):
  (1) TLC: C05_Gen (call histories on one mapper instance; the look-aside algorithm
      of C05_MemoImpl is run against the memo machine C05_Memo for every modelled
      mapper kind) and C05_OptGen (optimisation sequences x histories; the abstract
      rewriting system C05_Optimizer against the same machine), plus the cfgs that
      MUST be refuted (seeded key bugs, the real ==-key on typed constants, the
      optimizer's deviations).
  (2) drive: every history on ONE fresh instance of every cached mapper kind
      (harness/c05_mappers.py); optimizer sequences each in a FRESH interpreter
      (harness/c05_optworker.py).
  (3) TLC: C05_Judge steps the memo machine along every recorded trace.
  (4) classify failing verdicts into attribution signatures.
Python never decides a verdict."""
from __future__ import annotations

import concurrent.futures as cf
import json
import os
import subprocess
import sys

from harness import kit

WALK_KINDS = ("walk", "ncount")

# cfg -> the invariant TLC must report violated (negative controls and design-level findings)
MUST_REFUTE = {
    "C05_Gen_Buggy_KeyIgnoresArgs": "NotSharedArgs",
    "C05_Gen_Buggy_KeyIgnoresKwargs": "NotSharedArgs",
    "C05_Gen_Buggy_KeyIgnoresType": "NotSharedTypes",
    "C05_Gen_Buggy_NoStore": "NoComputedTwice",
    # round 2: the hit test compares the cached RESULT with the sentinel by != (the
    # result's own protocol decides): recomputation / a raise out of the call
    "C05_Gen_Buggy_HitByNe_Recompute": "NoComputedTwice",
    "C05_Gen_Buggy_HitByNe_Raise": "Transparent",
    # round 2: the optimizer reuses a collected definition with the same __name__ for
    # base-class aliases (the own override captures them)
    "C05_OptGen_Buggy_CollectByName": "ShippedUsageFine",
    "C05_OptGen_Buggy_CollectByName_static": "HandlersPreserved",
    # round 4: the class-hierarchy fallback (rec_fallback) calls the handler found through
    # the node's MRO without the keyword arguments
    "C05_Gen_Buggy_FallbackDropsKw": "Transparent",
    "C05_OptGen_Buggy_FallbackDropsKw": "Explained",
    # round 5: the rebuild branch of an identity-shaped handler forgets an optional field
    # (TLC must find a history with equal-but-not-identical subtrees on which the
    # memoizing algorithm differs from the same handlers without a table)
    "C05_Gen_Buggy_RebuildDropsScope": "RebuildTransparent",
    # round 7: the hit test asks the stored RESULT whether it is None / true: results that
    # look like nothing (None, 0, False, ()) are recomputed - in CachedMapper.__call__ and
    # in the look-aside that inline_cache writes around a former rec site
    "C05_Gen_Buggy_HitNotNone": "NoComputedTwice",
    "C05_Gen_Buggy_HitByTruth": "NoComputedTwice",
    "C05_OptGen_Buggy_InlineHitNotNone": "Explained",
    "C05_OptGen_Buggy_InlineHitTruthy": "Explained",
    "C05_Gen_real_types": "NotSharedTypes",        # Dev_CompositeKeyPyEq (finding F1)
    "C05_OptGen_findings": "PlainlyAccepted",      # the optimizer's named deviations
}
# (C05_Gen_RebuildDropsScope_shared: the same design error is NOT visible when equal subtrees
# are always one object - the build mode is the dimension that exposes it)
MUST_HOLD = ["C05_Gen_real", "C05_Gen_real_consts", "C05_Gen_RebuildDropsScope_shared"]


# ------------------------------------------------------------------ stage 2: drive
def drive_case(case, extra):
    from harness import c05_mappers as cm
    mk = extra["kinds"][case["k"]]["mk"]
    cached, cctor, fresh, fctor = cm.make_pair(mk, extra)
    calls = [(extra["pool"][c["e"] - 1], extra["args"][c["a"] - 1]) for c in case["h"]]
    style = "walk" if mk["m"] in WALK_KINDS else "R"
    r = cm.record_history(cached, cctor, fresh, fctor, style, calls, case["sh"])
    return {"id": case["id"], "mk": mk, "tr": r.trees, "at": r.args, "evs": r.evs}


def _run_opt_job(job):
    env = dict(os.environ)
    env["PYTHONPATH"] = f"{kit.REPO}:{kit.ROOT}" + (":" + env["PYTHONPATH"] if env.get("PYTHONPATH") else "")
    env.setdefault("PYTHONHASHSEED", "0")
    p = subprocess.run([sys.executable, "-W", "ignore", "-m", "harness.c05_optworker"],
                       input=json.dumps(job), capture_output=True, text=True, env=env,
                       cwd=str(kit.ROOT), timeout=1800)
    if p.returncode != 0:
        raise kit.MachineryError(f"C05 optimizer worker failed: {p.stderr[-2000:]}")
    return [json.loads(line) for line in p.stdout.splitlines() if line.strip()]


def drive_opt(cases, tables, procs=kit.NCPU):
    """cases: [{id, opt (the sequence), h, sh}]; one fresh interpreter per sequence."""
    groups = {}
    for c in cases:
        groups.setdefault(json.dumps(c["opt"], sort_keys=True), []).append(c)
    jobs = [{"seq": cs[0]["opt"], "cases": cs, "tables": tables} for cs in groups.values()]
    out = []
    with cf.ThreadPoolExecutor(max_workers=procs) as ex:
        for part in ex.map(_run_opt_job, jobs):
            out.extend(part)
    return out, len(jobs)


# ------------------------------------------------------------------ stage 4: classify
def _bits(o):
    return "".join("1" if o[k] else "0" for k in ("da", "dk", "ir", "ic", "ik"))


def signature(rec, v):
    """Attribution signature of a failing verdict.  Everything in it was computed by
    TLC (clause, pred, coll, list, dev) except the exception class of a raising call,
    which is copied from the record."""
    top = next((e for e in rec["evs"][v["at"] - 1:] if e["ev"] in ("R", "W")), None)
    raises = top["r"]["v"]["e"] if top and top["r"]["rk"] == "err" else ""
    if "opt" in rec:
        dev = v["dev"] if v["pred"].startswith("match") else ""
        sig = {"part": "opt", "clause": v["v"], "dev": dev}
        if not dev:
            sig.update({"cls": rec["opt"][-1]["cls"]["name"],
                        "opts": "+".join(_bits(s["o"]) for s in rec["opt"]), "raises": raises})
        return sig
    kind = rec["mk"]["m"] + ("/cse" if rec["mk"].get("scope") == "cse" else "")
    if v["list"] and raises == "TypeError":
        cause = "unhashable-list"
    elif v["pred"] == "match":
        cause = "pyeq-key"
    elif raises:
        cause = "raises-" + raises
    elif v["pred"] == "n/a" and (v["coll"] or v["acoll"]):
        cause = "pyeq-collision"
    else:
        cause = ""
    sig = {"part": "memo", "clause": v["v"], "cause": cause}
    if cause in ("", "pyeq-collision") or cause.startswith("raises-"):
        sig["kind"] = kind
    return sig


# ----------------------------------------------------------------------------- run
def _tlc_many(specs, workers=4):
    """Run several TLC jobs concurrently: specs = [(module, cfg, kwargs)]."""
    with cf.ThreadPoolExecutor(max_workers=len(specs)) as ex:
        futs = [ex.submit(kit.run_tlc, m, c, workers=workers, **kw) for m, c, kw in specs]
        return [f.result() for f in futs]


def _tlaps(out, wd):
    """Supplementary: the unbounded memo machine's inductive invariant by TLAPS."""
    import re
    import shutil
    import time
    if shutil.which("tlapm") is None:
        out.extra["tlaps"] = "tlapm not available"
        return
    d = wd / "tlaps"
    d.mkdir(parents=True, exist_ok=True)
    shutil.copy(kit.SPEC / "C05_MemoAbs.tla", d / "C05_MemoAbs.tla")
    t0 = time.time()
    p = subprocess.run(["tlapm", "--cleanfp", "C05_MemoAbs.tla"], cwd=str(d), capture_output=True,
                       text=True, timeout=1800)
    txt = p.stdout + p.stderr
    m = re.search(r"All (\d+) obligations? proved", txt)
    shutil.rmtree(d, ignore_errors=True)
    if not m:
        raise kit.MachineryError("C05: tlapm did not prove C05_MemoAbs:\n" + txt[-1500:])
    out.extra["obligations"] = int(m.group(1))
    out.extra["discharged"] = int(m.group(1))
    out.extra["tlaps"] = {"module": "C05_MemoAbs", "obligations": int(m.group(1)),
                          "discharged": int(m.group(1)), "wall_s": round(time.time() - t0, 1),
                          "theorems": ["Safety: Spec => [](Inv /\\ AtMostOnce)", "Transparency"]}


def _model_stage(tier, seed, out):
    gen_cfgs = {"quick": [("C05_Gen", "C05_Gen_quick", {}), ("C05_Gen", "C05_Gen_fb", {}),
                          ("C05_Gen", "C05_Gen_fields", {})],
                "thorough": [("C05_Gen", "C05_Gen_thorough", {}),
                             ("C05_Gen", "C05_Gen_fb", {}),
                             ("C05_Gen", "C05_Gen_fields", {}),
                             ("C05_Gen", "C05_Gen_thoroughA", {}),
                             ("C05_Gen", "C05_Gen_thorough3", {}),
                             ("C05_Gen", "C05_Gen_sim",
                              {"simulate": "num=400", "depth": 8, "seed": seed})]}[tier]
    opt_cfgs = {"quick": [("C05_OptGen", "C05_OptGen_quick1", {}),
                          ("C05_OptGen", "C05_OptGen_quick2", {}),
                          ("C05_OptGen", "C05_OptGen_alias_quick", {}),
                          ("C05_OptGen", "C05_OptGen_fb", {}),
                          ("C05_OptGen", "C05_OptGen_nil", {})],
                "thorough": [("C05_OptGen", "C05_OptGen_thorough1", {}),
                             ("C05_OptGen", "C05_OptGen_thorough2", {}),
                             ("C05_OptGen", "C05_OptGen_alias_thorough", {}),
                             ("C05_OptGen", "C05_OptGen_fb", {}),
                             ("C05_OptGen", "C05_OptGen_nil_thorough", {})]}[tier]
    ctl = ([("C05_Gen", c, {}) for c in MUST_HOLD]
           + [("C05_OptGen" if c.startswith("C05_OptGen") else "C05_Gen", c, {})
              for c in MUST_REFUTE])
    only = os.environ.get("C05_ONLY", "")       # development aid: "memo" | "opt"
    if only == "memo":
        opt_cfgs = []
    elif only == "opt":
        gen_cfgs = []
    if only:
        ctl = []
    specs = gen_cfgs + opt_cfgs + ctl
    with cf.ThreadPoolExecutor(max_workers=1) as side:
        proof = side.submit(_tlaps, out, kit.WORK / "C05")
        results = _tlc_many(specs, workers=4)
        proof.result()
    gens, opts, extra = [], [], {}
    for (mod, cfg, _kw), res in zip(specs, results):
        out.add_tlc(res)
        if cfg in MUST_REFUTE:
            want = MUST_REFUTE[cfg]
            if want not in res.invariant_violated:
                raise kit.MachineryError(
                    f"negative control {cfg}: TLC did not report {want} violated "
                    f"(got {res.invariant_violated}): the model cannot fail")
            extra[cfg] = f"refuted: {want} (as required)"
            continue
        kit.require_clean(res, f"C05 model check {cfg}")
        if (mod, cfg) in [(m, c) for m, c, _ in gen_cfgs]:
            gens.append((cfg, res))
        elif (mod, cfg) in [(m, c) for m, c, _ in opt_cfgs]:
            opts.append((cfg, res))
        else:
            extra[cfg] = "holds"
    out.extra["model_controls"] = extra
    return gens, opts


def _memo_cases(gens):
    """History lines of the C05_Gen runs x every mapper kind whose argument
    capability fits.  All runs of a tier share the kind table; pools differ, so the
    cases carry their own tables."""
    batches = []
    for cfg, res in gens:
        printed = res.printed()
        tables = [p["tables"] for p in printed if "tables" in p]
        hists = [p for p in printed if "h" in p]
        if len(tables) != 1 or not hists:
            raise kit.MachineryError(f"{cfg}: generator printed no tables / histories")
        # (one initial state per build mode TLC may choose, round 5)
        if not cfg.endswith("_sim") and len(hists) != res.distinct - tables[0].get("ninit", 1):
            raise kit.MachineryError(
                f"{cfg}: {len(hists)} history lines for {res.distinct} states")
        t = tables[0]
        seen, cases = set(), []
        for h in hists:
            key = json.dumps(h, sort_keys=True)
            if key in seen:            # -simulate revisits prefixes
                continue
            seen.add(key)
            used = [t["args"][c["a"] - 1] for c in h["h"]]
            for ki, kd in enumerate(t["kinds"]):
                cap = kd["cap"]
                if cap == "none" and any(a["pos"] or a["kw"] for a in used):
                    continue
                if cap == "pos" and any(a["kw"] for a in used):
                    continue
                cases.append({"k": ki, "h": h["h"], "sh": h["sh"]})
        batches.append((cfg, t, cases))
    return batches


def _opt_cases(opts):
    batches = []
    for cfg, res in opts:
        printed = res.printed()
        tables = [p["opttables"] for p in printed if "opttables" in p]
        hists = [p for p in printed if "h" in p]
        if len(tables) != 1 or not hists:
            raise kit.MachineryError(f"{cfg}: optimizer generator printed nothing")
        cases = [{"opt": h["opt"], "h": h["h"], "sh": (len(h["h"]) + h["h"][0]["e"]) % 2}
                 for h in hists]
        batches.append((cfg, tables[0], cases))
    return batches


def _judge(recs, wd, tag):
    shards = kit.write_shards(recs, wd / "trace", tag, 6000)
    return kit.judge_shards("C05_Judge", "C05_Judge", shards)


def _tampered(recs, nid):
    """Two corrupted copies of a recorded trace that the real code got right."""
    import copy
    src = next((r for r in recs if "opt" not in r and r["mk"] == {"m": "ident", "scope": "all"}
                and len(r["evs"]) >= 3 and r["evs"][-1]["ev"] == "R"
                and r["evs"][-1]["r"] == r["evs"][-1]["f"] and r["evs"][-1]["r"]["rk"] == "tree"
                and sum(1 for e in r["evs"] if e["ev"] == "R") == 1), None)
    if src is None:
        return []
    twice = copy.deepcopy(src)
    twice["id"] = nid
    twice["evs"] = twice["evs"] + copy.deepcopy(twice["evs"])      # every handler runs again
    wrong = copy.deepcopy(src)
    wrong["id"] = nid + 1
    wrong["evs"][-1]["r"] = {"rk": "tree", "i": wrong["evs"][-1]["e"]}   # the input, unrenamed
    if wrong["evs"][-1]["r"] == wrong["evs"][-1]["f"]:
        return [(twice, "computed-twice")]
    return [(twice, "computed-twice"), (wrong, "not-transparent")]


def run(tier, seed, out):
    import time
    wd = kit.fresh_workdir("C05")
    t0 = time.time()
    gens, opts = _model_stage(tier, seed, out)
    kit.log(f"C05: model stage (TLC x{len(gens) + len(opts) + len(MUST_REFUTE) + len(MUST_HOLD)}) "
            f"{time.time() - t0:.1f}s")
    memo_batches = _memo_cases(gens)
    opt_batches = _opt_cases(opts)

    recs, detail = [], {}
    nid = 0
    for cfg, t, cases in memo_batches:
        for c in cases:
            c["id"] = nid
            nid += 1
        kit.log(f"C05: {cfg}: {len(cases)} (history, mapper kind) cases")
        part = kit.drive("harness.c05", "drive_case", cases, t, chunk=400)
        for c, r in zip(cases, part):
            detail[r["id"]] = {"case": c, "tables_cfg": cfg}
        recs += part
        out.extra.setdefault("memo_tables", {})[cfg] = {
            "pool": len(t["pool"]), "args": len(t["args"]), "kinds": len(t["kinds"])}
    tabs = {cfg: t for cfg, t, _ in memo_batches}
    refused = 0
    njobs = 0
    for cfg, t, cases in opt_batches:
        for c in cases:
            c["id"] = nid
            nid += 1
        kit.log(f"C05: {cfg}: {len(cases)} (optimisation sequence, history) cases")
        tabs[cfg] = t
    # all batches share one pool of fresh interpreters (start-up dominates)
    t1 = time.time()
    with cf.ThreadPoolExecutor(max_workers=max(1, len(opt_batches))) as ex:
        parts = list(ex.map(lambda b: drive_opt(b[2], b[1], procs=max(4, kit.NCPU // max(1, len(opt_batches)))),
                            opt_batches))
    for (cfg, t, cases), (part, nj) in zip(opt_batches, parts):
        njobs += nj
        byid = {c["id"]: c for c in cases}
        for r in part:
            detail[r["id"]] = {"case": byid[r["id"]], "tables_cfg": cfg}
            if "opterr" in r:
                refused += 1
            else:
                recs.append(r)
    if opt_batches:
        kit.log(f"C05: {njobs} fresh interpreters in {time.time() - t1:.1f}s")
    out.extra["optimizer_processes"] = njobs
    out.extra["optimizer_refusals_at_decoration"] = refused
    ncalls = sum(1 for r in recs for e in r["evs"] if e["ev"] in ("R", "W"))
    out.evaluations += 2 * ncalls

    # judge self-check: two tampered copies of a good recorded trace must be rejected
    # with the right clause (a judge that accepts everything is a machinery failure)
    tampered = _tampered(recs, nid)
    verdicts, st, tr = _judge(recs + [t for t, _ in tampered], wd, "c05")
    out.states += st
    out.transitions += tr
    out.traces += len(recs)
    if len(verdicts) != len(recs) + len(tampered):
        raise kit.MachineryError(f"C05 judge: {len(verdicts)} verdicts for {len(recs)} traces")
    want = {t["id"]: clause for t, clause in tampered}
    got = {v["id"]: v["v"] for v in verdicts if v["id"] in want}
    if got != want:
        raise kit.MachineryError(f"C05 judge self-check: tampered traces judged {got}, expected {want}")
    out.extra["judge_selfcheck"] = {"tampered_traces_rejected": len(tampered)}
    verdicts = [v for v in verdicts if v["id"] not in want]
    byid = {r["id"]: r for r in recs}
    fdrift = 0
    per_clause = {}
    drift_kinds = {}
    for v in verdicts:
        fdrift += v.get("fd", 0)
        if v.get("fd", 0):
            mk = byid[v["id"]]["mk"]
            kk = mk["m"] + "/" + mk.get("scope", "")
            drift_kinds[kk] = drift_kinds.get(kk, 0) + 1
        if v["v"] == "OK":
            continue
        if v["v"] == "SKIP":
            out.skipped += 1
            continue
        rec = byid[v["id"]]
        sig = signature(rec, v)
        per_clause[kit.sig_key(sig)] = per_clause.get(kit.sig_key(sig), 0) + 1
        d = detail[v["id"]]
        out.fail(sig, {"case": d["case"], "tables": tabs[d["tables_cfg"]], "verdict": v,
                       "trace": rec})
    out.drift += fdrift
    out.skipped += refused
    out.extra["failing_verdicts_by_signature"] = per_clause
    out.extra["counterpart_vs_meaning_drift_by_kind"] = drift_kinds
    for r in recs:
        out.note_case({"mk": r["mk"], "opt": r.get("opt"), "h": detail[r["id"]]["case"]["h"]},
                      nontrivial=len(r["evs"]) > 3)
    step = max(1, len(recs) // 3)
    out.samples = [{"mapper": r["mk"], "optimisation": r.get("opt"),
                    "history": detail[r["id"]]["case"]["h"], "events": r["evs"][:12]}
                   for r in recs[::step][:3]]
    out.rule = ("a case is one call history (TLC state of C05_Gen / C05_OptGen) replayed on ONE "
                "fresh instance of one memoizing mapper class, every call also on a fresh "
                "cache-free counterpart; non-trivial = more than one handler event recorded; "
                "distinct by digest of (mapper kind / optimisation sequence, history)")
    out.exhaustive = True
    out.assumptions += [
        "handlers and extra arguments are immutable and the mapper keeps no other mutable state "
        "(the documented contract of CachedMapper.get_cache_key)",
        "results are compared as trees / sets of trees / exact numbers / strings; objects that "
        "cannot be serialised are skipped",
        "optimize_mapper preconditions: a class whose handlers use *args/**kwargs is not "
        "optimized with drop_args/drop_kwargs, and no dropped argument is passed",
    ]


# -------------------------------------------------------------------------- replay
def replay(path, out):
    data = json.loads(open(path).read())
    d = data["detail"]
    wd = kit.fresh_workdir("C05")
    case, t = dict(d["case"]), d["tables"]
    case["id"] = 0
    if "opt" in case:
        part, _ = drive_opt([case], t, procs=1)
        recs = [r for r in part if "opterr" not in r]
    else:
        recs = kit.drive("harness.c05", "drive_case", [case], t, procs=1)
    verdicts, st, tr = _judge(recs, wd, "replay")
    out.states += st
    out.transitions += tr
    out.traces += len(recs)
    for v in verdicts:
        print("replayed verdict:", json.dumps(v))
        if v["v"] not in ("OK", "SKIP"):
            out.fail(signature(recs[0], v), {"case": case, "tables": t, "verdict": v,
                                             "trace": recs[0]})
    out.rule = "replay of one stored case"
