"""C04 - mapper dispatch and the stock traversals reach every node correctly.

Two halves, each with the five stages of BUILDING.md:
  dispatch:  C04_DGen (TLC: hierarchies x handler subsets x foreign objects x what the handlers
             do - return / raise; transcription of Mapper.__call__ refines the meaning, as handler
             chosen and as run: one handler, its outcome unchanged; negative control eafp)
             ->  drive_dispatch  ->  C04_DJudge
  dhist:     C04_DHist (TLC, S-layer: histories of 2-3 dispatches on ONE mapper instance over node
             classes that share handler names across hierarchies; negative control: per-instance
             memo keyed by handler name)  ->  drive_dhist  ->  C04_DHJudge
  walk:      C04_WGen (TLC: trees x traversal configurations, user node classes x handler
             subsets; stack acceptor == declarative walk contract on the canonical walk and its
             mutations), C04_WalkModel (TLC: full state graph of the acceptor on tiny trees +
             negative controls), C04_Hist (TLC, S-layer: histories of calls with varying extra
             arguments on ONE memoising mapper, cache keyed by (expression, args, kwargs); four
             negative controls with weaker keys)
             ->  drive_walk  ->  C04_WJudge (trace validation: one TLC step per recorded event)
Python only moves data and groups failing verdicts into signatures."""
from __future__ import annotations

import json

from harness import kit

DRV = "harness.c04drv"


# ------------------------------------------------------------------ dispatch half
def gen_dispatch(tier, out):
    import concurrent.futures as cf
    with cf.ThreadPoolExecutor(max_workers=2) as ex:
        fg = ex.submit(kit.run_tlc, "C04_DGen", f"C04_DGen_{tier}")
        # negative control: lookup and call under one "except AttributeError" (the handler's own
        # exception taken for a failed lookup) - TLC must find OutcomeRefinesMeaning violated
        fn = ex.submit(kit.run_tlc, "C04_DGen", "C04_DGen_neg_eafp", workers=1, heap="1g")
        gen, neg = fg.result(), fn.result()
    kit.require_clean(gen, "C04 dispatch generation / model check (DispatchImpl refines Dispatch, "
                           "the run of the dispatcher ends as the one handler it names ends)")
    if "OutcomeRefinesMeaning" not in neg.invariant_violated:
        raise kit.MachineryError("C04_DGen negative control eafp: TLC did not find the swallowed exception")
    out.extra["dispatch_negative_controls_caught"] = "1/1"
    out.add_tlc(gen)
    printed = gen.printed()
    runs = [p["runs"] for p in printed if "runs" in p]
    cases = [p for p in printed if "ty" in p]
    if len(runs) != 1 or not cases:
        raise kit.MachineryError("C04_DGen printed no runs / cases")
    for c in cases:
        if c["ty"] == "user":
            for k in c["chain"]:
                k["chars"] = k["name"]
                k["name"] = "".join(k["name"])
    cases.sort(key=lambda c: json.dumps(c.get("chain", []), sort_keys=True))
    nraise = sum(1 for c in cases if c.get("oc", {}).get("exc", "return") != "return")
    out.extra["dispatch_cases_with_raising_handlers"] = nraise
    kit.log(f"C04: TLC generated {len(cases)} dispatch cases, {nraise} with raising handlers "
            f"({gen.distinct} states, {gen.wall:.1f}s); negative control eafp caught")
    return [{"id": i, "case": c} for i, c in enumerate(cases)], runs[0]


def dispatch_sig(v):
    if v["v"] == "name":
        return {"half": "dispatch", "clause": "name", "deco": v["deco"], "own": v["own"]}
    sig = {"half": "dispatch", "clause": v["v"], "mode": v["mode"], "cat": v["cat"],
           "target": v["target"] if v["cat"] != "user" else
           ("hook" if v["target"] == "unsupported" else "handler")}
    if v["v"] in ("extra-handler", "outcome"):
        # what the handler in charge did: "return" or the exception class it raised
        sig["does"] = v.get("want", "")
    return sig


def judge_dispatch(out, recs, wd, runs):
    shards = kit.write_shards(recs, wd / "trace", "c04d", max(500, -(-len(recs) // 4)))
    verdicts, st, tr = kit.judge_shards("C04_DJudge", "C04_DJudge", shards)
    out.states += st
    out.transitions += tr
    out.traces += len(recs)
    byid = {r["id"]: r for r in recs}
    for v in verdicts:
        if v["v"] == "SKIP":
            out.skipped += 1
        elif v["v"] == "MALFORMED":
            raise kit.MachineryError(f"C04 dispatch record {v['id']} malformed")
        else:
            rec = byid[v["id"]]
            out.fail(dispatch_sig(v), {"half": "dispatch", "case": {"id": rec["id"], "case": rec["case"]},
                                       "runs": runs,
                                       "verdict": v, "recorded": rec["obs"], "names": rec["names"]})


def run_dispatch(tier, seed, out, wd):
    cases, runs = gen_dispatch(tier, out)
    recs = kit.drive(DRV, "drive_dispatch", cases, {"runs": runs}, chunk=250)
    out.evaluations += sum(len(r["obs"]) for r in recs)
    judge_dispatch(out, recs, wd, runs)
    for r in recs:
        out.note_case(r["case"], nontrivial=True)
    out.extra["dispatch_cases"] = len(recs)
    out.extra["dispatch_runs_per_case"] = len(runs)
    k = max(1, len(recs) // 2)
    out.samples += [{"dispatch_case": {kk: ([{q: c[q] for q in c if q != "chars"} for c in v]
                                            if kk == "chain" else v) for kk, v in r["case"].items()},
                     "handler_names": r["names"], "observed": r["obs"][:3]}
                    for r in recs[k:k + 1]]
    return runs


# ------------------------------------------------------------------ dispatch histories (round 7)
def gen_dhist(tier, out):
    """C04_DHist: ONE mapper instance, histories of 2-3 dispatches over node classes that share
    handler names across hierarchies; every dispatch is the meaning for its own class (model
    check); negative control: a per-instance memo keyed by handler name."""
    import concurrent.futures as cf
    with cf.ThreadPoolExecutor(max_workers=3) as ex:
        fg = ex.submit(kit.run_tlc, "C04_DHist", f"C04_DHist_{tier}", workers=6)
        fn = ex.submit(kit.run_tlc, "C04_DHist", "C04_DHist_neg_byname", workers=2, heap="2g")
        # a memo keyed by NODE CLASS is still a function of (mapper class, node class): must hold
        fc = (ex.submit(kit.run_tlc, "C04_DHist", "C04_DHist_byclass", workers=4)
              if tier == "thorough" else None)
        gen, neg = fg.result(), fn.result()
        bycls = fc.result() if fc else None
    kit.require_clean(gen, "C04_DHist (histories of dispatches on one mapper instance)")
    if "EveryDispatchIsTheMeaning" not in neg.invariant_violated:
        raise kit.MachineryError("C04_DHist negative control byname: TLC did not find the dispatch "
                                 "that follows the instance's memo instead of the node's class")
    if bycls is not None:
        kit.require_clean(bycls, "C04_DHist with a per-instance memo keyed by node class")
        out.add_tlc(bycls)
    out.add_tlc(gen)
    printed = gen.printed()
    tabs = [p for p in printed if "hruns" in p]
    cases = [p for p in printed if "hist" in p]
    if len(tabs) != 1 or not cases:
        raise kit.MachineryError("C04_DHist printed no run table / no histories")
    for c in cases:
        for e in c["hist"]:
            for k in e["chain"]:
                k["chars"] = k["name"]
                k["name"] = "".join(k["name"])
    cases.sort(key=lambda c: json.dumps(c, sort_keys=True))
    kit.log(f"C04: dispatch-history model {gen.distinct} states, negative control byname caught; "
            f"{len(cases)} histories x {len(tabs[0]['hruns'])} runs ({gen.wall:.1f}s)")
    out.extra["dispatch_history_model_states"] = gen.distinct
    out.extra["dispatch_history_negative_controls_caught"] = "1/1"
    return [{"id": i, "case": c} for i, c in enumerate(cases)], tabs[0]


def dhist_sig(v):
    if v["v"] == "name":
        return {"half": "dhist", "clause": "name"}
    return {"half": "dhist", "clause": v["v"], "mapper": v["mapper"], "mode": v["mode"],
            "target": "hook" if v["target"] == "unsupported" else "handler", "rel": v["rel"]}


def judge_dhist(out, recs, wd, tab):
    shards = kit.write_shards(recs, wd / "trace", "c04dh", max(500, -(-len(recs) // 4)))
    verdicts, st, tr = kit.judge_shards("C04_DHJudge", "C04_DHJudge", shards)
    out.states += st
    out.transitions += tr
    out.traces += len(recs)
    byid = {r["id"]: r for r in recs}
    for v in verdicts:
        if v["v"] == "MALFORMED":
            raise kit.MachineryError(f"C04 dispatch-history record {v['id']} malformed")
        rec = byid[v["id"]]
        out.fail(dhist_sig(v), {"half": "dhist", "case": {"id": rec["id"], "case": rec["case"]},
                                "tab": tab, "verdict": v, "recorded": rec["obs"], "names": rec["names"]})


def run_dhist(tier, seed, out, wd):
    cases, tab = gen_dhist(tier, out)
    recs = kit.drive(DRV, "drive_dhist", cases, tab, procs=8, chunk=250)
    out.evaluations += sum(len(row) for r in recs for row in r["obs"])
    judge_dhist(out, recs, wd, tab)
    for r in recs:
        out.note_case(r["case"], nontrivial=True)
    out.extra["dispatch_histories"] = len(recs)
    out.extra["dispatch_history_runs_per_history"] = len(tab["hruns"])
    k = max(1, len(recs) // 2)
    out.samples += [{"dispatch_history_on_one_mapper":
                     [{"base": e["base"], "chain": [{q: c[q] for q in c if q != "chars"} for c in e["chain"]]}
                      for e in r["case"]["hist"]],
                     "impl": r["case"]["impl"],
                     "observed": [[o["first"] for o in row] for row in r["obs"]]} for r in recs[k:k + 1]]


# ------------------------------------------------------------------ traversal half
BASEFAM = {"walk": "walk", "cwalk": "walk", "ident": "ident", "cident": "ident", "comb": "comb",
           "ccomb": "comb", "coll": "coll", "ccoll": "coll", "cbident": "cbident"}
CACHED = {"cwalk", "cident", "ccomb", "ccoll"}


def model_check_acceptor(tier, out):
    """C04_WalkModel: the acceptor's full state graph on all small shapes, acceptor == MDFS
    on the canonical walks and their single-fault variants; negative controls must fail."""
    import concurrent.futures as cf
    import time
    t0 = time.time()
    negs = ["bug_post_ignores_pending", "bug_visit_anywhere", "bug_end_anywhere"]
    with cf.ThreadPoolExecutor(max_workers=4) as ex:
        main = ex.submit(kit.run_tlc, "C04_WalkModel", f"C04_WalkModel_{tier}", workers=4)
        nruns = [ex.submit(kit.run_tlc, "C04_WalkModel", f"C04_WalkModel_{n}", workers=2) for n in negs]
        res = main.result()
        nres = [f.result() for f in nruns]
    kit.require_clean(res, "C04_WalkModel (stack acceptor vs declarative walk contract)")
    out.add_tlc(res)
    for n, r in zip(negs, nres):
        if not r.invariant_violated:
            raise kit.MachineryError(f"negative control {n}: TLC did not report a violated invariant")
    kit.log(f"C04: acceptor model {res.distinct} states, {len(negs)} negative controls caught "
            f"({time.time() - t0:.1f}s)")
    out.extra["acceptor_model_states"] = res.distinct
    out.extra["negative_controls_caught"] = f"{len(negs)}/{len(negs)}"


def gen_walk(tier, seed, out):
    import concurrent.futures as cf
    with cf.ThreadPoolExecutor(max_workers=2) as ex:
        fg = ex.submit(kit.run_tlc, "C04_WGen", f"C04_WGen_{tier}")
        # beyond the exhaustive bounds: random deeper trees, reproducible from the seed
        fr = (ex.submit(kit.run_tlc, "C04_WGen", "C04_WGen_random", workers=4, simulate="num=1200",
                        depth=80, seed=seed) if tier == "thorough" else None)
        gen = fg.result()
        rnd = fr.result() if fr else None
    kit.require_clean(gen, "C04 traversal generation / model check")
    out.add_tlc(gen)
    printed = gen.printed()
    trees = [p for p in printed if "tree" in p]
    ucls = [p["uclasses"] for p in printed if "uclasses" in p]
    if not trees or len(ucls) != 1:
        raise kit.MachineryError("C04_WGen printed no trees / no user class table")
    nrand = 0
    if rnd is not None:
        kit.require_clean(rnd, "C04 random traversal generation (-simulate)")
        out.add_tlc(rnd)
        seen = {json.dumps(t["tree"], sort_keys=True) for t in trees}
        for p in rnd.printed():
            if "tree" in p:
                key = json.dumps(p["tree"], sort_keys=True)
                if key not in seen:
                    seen.add(key)
                    trees.append(p)
                    nrand += 1
    cases = []
    for t in trees:
        for c in t["cfgs"]:
            # one call on a fresh mapper, applied to the root
            cases.append({"tree": t["tree"],
                          "cfg": {"fam": c["fam"], "F": c["F"], "R": c["R"], "impl": c["impl"]},
                          "calls": [{"n": 1, "a": c["a"], "k": c["k"]}]})
    nuser = sum(1 for t in trees if '"UNode"' in json.dumps(t["tree"]))
    kit.log(f"C04: TLC generated {len(trees)} trees ({nrand} random, {nuser} with user node classes) / "
            f"{len(cases)} traversal runs ({gen.distinct} states, {gen.wall:.1f}s)")
    out.extra["walk_random_trees"] = nrand
    out.extra["walk_trees_with_user_node_classes"] = nuser
    return trees, cases, ucls[0]


HIST_NEG = ["kwnames", "nokw", "noargs", "posonly_count"]


def gen_hist(tier, seed, out):
    """C04_Hist: histories of calls on one memoising mapper (model-checked: no stale result in
    any history when the cache is keyed by expression + args + kwargs; TLC must find the stale
    result for every weaker key) -> the histories to replay on the real mappers."""
    import concurrent.futures as cf
    with cf.ThreadPoolExecutor(max_workers=6) as ex:
        main = ex.submit(kit.run_tlc, "C04_Hist", f"C04_Hist_{tier}", workers=6)
        negs = [ex.submit(kit.run_tlc, "C04_Hist", f"C04_Hist_neg_{n}", workers=1, heap="1g")
                for n in HIST_NEG]
        # thorough: the complete state graph of ALL histories of <= 3 calls (model check only)
        free = ex.submit(kit.run_tlc, "C04_Hist", "C04_Hist_free", workers=4) if tier == "thorough" else None
        res = main.result()
        nres = [f.result() for f in negs]
        fres = free.result() if free else None
    kit.require_clean(res, "C04_Hist (histories on one memoising mapper)")
    out.add_tlc(res)
    if fres is not None:
        kit.require_clean(fres, "C04_Hist (all histories of <= 3 calls)")
        out.add_tlc(fres)
        out.extra["history_model_states_all_histories"] = fres.distinct
    for n, r in zip(HIST_NEG, nres):
        if "EveryCallIsTheMeaning" not in r.invariant_violated:
            raise kit.MachineryError(f"C04_Hist negative control {n}: TLC did not find the stale result")
    printed = res.printed()
    nexh = sum(1 for p in printed if "calls" in p)
    if tier == "thorough":
        rnd = kit.run_tlc("C04_Hist", "C04_Hist_random", workers=4, simulate="num=500", depth=8, seed=seed)
        kit.require_clean(rnd, "C04_Hist random histories (-simulate)")
        out.add_tlc(rnd)
        printed += rnd.printed()
    pools = [p for p in printed if "htrees" in p]
    if not pools:
        raise kit.MachineryError("C04_Hist printed no tree / argument pools")
    seen, cases = set(), []
    for h in printed:
        if "calls" not in h:
            continue
        key = json.dumps(h, sort_keys=True)
        if key in seen:
            continue
        seen.add(key)
        # the random tier has the wider pools: take trees / argument tuples from the pools of
        # the run that printed the history (the pools of a tier are prefixes of the next one)
        pool = max(pools, key=lambda p: len(p["aps"]))
        tree = pool["htrees"][h["ti"] - 1]
        calls = [{"n": c["n"], "a": pool["aps"][c["p"] - 1]["a"], "k": pool["aps"][c["p"] - 1]["k"]}
                 for c in h["calls"]]
        for c in h["cfgs"]:
            cases.append({"tree": tree, "cfg": c, "calls": calls})
    kit.log(f"C04: history model {res.distinct} states, {len(HIST_NEG)} negative controls caught; "
            f"{len(seen)} histories ({nexh} exhaustive) / {len(cases)} runs ({res.wall:.1f}s)")
    out.extra["history_model_states"] = res.distinct
    out.extra["history_negative_controls_caught"] = f"{len(HIST_NEG)}/{len(HIST_NEG)}"
    out.extra["histories"] = len(seen)
    out.extra["history_runs"] = len(cases)
    return cases


def walk_sig(v, rec):
    fam = rec["cfg"]["fam"]
    if len(rec["calls"]) > 1:
        return {"half": "hist", "fam": BASEFAM[fam], "cached": fam in CACHED, "clause": v["v"],
                "ev": v.get("ev", ""), "who": v.get("who", ""), "rel": v.get("rel", "")}
    if (v["v"] == "error" and v["ev"] == "TypeError" and fam in CACHED
            and v["who"] in ("List", "Arr")):
        return {"half": "walk", "clause": "cached-unhashable", "who": v["who"]}
    return {"half": "walk", "fam": BASEFAM[fam], "clause": v["v"], "ev": v.get("ev", ""),
            "who": v.get("who", ""), "pos": v.get("pos", 0)}


def judge_walk(out, recs, wd, ucls):
    shards = kit.write_shards(recs, wd / "trace", "c04w", min(14000, max(500, -(-len(recs) // 4))))
    verdicts, st, tr = kit.judge_shards("C04_WJudge", "C04_WJudge", shards)
    out.states += st
    out.transitions += tr
    out.traces += len(recs)
    byid = {r["id"]: r for r in recs}
    if len(verdicts) != len(recs) or {v["id"] for v in verdicts} != set(byid):
        raise kit.MachineryError(f"C04 walk judge: {len(verdicts)} verdicts for {len(recs)} traces")
    how = {}
    for v in verdicts:
        if v["v"] == "OK":
            how[v["how"]] = how.get(v["how"], 0) + 1
            if v.get("drift"):
                out.drift += 1
        elif v["v"] == "SKIP":
            out.skipped += 1
        else:
            rec = byid[v["id"]]
            out.fail(walk_sig(v, rec), {"half": "walk", "uclasses": ucls,
                                        "case": {"id": rec["id"], "tree": rec["tree"],
                                                 "cfg": rec["cfg"],
                                                 "calls": [{"n": c["n"], "a": c["a"], "k": c["k"]}
                                                           for c in rec["calls"]]},
                                        "verdict": v, "recorded": rec["calls"], "built": rec.get("built")})
    return how


def run_walk(tier, seed, out, wd):
    import concurrent.futures as cf
    with cf.ThreadPoolExecutor(max_workers=2) as ex:
        fw = ex.submit(gen_walk, tier, seed, out)
        fh = ex.submit(gen_hist, tier, seed, out)
        trees, cases, ucls = fw.result()
        hcases = fh.result()
    cases = cases + hcases
    for i, c in enumerate(cases):
        c["id"] = i
    recs = kit.drive(DRV, "drive_walk", cases, {"uclasses": ucls}, chunk=400)
    out.evaluations += sum(len(r["calls"]) for r in recs)
    how = judge_walk(out, recs, wd, ucls)
    for t in trees:
        out.note_case(t["tree"], nontrivial=json.dumps(t["tree"]).count('"id"') > 1)
    for c in hcases:
        out.note_case([c["tree"], c["calls"]], nontrivial=True)
    out.extra["walk_trees"] = len(trees)
    out.extra["walk_runs"] = len(recs) - len(hcases)
    out.extra["walk_outcomes"] = how
    out.extra["walk_events_validated"] = sum(len(c["evs"]) for r in recs for c in r["calls"])
    k = max(1, (len(recs) - len(hcases)) // 2)
    out.samples += [{"tree": r["tree"], "cfg": r["cfg"], "events": r["calls"][0]["evs"][:6],
                     "outcome": r["calls"][0]["out"]} for r in recs[k:k + 1] if r["calls"]]
    out.samples += [{"history_on_one_mapper": [{"n": c["n"], "a": c["a"], "k": c["k"],
                                                "events": len(c["evs"]), "outcome": c["out"]}
                                               for c in r["calls"]],
                     "tree": r["tree"], "cfg": r["cfg"]} for r in recs[-1:] if len(r["calls"]) > 1]


# ------------------------------------------------------------------ entry points
class _Part:
    """Evidence counters of one pipeline; merged into the Outcome by the main thread."""

    def __init__(self, out):
        import threading
        self.known = out.known
        self._lock = threading.Lock()
        self.states = self.transitions = self.traces = self.evaluations = 0
        self.skipped = self.drift = 0
        self.extra, self.samples, self.fails, self.cases = {}, [], [], []

    def add_tlc(self, res):
        with self._lock:
            self.states += res.distinct
            self.transitions += res.generated

    def fail(self, sig, detail):
        self.fails.append((sig, detail))

    def note_case(self, case_json, nontrivial=True):
        self.cases.append((case_json, nontrivial))

    def merge_into(self, out):
        out.states += self.states
        out.transitions += self.transitions
        out.traces += self.traces
        out.evaluations += self.evaluations
        out.skipped += self.skipped
        out.drift += self.drift
        out.extra.update(self.extra)
        out.samples += self.samples
        for c, nt in self.cases:
            out.note_case(c, nontrivial=nt)
        for sig, detail in self.fails:
            out.fail(sig, detail)


def run(tier, seed, out):
    import concurrent.futures as cf
    wd = kit.fresh_workdir("C04")
    parts = [_Part(out), _Part(out), _Part(out), _Part(out)]
    with cf.ThreadPoolExecutor(max_workers=4) as ex:
        futs = [ex.submit(run_dispatch, tier, seed, parts[0], wd),
                ex.submit(model_check_acceptor, tier, parts[1]),
                ex.submit(run_walk, tier, seed, parts[2], wd),
                ex.submit(run_dhist, tier, seed, parts[3], wd)]
        for f in futs:
            f.result()
    for p in parts:
        p.merge_into(out)
    out.rule = ("dispatch: TLC enumerates chains of 1-3 user classes below Expression/Variable/Sum/"
                "CommonSubexpression/Call (decorated or not, own handler name or not, CamelCase pattern "
                "names + every identifier over a 6-letter alphabet) x every subset of the handler names on "
                "the resolution order, and 31 kinds of foreign object; x what the handlers do (all return; "
                "all / one handler on the resolution order / the overridden hook raise one of 8 exception "
                "classes incl. AttributeError, KeyError, TypeError and user classes); 8 runs each "
                "(Mapper/CachedMapper x __call__/rec_fallback x extra arguments x hook overridden), recording "
                "every handler invoked and the value / exception object that came out.  dispatch histories: "
                "ONE Mapper / CachedMapper instance x 2-3 dispatches (entry point __call__ / rec_fallback by "
                "position) over node classes that share handler names across hierarchies (same class name, "
                "same explicit mapper_method, two user levels, explicit name of another stock class, the stock "
                "classes themselves) x every subset of the handler names on their resolution orders, every "
                "dispatch judged on its own class.  walk: every node kind as root "
                "(arities, omitted slice parts, kwargs) x one item (any inner kind or special leaf) in a "
                "position, twin-subtree trees; x 9 instrumented stock traversals x extra-argument tuples x "
                "visit-answer patterns x renamed leaves; user node classes rooted at Expression / "
                "AlgebraicLeaf / Leaf (1-2 levels, with and without expression fields) as items and "
                "roots x every traversal x subsets of the handlers a user may add; histories of 3 calls "
                "(A B A) on ONE instance of every memoising traversal (and the plain ones at the root) "
                "x call targets (root, inner nodes) x 7 argument tuples varying in positional values, "
                "keyword values and keyword names; non-trivial = tree with at least one child")
    out.exhaustive = True
    out.assumptions += [
        "events are observed through harness-side subclasses that log and delegate to super()",
        "object identity of node occurrences: equal small constants are never generated twice in one tree",
        "a raise of UnsupportedExpressionError/NotImplementedError counts as 'reported' whatever the node "
        "(which stock kinds each stock traversal handles is only tracked as drift); for instances of "
        "user node classes the dispatch rule decides: no handler on the resolution order among those "
        "the user added => the traversal must raise (no stock traversal implements a handler for the "
        "abstract bases AlgebraicLeaf / Leaf)",
        "extra arguments are opaque objects that compare equal iff they carry the same number",
        "memoising variants may skip an occurrence that is Python-equal to a finished one",
        "same-object clause not judged for nodes containing a list / numpy array (mutable, always copied)"]


def replay(path, out):
    wd = kit.fresh_workdir("C04")
    d = json.loads(open(path).read())
    det = d["detail"]
    if det["half"] == "dispatch":
        for k in det["case"]["case"].get("chain", []):
            k.setdefault("mix", False)
        recs = kit.drive(DRV, "drive_dispatch", [det["case"]], {"runs": det["runs"]})
        judge_dispatch(out, recs, wd, det["runs"])
    elif det["half"] == "dhist":
        recs = kit.drive(DRV, "drive_dhist", [det["case"]], det["tab"])
        judge_dhist(out, recs, wd, det["tab"])
    else:
        case = det["case"]
        if "calls" not in case:      # replay files written before histories existed
            cfg = case["cfg"]
            case = {"id": case["id"], "tree": case["tree"],
                    "cfg": {"fam": cfg["fam"], "F": cfg["F"], "R": cfg["R"], "impl": cfg.get("impl", [])},
                    "calls": [{"n": 1, "a": cfg["a"], "k": cfg["k"]}]}
        ucls = det.get("uclasses", [])
        recs = kit.drive(DRV, "drive_walk", [case], {"names": True, "uclasses": ucls})
        judge_walk(out, recs, wd, ucls)
