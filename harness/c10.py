"""C10 - symbolic differentiation yields the true derivative.

TLC (spec/C10_Gen.tla) enumerates (expression, differentiation variable) pairs, checks the
dual-number oracle's laws and "the transcribed differentiator refines the dual-number
meaning" on the model; this driver calls the real differentiate() / DifferentiationMapper for
all three non-smoothness settings and every entry point and records what came back; TLC
(spec/C10_Judge.tla) evaluates every returned tree itself and judges it against the
dual-number derivative.  Nothing in here decides a verdict."""
from __future__ import annotations

import concurrent.futures as cf
import json
import os
import shutil

from harness import kit, ser

NSS = ["none", "continuous", "discontinuous"]
NEG_BUGS = ["quot_sign", "quot_shortcut_sign", "pow_exp", "table_sin", "table_cos_sign",
            "fabs_always", "cse_drop_chain"]


# ------------------------------------------------------------------ driving
def _observe(thunk, envs):
    """Call into pymbolic; serialise the returned tree (or the exception class) and what
    pymbolic's own evaluator makes of the returned object at the points of the box."""
    from pymbolic.mapper.evaluator import EvaluationMapper
    holder = {}

    def call():
        holder["res"] = thunk()
        return holder["res"]

    out = ser.obj_to_json(call)
    if out["r"] == "ok":
        res = holder["res"]
        out["py"] = [ser.call_to_json(lambda env=env: EvaluationMapper(env)(res)) for env in envs]
    return out


def drive_case(case, extra):
    from pymbolic.mapper.differentiator import DifferentiationMapper, differentiate
    envs = [{k: ser.json_to_val(v) for k, v in env.items()} for env in extra["envs"]]
    e = ser.from_json(case["e"])
    vobj = ser.from_json(case["v"])
    calls = []
    for ns in NSS:
        if case["v"]["t"] == "Var":
            calls.append((ns, "differentiate(e,'name')",
                          lambda ns=ns: differentiate(e, case["v"]["name"], allowed_nonsmoothness=ns)))
        calls.append((ns, "differentiate(e,obj)",
                      lambda ns=ns: differentiate(e, vobj, allowed_nonsmoothness=ns)))
        calls.append((ns, "DifferentiationMapper(obj,ns)(e)",
                      lambda ns=ns: DifferentiationMapper(vobj, allowed_nonsmoothness=ns)(e)))
    # the defaults mean "none"
    calls.append(("none", "differentiate(e,obj) default", lambda: differentiate(e, vobj)))
    calls.append(("none", "DifferentiationMapper(obj)(e) default", lambda: DifferentiationMapper(vobj)(e)))
    outs, keys, runs = [], {}, []
    for ns, entry, thunk in calls:
        o = _observe(thunk, envs)
        key = json.dumps(o, sort_keys=True)
        if key not in keys:
            outs.append(o)
            keys[key] = len(outs)          # 1-based: TLA+ sequences
        runs.append({"ns": ns, "entry": entry, "k": keys[key]})
    return {"id": case["id"], "e": case["e"], "v": case["v"], "outs": outs, "runs": runs}


# ------------------------------------------------------------- classification
def classify(out, verdicts, byid, envs):
    known = [json.loads(k) for k in out.known]
    stats = {"SKIP": 0, "REFUSED": 0, "DRIFT": 0, "EVALDIFF": 0, "PTS": 0}
    failed_ids = set()
    for v in verdicts:
        if v["v"] in stats:
            stats[v["v"]] += v.get("n", 1)
            continue
        rec = byid[v["id"]]
        failed_ids.add(v["id"])
        res = rec["outs"][v["k"] - 1]
        err = res.get("v", {}).get("e", "") if res["r"] == "err" else ""
        feats = sorted(v.get("feats", []))
        hit = next((k for k in known if k.get("clause") == v["v"] and k.get("pattern") in feats
                    and k.get("error", err) == err), None)
        sig = hit or {"clause": v["v"], "error": err, "features": feats}
        entries = sorted({r["entry"] for r in rec["runs"] if r["k"] == v["k"]})
        out.fail(sig, {"case": {"id": rec["id"], "e": rec["e"], "v": rec["v"]}, "envs": envs,
                       "ns": v["ns"], "entries": entries, "point": v["env"], "recorded": res})
    out.skipped += stats["SKIP"]
    out.drift += stats["DRIFT"]
    out.extra["tree_point_pairs_judged_equal"] = out.extra.get("tree_point_pairs_judged_equal", 0) + stats["PTS"]
    out.extra["refused_as_required_only"] = out.extra.get("refused_as_required_only", 0) + stats["REFUSED"]
    out.extra["evaluator_vs_Eval_disagreements"] = (out.extra.get("evaluator_vs_Eval_disagreements", 0)
                                                    + stats["EVALDIFF"])
    stats["failed_ids"] = failed_ids
    return stats


def judge(out, recs, wd, envs, shard=1500):
    shards = kit.write_shards(recs, wd / "trace", f"c10-{os.getpid()}", shard)
    verdicts, st, tr = kit.judge_shards("C10_Judge", "C10_Judge", shards)
    out.states += st
    out.transitions += tr
    out.traces += len(recs)
    (wd / "verdicts.json").write_text(json.dumps(verdicts))
    return classify(out, verdicts, {r["id"]: r for r in recs}, envs)


# ------------------------------------------------------- negative controls
def negative_controls(out):
    """The refinement check itself must be able to fail: each seeded transcription error of the
    A-layer must make TLC report the invariant Refines violated; the unseeded one must pass."""
    def one(bug):
        r = kit.run_tlc("C10_Neg", f"C10_Neg_{bug}", workers=2, heap="1g")
        return bug, r

    res = {}
    with cf.ThreadPoolExecutor(max_workers=4) as ex:
        for bug, r in ex.map(one, ["none"] + NEG_BUGS):
            out.add_tlc(r)
            if bug == "none":
                kit.require_clean(r, "C10_Neg with the faithful transcription")
                res[bug] = "holds"
            else:
                if "Refines" not in r.invariant_violated:
                    raise kit.MachineryError(f"negative control C10_Neg_{bug}: TLC did not report "
                                             f"Refines violated\n" + "\n".join(r.out.splitlines()[-15:]))
                res[bug] = "violated (as required)"
    out.extra["negative_controls"] = res


# ------------------------------------------------------------------- run
def _workdir():
    """A scratch directory of this invocation under .work/C10/ (several ./check C10 may run at the
    same time on the shared machine; kit.fresh_workdir would wipe the other run's trace shards).
    Directories left by invocations that are no longer alive are removed."""
    base = kit.WORK / "C10"
    base.mkdir(parents=True, exist_ok=True)
    for c in base.iterdir():
        if c.name in ("trace", "verdicts.json"):           # layout of earlier versions
            shutil.rmtree(c, ignore_errors=True) if c.is_dir() else c.unlink()
        if not c.name.startswith("run-"):
            continue
        try:
            os.kill(int(c.name[4:]), 0)
        except (ValueError, ProcessLookupError):
            shutil.rmtree(c, ignore_errors=True)
        except PermissionError:
            pass
    wd = base / f"run-{os.getpid()}"
    shutil.rmtree(wd, ignore_errors=True)
    wd.mkdir(parents=True)
    return wd


def _cases(res):
    printed = res.printed()
    envs = next(p["envs"] for p in printed if "envs" in p)
    cases = [p for p in printed if "e" in p and "v" in p and "design" not in p]
    design = [p for p in printed if "design" in p]
    return envs, cases, design


def run(tier, seed, out):
    wd = _workdir()
    with cf.ThreadPoolExecutor(max_workers=1) as bg:
        neg = bg.submit(negative_controls, out)
        gen = kit.run_tlc("C10_Gen", f"C10_Gen_{tier}")
        kit.require_clean(gen, "C10 generation / oracle laws / refinement report")
        out.add_tlc(gen)
        envs, cases, design = _cases(gen)
        nexh = len(cases)
        if tier == "thorough":
            # -simulate num=N is per worker: 8 x 1500 random behaviours (root, fills, variable)
            sim = kit.run_tlc("C10_Gen", "C10_Gen_sim", workers=8, simulate="num=1500", depth=14, seed=seed)
            kit.require_clean(sim, "C10 random generation")
            out.add_tlc(sim)
            _, c2, d2 = _cases(sim)
            seen = {json.dumps(c, sort_keys=True) for c in cases}
            for c in c2:
                k = json.dumps(c, sort_keys=True)
                if k not in seen:
                    seen.add(k)
                    cases.append(c)
            design += d2
        for i, c in enumerate(cases):
            c["id"] = i
        kit.log(f"C10: TLC generated {nexh} exhaustive + {len(cases) - nexh} random (expression, variable) pairs "
                f"({gen.wall:.1f}s); {len(design)} (pair, setting) combinations fail on the model "
                f"(design-level classes)")
        recs = kit.drive("harness.c10", "drive_case", cases, {"envs": envs}, chunk=250)
        out.evaluations += sum(len(r["runs"]) for r in recs)
        stats = judge(out, recs, wd, envs)
        neg.result()
    shutil.rmtree(wd / "trace", ignore_errors=True)      # the shards are large; verdicts.json stays
    # design-level classes found on the model, by attribution feature
    dclasses = {}
    for d in design:
        key = d["design"] + ":" + ",".join(sorted(f for f in d["feats"]
                                                  if f.startswith(("copysign:", "log:", "Power:wrapped"))) or ["?"])
        dclasses[key] = dclasses.get(key, 0) + 1
    out.extra["design_level_failures_on_model"] = dclasses
    # does the code fail exactly where the transcription fails on the model?
    pair = lambda e, v: json.dumps([e, v], sort_keys=True)      # noqa: E731
    mfail = {pair(d["de"], d["dv"]) for d in design}
    cfail = {pair(det["case"]["e"], det["case"]["v"]) for _, det in out.violations}
    cfail |= {pair(r["e"], r["v"]) for r in recs if r["id"] in stats["failed_ids"]}
    out.extra["failing_pairs_model_vs_code"] = {"both": len(mfail & cfail), "model_only": len(mfail - cfail),
                                                "code_only": len(cfail - mfail)}
    out.extra["records_fully_skipped"] = stats["SKIP"]
    out.extra["records_judged_on_value_or_refusal"] = len(recs) - stats["SKIP"]
    out.extra["differentiate_calls"] = out.evaluations
    out.extra["points_per_tree"] = len(envs)
    for r in recs:
        out.note_case({"e": r["e"], "v": r["v"]}, nontrivial=r["e"]["t"] not in ("Var", "Const"))
    picks = [r for r in recs if r["e"]["t"] in ("Quotient", "Power", "Call")][:: max(1, len(recs) // 4)][:3]
    out.samples = [{"expression": r["e"], "variable": r["v"],
                    "recorded": [{k: v for k, v in o.items() if k != "py"} for o in r["outs"]],
                    "runs": r["runs"][:3]} for r in picks]
    out.rule = ("TLC enumerates (expression, variable) pairs: root skeletons (sum, product, quotient, power with "
                "constant/variable base and exponent, 11 table functions, copysign in either argument, unknown "
                "functions, If, CSE with and without prefix) over typed holes filled from leaves and depth-1 "
                "representatives (thorough: one more level + random deeper trees); variables x, y, a[0] and an "
                "absent z; each pair is differentiated under all 3 settings through 3-4 entry points and judged at "
                f"{len(envs)} points; distinct by canonical JSON, non-trivial = not a bare leaf")
    out.exhaustive = True
    out.assumptions += [
        "elementary functions take values in the exact identity-respecting rational model of spec/Eval.tla "
        "(sin^2+cos^2=1, tan=sin/cos, cosh^2-sinh^2=1, tanh=sinh/cosh, expm1=exp-1 hold; checked by TLC); a "
        "derivative that is right by the calculus table and these identities evaluates equal, a wrong rule does not",
        "points where the dual-number derivative is undefined (pole, log of a non-positive number, kink of fabs, "
        "zero argument of copysign, switching point of an If, non-positive base under a variable exponent) or "
        "outside the exact 32-bit model are not judged",
        "PyNum.tla / Eval.tla as validated by C02",
    ]


def replay(path, out):
    wd = _workdir()
    d = json.loads(open(path).read())
    envs = d["detail"]["envs"]
    recs = kit.drive("harness.c10", "drive_case", [d["detail"]["case"]], {"envs": envs})
    out.evaluations += sum(len(r["runs"]) for r in recs)
    judge(out, recs, wd, envs)
