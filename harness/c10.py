"""C10 - symbolic differentiation yields the true derivative.

TLC (spec/C10_Gen.tla) enumerates (expression, differentiation variable) pairs, checks the
dual-number oracle's laws and "the transcribed differentiator refines the dual-number
meaning" on the model; this driver calls the real differentiate() / DifferentiationMapper for
all three non-smoothness settings and every entry point and records what came back; TLC
(spec/C10_Judge.tla) evaluates every returned tree itself and judges it against the
dual-number derivative.  Nothing in here decides a verdict.

Round 2: the input is a graph of Python objects.  Every pair is also differentiated in the
object-sharing variants TLC lists for it (repeated subtrees built as ONE object), and the
histories of spec/C10_Hist.tla are replayed on ONE DifferentiationMapper instance with the
expressions really built and really deleted (drive_hist)."""
from __future__ import annotations

import concurrent.futures as cf
import json
import os
import shutil

from harness import kit, ser

NSS = ["none", "continuous", "discontinuous"]
NEG_BUGS = ["quot_sign", "quot_shortcut_sign", "pow_exp", "table_sin", "table_cos_sign",
            "fabs_always", "cse_drop_chain", "product_identity", "leaf_fallback_zero"]
# round 4: leaves that denote no number, carried as variables with reserved names (C10_Diff.OpaqueNames)
OPAQUE = {"<FunctionSymbol>": "FunctionSymbol", "<NaN>": "NaN"}


# ------------------------------------------------------------------ driving
def _observe(thunk, envs, known=None):
    """Call into pymbolic; serialise the returned tree (or the exception class) and what
    pymbolic's own evaluator makes of the returned object at the points of the box.  *known*: the
    observations (without the evaluator part) already recorded for this case -> their index; a
    known one is answered by its index."""
    from pymbolic.mapper.evaluator import EvaluationMapper
    holder = {}

    def call():
        holder["res"] = thunk()
        return holder["res"]

    out = ser.obj_to_json(call)
    if known is not None:
        k = known.get(json.dumps(out, sort_keys=True))
        if k is not None:
            return k
    if out["r"] == "ok":
        res = holder["res"]
        out["py"] = [ser.call_to_json(lambda env=env: EvaluationMapper(env)(res)) for env in envs]
    return out


def _canon(j):
    return json.dumps(j, sort_keys=True, separators=(",", ":"))


def build_shared(j, keys, memo):
    """Expr.tla record -> pymbolic object (constructors only, like ser.from_json); a subtree whose
    canonical JSON is in *keys* is built once and that ONE object is used wherever it occurs
    (memo), every other subtree is a new object at every occurrence."""
    import pymbolic.primitives as p
    k = None
    if keys:
        k = _canon(j)
        if k in keys and k in memo:
            return memo[k]
    t = j["t"]
    rec = lambda c: build_shared(c, keys, memo)      # noqa: E731
    if t in ("Sum", "Product"):
        r = getattr(p, t)(tuple(rec(c) for c in j["c"]))
    elif t in ("Quotient", "Power"):
        r = getattr(p, t)(rec(j["a"]), rec(j["b"]))
    elif t == "Sub":
        r = p.Subscript(rec(j["a"]), rec(j["b"]))
    elif t == "Cmp":
        r = p.Comparison(rec(j["a"]), j["op"], rec(j["b"]))
    elif t == "If":
        r = p.If(rec(j["i"]), rec(j["th"]), rec(j["el"]))
    elif t == "Call":
        r = p.Call(rec(j["f"]), tuple(rec(c) for c in j["c"]))
    elif t == "Look":
        r = p.Lookup(rec(j["a"]), j["name"])
    elif t == "CSE":
        r = p.CommonSubexpression(rec(j["a"]), j["prefix"] or None, j["scope"])
    elif t == "CallKw":
        from immutabledict import immutabledict
        r = p.CallWithKwargs(rec(j["f"]), tuple(rec(c) for c in j["c"]),
                             immutabledict({kw["name"]: rec(kw["e"]) for kw in j["kw"]}))
    elif t == "Var" and j["name"] in OPAQUE:
        r = getattr(p, OPAQUE[j["name"]])()
    else:
        r = ser.from_json(j)              # leaves (and kinds outside the fragment: nothing shared inside)
    if k is not None and k in keys:
        memo[k] = r
    return r


def drive_case(case, extra):
    from pymbolic.mapper.differentiator import DifferentiationMapper, differentiate
    envs = [{k: ser.json_to_val(v) for k, v in env.items()} for env in extra["envs"]]
    rep = case.get("rep", [])
    outs, keys, tkeys, runs = [], {}, {}, []
    # variant 0: nothing shared (every node a new object); then the variants TLC listed
    for vi, sh in enumerate([None] + list(case.get("shs", []))):
        if sh is None:
            e = build_shared(case["e"], None, None)
            vobj = ser.from_json(case["v"])
        else:
            share, memo = {_canon(rep[i - 1]) for i in sh}, {}
            e = build_shared(case["e"], share, memo)
            vobj = build_shared(case["v"], share, memo)
        calls = []
        for ns in NSS:
            if case["v"]["t"] == "Var":
                calls.append((ns, "differentiate(e,'name')",
                              lambda ns=ns, e=e: differentiate(e, case["v"]["name"], allowed_nonsmoothness=ns)))
            calls.append((ns, "differentiate(e,obj)",
                          lambda ns=ns, e=e, vobj=vobj: differentiate(e, vobj, allowed_nonsmoothness=ns)))
            calls.append((ns, "DifferentiationMapper(obj,ns)(e)",
                          lambda ns=ns, e=e, vobj=vobj: DifferentiationMapper(vobj, allowed_nonsmoothness=ns)(e)))
        # the defaults mean "none"
        calls.append(("none", "differentiate(e,obj) default", lambda e=e, vobj=vobj: differentiate(e, vobj)))
        calls.append(("none", "DifferentiationMapper(obj)(e) default",
                      lambda e=e, vobj=vobj: DifferentiationMapper(vobj)(e)))
        for ns, entry, thunk in calls:
            if vi == 0:
                o = _observe(thunk, envs)
                key = json.dumps(o, sort_keys=True)
                if key not in keys:
                    outs.append(o)
                    keys[key] = len(outs)          # 1-based: TLA+ sequences
                k = keys[key]
                tkeys.setdefault(json.dumps({f: x for f, x in o.items() if f != "py"}, sort_keys=True), k)
            else:
                # a sharing variant: the returned tree is the observation; pymbolic's own evaluation
                # of it is recorded when the tree is new
                o = _observe(thunk, envs, tkeys)
                if isinstance(o, int):
                    k = o
                else:
                    outs.append(o)
                    k = len(outs)
                    tkeys[json.dumps({f: x for f, x in o.items() if f != "py"}, sort_keys=True)] = k
            runs.append({"ns": ns, "entry": entry, "sh": vi, "k": k})
    return {"id": case["id"], "e": case["e"], "v": case["v"], "outs": outs, "runs": runs}


# ------------------------------------------------- histories on ONE mapper
_BOUND = 16
_HOARD = [None] * (_BOUND + 1)


def _has_cse(j):
    if isinstance(j, dict):
        return j.get("t") == "CSE" or any(_has_cse(v) for v in j.values())
    if isinstance(j, list):
        return any(_has_cse(v) for v in j)
    return False


def _plan(j, steps, pre, seen):
    """Post-order construction plan of an expression: CSE-free subtrees are built now (once, kept
    for the whole history), the CSE nodes and what is above them are built when the history says
    "build".  Equal CSE nodes of one expression are one object (as in the model)."""
    import pymbolic.primitives as p
    if not _has_cse(j):
        k = _canon(j)
        if k not in pre:
            pre[k] = ser.from_json(j)
        steps.append(("obj", pre[k], None, None))
        return len(steps) - 1
    t = j["t"]
    if t == "CSE":
        k = _canon(j)
        if k in seen:
            return seen[k]
        a = _plan(j["a"], steps, pre, seen)
        steps.append(("cse", a, j["prefix"] or None, j["scope"]))
        seen[k] = len(steps) - 1
    elif t in ("Sum", "Product"):
        ks = [_plan(c, steps, pre, seen) for c in j["c"]]
        steps.append(("nary", getattr(p, t), ks, None))
    elif t in ("Quotient", "Power"):
        a, b = _plan(j["a"], steps, pre, seen), _plan(j["b"], steps, pre, seen)
        steps.append(("bin", getattr(p, t), a, b))
    elif t == "Call":
        ks = [_plan(c, steps, pre, seen) for c in j["c"]]
        steps.append(("call", ser.from_json(j["f"]), ks, None))
    elif t == "If":
        ks = [_plan(j["th"], steps, pre, seen), _plan(j["el"], steps, pre, seen)]
        steps.append(("if", ser.from_json(j["i"]), ks[0], ks[1]))
    else:
        raise kit.MachineryError(f"C10 history pool: no construction plan for a {t} above a CSE node")
    return len(steps) - 1


def _land(child, prefix, scope, dead):
    """A new CSE node, placed on the address of a dead one if the heap offers it: the freed blocks
    are handed out last-freed-first and a node takes two of them (object, attribute values), so
    a few nodes are created and held, in both parities.  Allocation-free apart from the nodes."""
    from pymbolic.primitives import CommonSubexpression
    parity = 0
    while parity < 2:
        filler = bytes(15) if parity else None      # one block of the node's size class
        k = 0
        got = None
        while k < _BOUND:
            n2 = CommonSubexpression(child, prefix, scope)
            if id(n2) in dead:
                got = n2
                break
            _HOARD[k] = n2
            k += 1
        n2 = None
        while k > 0:
            k -= 1
            _HOARD[k] = None
        filler = None
        if got is not None:
            return got
        parity += 1
    return CommonSubexpression(child, prefix, scope)


def _execute(steps, dead, nodes):
    import pymbolic.primitives as p
    vals = [None] * len(steps)
    i, n = 0, len(steps)
    while i < n:
        kind, a, b, c = steps[i]
        if kind == "obj":
            vals[i] = a
        elif kind == "cse":
            node = _land(vals[a], b, c, dead) if dead else p.CommonSubexpression(vals[a], b, c)
            nodes.append(node)
            vals[i] = node
            node = None
        elif kind == "nary":
            vals[i] = a(tuple([vals[k] for k in b]))
        elif kind == "call":
            vals[i] = p.Call(a, tuple([vals[k] for k in b]))
        elif kind == "if":
            vals[i] = p.If(a, vals[b], vals[c])
        else:
            vals[i] = a(vals[b], vals[c])
        i += 1
    return vals[n - 1]


def drive_hist(case, extra):
    """C10_Hist: replay one history of build / diff / drop operations on ONE DifferentiationMapper.
    Every expression is built anew at its "build" and really deleted at its "drop" (the CSE nodes
    last), so that a node freed by the mapper's client is up for reuse as in the model; a new CSE
    node is placed on the address of a dead one of this history when the heap offers it.
    Returns the observation of every diff step."""
    from pymbolic.mapper.differentiator import DifferentiationMapper
    envs = [{k: ser.json_to_val(v) for k, v in env.items()} for env in extra["envs"]]
    pool, m = extra["pool"], extra["mappers"][case["m"] - 1]
    pre, plans = {}, {}
    for op in case["hist"]:
        if op["op"] == "build" and op["i"] not in plans:
            steps = []
            _plan(pool[op["i"] - 1], steps, pre, {})
            plans[op["i"]] = steps
    mapper = DifferentiationMapper(ser.from_json(m["v"]), allowed_nonsmoothness=m["ns"])
    roots, nodes, recycled, dead, obs = {}, {}, {}, set(), []
    for k, op in enumerate(case["hist"]):
        s = op["s"]
        if op["op"] == "build":
            nodes[s] = []
            roots[s] = _execute(plans[op["i"]], dead, nodes[s])
            recycled[s] = sum(1 for n in nodes[s] if id(n) in dead)
        elif op["op"] == "drop":
            dead.update([id(n) for n in nodes[s]])      # (a comprehension: no reference survives it)
            roots[s] = None
            while nodes[s]:
                nodes[s].pop()
        else:
            o = _observe(lambda: mapper(roots[s]), envs)          # noqa: B023
            obs.append({"step": k, "i": op["i"], "out": o, "recycled": recycled[s]})
    roots.clear()
    nodes.clear()
    del mapper
    return {"id": case["id"], "m": case["m"], "obs": obs}


# ------------------------------------------------------------- classification
def classify(out, verdicts, byid, envs):
    known = [json.loads(k) for k in out.known]
    stats = {"SKIP": 0, "REFUSED": 0, "DRIFT": 0, "EVALDIFF": 0, "PTS": 0}
    failed_ids = set()
    for v in verdicts:
        if v["v"] in stats:
            stats[v["v"]] += v.get("n", 1)
            continue
        rec = byid[v["id"]]
        failed_ids.add(v["id"])
        res = rec["outs"][v["k"] - 1]
        err = res.get("v", {}).get("e", "") if res["r"] == "err" else ""
        feats = sorted(v.get("feats", []))
        hit = next((k for k in known if k.get("clause") == v["v"] and k.get("pattern") in feats
                    and k.get("error", err) == err), None)
        sig = hit or {"clause": v["v"], "error": err, "features": feats}
        mine = [r for r in rec["runs"] if r["k"] == v["k"]]
        entries = sorted({r["entry"] for r in mine})
        detail = {"case": {"id": rec["id"], "e": rec["e"], "v": rec["v"]}, "envs": envs,
                  "ns": v["ns"], "entries": entries, "point": v["env"], "recorded": res}
        if "hist" in rec:
            # a step of a history on one mapper instance
            if not hit:
                sig = dict(sig, family="history-on-one-mapper")
            detail.update(hist=rec["hist"], pool=rec["pool"], mappers=rec["mappers"], where=rec["where"])
        else:
            detail["case"].update(rep=rec.get("rep", []), shs=rec.get("shs", []))
            shared = sorted({r.get("sh", 0) for r in mine})
            detail["sharing_variants"] = shared
            # the observation came only from inputs with shared objects: part of the attribution
            if not hit and 0 not in shared:
                sig = dict(sig, input="repeated-subtree-is-one-shared-object")
        out.fail(sig, detail)
    out.skipped += stats["SKIP"]
    out.drift += stats["DRIFT"]
    out.extra["tree_point_pairs_judged_equal"] = out.extra.get("tree_point_pairs_judged_equal", 0) + stats["PTS"]
    out.extra["refused_as_required_only"] = out.extra.get("refused_as_required_only", 0) + stats["REFUSED"]
    out.extra["evaluator_vs_Eval_disagreements"] = (out.extra.get("evaluator_vs_Eval_disagreements", 0)
                                                    + stats["EVALDIFF"])
    stats["failed_ids"] = failed_ids
    return stats


_JUDGED = ("id", "e", "v", "outs", "runs")


def judge(out, recs, wd, envs, shard=1500):
    shards = kit.write_shards([{k: r[k] for k in _JUDGED} for r in recs], wd / "trace", f"c10-{os.getpid()}", shard)
    verdicts, st, tr = kit.judge_shards("C10_Judge", "C10_Judge", shards)
    out.states += st
    out.transitions += tr
    out.traces += len(recs)
    (wd / "verdicts.json").write_text(json.dumps(verdicts))
    return classify(out, verdicts, {r["id"]: r for r in recs}, envs)


# ------------------------------------------------- histories: model, replay
HIST_ID0 = 1_000_000


def hist_model(tier, out):
    """The S-layer: one mapper with its CSE cache over build / diff / drop histories refines the
    history-free rules (hard invariants); with the cache keyed by ADDRESS TLC must find the stale
    derivative (negative control).  Returns (histories, pool, mappers)."""
    res = kit.run_tlc("C10_Hist", f"C10_Hist_{tier}", workers=8)
    kit.require_clean(res, "C10 history model (one mapper, CSE cache, heap)")
    out.add_tlc(res)
    printed = res.printed()
    head = [p for p in printed if "pool" in p]
    hcases = [p for p in printed if "hist" in p]
    if len(head) != 1 or not hcases:
        raise kit.MachineryError("C10 history model printed no pool / no histories")
    neg = kit.run_tlc("C10_Hist", "C10_Hist_neg", workers=4, heap="1g")
    out.add_tlc(neg)
    if "EveryDerivativeIsOfItsOwnInput" not in neg.invariant_violated:
        raise kit.MachineryError("negative control C10_Hist_neg: TLC did not report "
                                 "EveryDerivativeIsOfItsOwnInput violated\n" + "\n".join(neg.out.splitlines()[-15:]))
    for i, c in enumerate(hcases):
        c["id"] = i
    return hcases, head[0]["pool"], head[0]["mappers"]


def hist_records(hcases, hobs, pool, mappers, id0=HIST_ID0):
    """One record per distinct (mapper configuration, input, observation) of the diff steps of all
    histories (the judgement depends on nothing else); where = the (history, step) pairs."""
    groups, steps, recycled = {}, 0, 0
    for case, ob in zip(hcases, hobs):
        for o in ob["obs"]:
            steps += 1
            recycled += 1 if o["recycled"] else 0
            key = json.dumps([case["m"], o["i"], o["out"]], sort_keys=True)
            g = groups.get(key)
            if g is None:
                m = mappers[case["m"] - 1]
                g = groups[key] = {"id": id0 + len(groups), "e": pool[o["i"] - 1], "v": m["v"], "outs": [o["out"]],
                                   "runs": [{"ns": m["ns"], "entry": "one DifferentiationMapper, history", "sh": 0,
                                             "k": 1}],
                                   "hist": {"hist": case["hist"], "m": case["m"]}, "pool": pool, "mappers": mappers,
                                   "where": {"history": case["id"], "step": o["step"], "steps": 0}}
            g["where"]["steps"] += 1
    return list(groups.values()), steps, recycled


# ------------------------------------------------------- negative controls
def negative_controls(out):
    """The refinement check itself must be able to fail: each seeded transcription error of the
    A-layer must make TLC report the invariant Refines violated; the unseeded one must pass."""
    def one(bug):
        r = kit.run_tlc("C10_Neg", f"C10_Neg_{bug}", workers=2, heap="1g")
        return bug, r

    res = {}
    with cf.ThreadPoolExecutor(max_workers=4) as ex:
        for bug, r in ex.map(one, ["none"] + NEG_BUGS):
            out.add_tlc(r)
            if bug == "none":
                kit.require_clean(r, "C10_Neg with the faithful transcription")
                res[bug] = "holds"
            else:
                if "Refines" not in r.invariant_violated:
                    raise kit.MachineryError(f"negative control C10_Neg_{bug}: TLC did not report "
                                             f"Refines violated\n" + "\n".join(r.out.splitlines()[-15:]))
                res[bug] = "violated (as required)"
    out.extra["negative_controls"] = res


# ------------------------------------------------------------------- run
def _workdir():
    """A scratch directory of this invocation under .work/C10/ (several ./check C10 may run at the
    same time on the shared machine; kit.fresh_workdir would wipe the other run's trace shards).
    Directories left by invocations that are no longer alive are removed."""
    base = kit.WORK / "C10"
    base.mkdir(parents=True, exist_ok=True)
    for c in base.iterdir():
        if c.name in ("trace", "verdicts.json"):           # layout of earlier versions
            shutil.rmtree(c, ignore_errors=True) if c.is_dir() else c.unlink()
        if not c.name.startswith("run-"):
            continue
        try:
            os.kill(int(c.name[4:]), 0)
        except (ValueError, ProcessLookupError):
            shutil.rmtree(c, ignore_errors=True)
        except PermissionError:
            pass
    wd = base / f"run-{os.getpid()}"
    shutil.rmtree(wd, ignore_errors=True)
    wd.mkdir(parents=True)
    return wd


def _cases(res):
    printed = res.printed()
    envs = next(p["envs"] for p in printed if "envs" in p)
    cases = [p for p in printed if "e" in p and "v" in p and "design" not in p]
    design = [p for p in printed if "design" in p]
    return envs, cases, design


def run(tier, seed, out):
    wd = _workdir()
    with cf.ThreadPoolExecutor(max_workers=2) as bg:
        neg = bg.submit(negative_controls, out)
        hmod = bg.submit(hist_model, tier, out)
        gen = kit.run_tlc("C10_Gen", f"C10_Gen_{tier}")
        kit.require_clean(gen, "C10 generation / oracle laws / refinement report")
        out.add_tlc(gen)
        envs, cases, design = _cases(gen)
        nexh = len(cases)
        if tier == "thorough":
            # -simulate num=N is per worker: 8 x 1500 random behaviours (root, fills, variable)
            sim = kit.run_tlc("C10_Gen", "C10_Gen_sim", workers=8, simulate="num=1500", depth=14, seed=seed)
            kit.require_clean(sim, "C10 random generation")
            out.add_tlc(sim)
            _, c2, d2 = _cases(sim)
            seen = {json.dumps(c, sort_keys=True) for c in cases}
            for c in c2:
                k = json.dumps(c, sort_keys=True)
                if k not in seen:
                    seen.add(k)
                    cases.append(c)
            design += d2
        for i, c in enumerate(cases):
            c["id"] = i
        kit.log(f"C10: TLC generated {nexh} exhaustive + {len(cases) - nexh} random (expression, variable) pairs "
                f"({gen.wall:.1f}s); {len(design)} (pair, setting) combinations fail on the model "
                f"(design-level classes)")
        recs = kit.drive("harness.c10", "drive_case", cases, {"envs": envs}, chunk=250)
        for r, c in zip(recs, cases):
            r["rep"], r["shs"] = c["rep"], c["shs"]
        out.evaluations += sum(len(r["runs"]) for r in recs)
        # histories on one mapper instance
        hcases, pool, mappers = hmod.result()
        hobs = kit.drive("harness.c10", "drive_hist", hcases, {"envs": envs, "pool": pool, "mappers": mappers},
                         chunk=120)
        hrecs, hsteps, hrecycled = hist_records(hcases, hobs, pool, mappers)
        out.evaluations += hsteps
        kit.log(f"C10: {len(hcases)} histories on one mapper, {hsteps} diff steps "
                f"({hrecycled} on an input with a node at a recycled address), {len(hrecs)} distinct observations")
        stats = judge(out, recs + hrecs, wd, envs)
        neg.result()
    shutil.rmtree(wd / "trace", ignore_errors=True)      # the shards are large; verdicts.json stays
    # design-level classes found on the model, by attribution feature
    dclasses = {}
    for d in design:
        key = d["design"] + ":" + ",".join(sorted(f for f in d["feats"]
                                                  if f.startswith(("copysign:", "log:", "Power:wrapped"))) or ["?"])
        dclasses[key] = dclasses.get(key, 0) + 1
    out.extra["design_level_failures_on_model"] = dclasses
    # does the code fail exactly where the transcription fails on the model?
    pair = lambda e, v: json.dumps([e, v], sort_keys=True)      # noqa: E731
    mfail = {pair(d["de"], d["dv"]) for d in design}
    cfail = {pair(det["case"]["e"], det["case"]["v"]) for _, det in out.violations}
    cfail |= {pair(r["e"], r["v"]) for r in recs if r["id"] in stats["failed_ids"]}
    out.extra["failing_pairs_model_vs_code"] = {"both": len(mfail & cfail), "model_only": len(mfail - cfail),
                                                "code_only": len(cfail - mfail)}
    nvar = sum(len(c["shs"]) for c in cases)
    out.extra["object_sharing"] = {"pairs_with_a_repeated_subtree": sum(1 for c in cases if c["rep"]),
                                   "sharing_variants_beyond_unshared": nvar}
    out.extra["histories_on_one_mapper"] = {"histories": len(hcases), "diff_steps": hsteps,
                                            "diff_steps_with_a_recycled_node_address": hrecycled,
                                            "distinct_observations_judged": len(hrecs),
                                            "negative_control_address_keyed_cache": "violated (as required)"}
    out.extra["records_fully_skipped"] = stats["SKIP"]
    out.extra["records_judged_on_value_or_refusal"] = len(recs) + len(hrecs) - stats["SKIP"]
    out.extra["differentiate_calls"] = out.evaluations
    out.extra["points_per_tree"] = len(envs)
    for r in recs:
        out.note_case({"e": r["e"], "v": r["v"]}, nontrivial=r["e"]["t"] not in ("Var", "Const"))
    picks = [r for r in recs if r["e"]["t"] in ("Quotient", "Power", "Call")][:: max(1, len(recs) // 4)][:3]
    out.samples = [{"expression": r["e"], "variable": r["v"],
                    "recorded": [{k: v for k, v in o.items() if k != "py"} for o in r["outs"]],
                    "runs": r["runs"][:3]} for r in picks]
    out.rule = ("TLC enumerates (expression, variable) pairs: root skeletons (sum, product, quotient, power with "
                "constant/variable base and exponent, 11 table functions, copysign in either argument, unknown "
                "functions, If, CSE with and without prefix; node kinds without a rule - calls with keyword "
                "arguments, attribute lookups, FunctionSymbol, NaN - as root and inside each of these) over typed holes filled from leaves and depth-1 "
                "representatives (thorough: one more level + random deeper trees); variables x, y, a[0] and an "
                "absent z; each pair is differentiated under all 3 settings through 3-4 entry points, once with "
                "every node a new object and once per object-sharing variant TLC lists for it (all repeated "
                "subtrees / only leaves / only compound / only outermost ones built as ONE object; thorough: every "
                f"single one), and judged at {len(envs)} points; plus every build/diff/drop history (quick: 5 "
                "operations, 5 CSE-carrying expressions, 3 mapper configurations) replayed on one mapper instance; "
                "distinct by canonical JSON, non-trivial = not a bare leaf")
    out.exhaustive = True
    out.assumptions += [
        "elementary functions take values in the exact identity-respecting rational model of spec/Eval.tla "
        "(sin^2+cos^2=1, tan=sin/cos, cosh^2-sinh^2=1, tanh=sinh/cosh, expm1=exp-1 hold; checked by TLC); a "
        "derivative that is right by the calculus table and these identities evaluates equal, a wrong rule does not",
        "points where the dual-number derivative is undefined (pole, log of a non-positive number, kink of fabs, "
        "zero argument of copysign, switching point of an If, non-positive base under a variable exponent) or "
        "outside the exact 32-bit model are not judged",
        "PyNum.tla / Eval.tla as validated by C02",
    ]


def replay(path, out):
    wd = _workdir()
    d = json.loads(open(path).read())
    det = d["detail"]
    envs = det["envs"]
    if "hist" in det:
        hcase = dict(det["hist"], id=0)
        hobs = kit.drive("harness.c10", "drive_hist", [hcase],
                         {"envs": envs, "pool": det["pool"], "mappers": det["mappers"]})
        recs, n, _ = hist_records([hcase], hobs, det["pool"], det["mappers"])
        out.evaluations += n
    else:
        case = dict(det["case"])
        case.setdefault("rep", [])
        case.setdefault("shs", [])
        recs = kit.drive("harness.c10", "drive_case", [case], {"envs": envs})
        for r in recs:
            r["rep"], r["shs"] = case["rep"], case["shs"]
        out.evaluations += sum(len(r["runs"]) for r in recs)
    judge(out, recs, wd, envs)
