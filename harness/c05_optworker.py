"""C05 optimizer driver, run as a FRESH interpreter per optimisation sequence
(optimize_mapper keeps module ASTs in an lru_cache and rewrites them in place, so
what a class is rewritten into depends on what was optimized before in the same
process).  stdin: one JSON job {seq, cases, tables}; stdout: one JSON record per
case.  Records only; judges nothing."""
from __future__ import annotations

import json
import sys
import warnings


def main():
    job = json.load(sys.stdin)
    warnings.simplefilter("ignore")
    from pymbolic.mapper.optimize import optimize_mapper

    from harness import c05_mappers as cm
    from harness import c05_optmappers as om
    names = {"da": "drop_args", "dk": "drop_kwargs", "ir": "inline_rec",
             "ic": "inline_cache", "ik": "inline_get_cache_key"}
    cls, opterr = None, None
    for step in job["seq"]:
        try:
            cls = optimize_mapper(**{names[k]: bool(v) for k, v in step["o"].items()})(
                getattr(om, step["cls"]["name"]))
        except Exception as exc:  # noqa: BLE001 - recorded, not judged here
            cls, opterr = None, type(exc).__name__
    last = job["seq"][-1]["cls"]
    plain = cm.instrument(getattr(om, om.COUNTERPART[last["name"]]))
    pool, args = job["tables"]["pool"], job["tables"]["args"]
    out = []
    for case in job["cases"]:
        rec = {"id": case["id"], "opt": job["seq"], "mk": {"m": last["m"], "scope": "all", "ov": last.get("ov", [])}}
        if "val" in last:            # round 7: the value the handlers of a "nil" class return
            rec["mk"]["val"] = last["val"]
        if cls is None:
            rec.update({"opterr": opterr, "tr": [], "at": [], "evs": []})
        else:
            calls = [(pool[c["e"] - 1], args[c["a"] - 1]) for c in case["h"]]
            style = "walk" if last["m"] == "walk" else "R"
            r = cm.record_history(cm.instrument(cls), (), plain, (), style, calls,
                                  case.get("sh", 0))
            rec.update({"tr": r.trees, "at": r.args, "evs": r.evs})
        out.append(rec)
    sys.stdout.write("\n".join(json.dumps(r, separators=(",", ":")) for r in out) + "\n")


if __name__ == "__main__":
    main()
