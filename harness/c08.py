"""C08 - substitution commutes with evaluation.
Pipeline: C08_Gen (TLC: enumerate (tree, map) pairs + check the substitution lemma,
the transcribed mappers and the negative controls on the model) -> drive (real
substitute / SubstitutionMapper / CachedSubstitutionMapper, recording result trees
and per-position is-flags, and the argument objects before / after each call) ->
C08_Judge (TLC judges every record).
Second family (S-layer): C08_Hist (TLC: histories of substitute() / long-lived mapper
calls that share dict and expression objects; the caller's dicts are part of the
state; invariants CallerMapsUnchanged / EveryCallMeansItsArguments; negative controls
merge-in-place / shared default) -> drive_hist (replay on real objects, after every
event the result and the contents of every dict object) -> C08_HJudge (TLC steps the
machine along the recorded events).  Python builds objects, calls, serialises and
groups verdicts; it decides nothing."""
from __future__ import annotations

import concurrent.futures as cf
import json
import time

from harness import kit, ser

BUGS_QUICK = ["sequential", "recursive", "namefirst", "collapse", "relookup"]
BUGS_ALL = BUGS_QUICK + ["skipkw", "skipslice", "innermost"]


# ------------------------------------------------------------------ building
def build(j, memo=None):
    """Expr.tla record -> pymbolic object (constructors only).  With a memo,
    structurally identical subtrees become one shared object (the way a user who
    keeps `x = var("x")` around builds trees)."""
    import pymbolic.primitives as p
    from immutabledict import immutabledict
    key = None
    if memo is not None:
        key = json.dumps(j, sort_keys=True)
        if key in memo:
            return memo[key]
    t = j["t"]

    def b(c):
        return build(c, memo)
    if t in ("Var", "Const", "None"):
        res = ser.from_json(j)
    elif t == "Tup":
        res = tuple(b(c) for c in j["c"])
    elif t == "List":
        res = [b(c) for c in j["c"]]
    elif t in ser._NARY:
        res = getattr(p, ser._NARY[t])(tuple(b(c) for c in j["c"]))
    elif t in ser._BIN:
        res = getattr(p, ser._BIN[t])(b(j["a"]), b(j["b"]))
    elif t in ser._UN:
        res = getattr(p, ser._UN[t])(b(j["a"]))
    elif t == "Cmp":
        res = p.Comparison(b(j["a"]), j["op"], b(j["b"]))
    elif t == "If":
        res = p.If(b(j["i"]), b(j["th"]), b(j["el"]))
    elif t == "Call":
        res = p.Call(b(j["f"]), tuple(b(c) for c in j["c"]))
    elif t == "CallKw":
        res = p.CallWithKwargs(b(j["f"]), tuple(b(c) for c in j["c"]),
                               immutabledict({kw["name"]: b(kw["e"]) for kw in j["kw"]}))
    elif t == "Look":
        res = p.Lookup(b(j["a"]), j["name"])
    elif t == "CSE":
        res = p.CommonSubexpression(b(j["a"]), j["prefix"] or None, j["scope"])
    elif t == "Subst":
        res = p.Substitution(b(j["a"]), tuple(j["names"]), tuple(b(c) for c in j["c"]))
    elif t == "Deriv":
        res = p.Derivative(b(j["a"]), tuple(j["names"]))
    else:
        raise ValueError(f"unknown node kind {t!r}")
    if memo is not None:
        memo[key] = res
    return res


def kids(o):
    """Children of a pymbolic object in the order of Kids() in spec/Expr.tla."""
    import pymbolic.primitives as p
    if isinstance(o, (tuple, list)):
        return list(o)
    if not isinstance(o, p.Expression):
        return []
    n = type(o).__name__
    if n in ser._NARY_R:
        return list(o.children)
    if n in ("Quotient", "FloorDiv", "Remainder"):
        return [o.numerator, o.denominator]
    if n == "Power":
        return [o.base, o.exponent]
    if n in ("LeftShift", "RightShift"):
        return [o.shiftee, o.shift]
    if n == "Subscript":
        return [o.aggregate, o.index]
    if n in ser._UN_R:
        return [o.child]
    if n == "Comparison":
        return [o.left, o.right]
    if n == "If":
        return [o.condition, o.then, o.else_]
    if n == "Call":
        return [o.function, *o.parameters]
    if n == "CallWithKwargs":
        return [o.function, *o.parameters, *o.kw_parameters.values()]
    if n in ("Lookup", "CommonSubexpression", "Derivative"):
        return [o.aggregate if n == "Lookup" else o.child]
    if n == "Substitution":
        return [o.child, *o.values]
    return []


def same_paths(orig, res, path, acc):
    """Record the maximal positions at which `res` is the identical object."""
    if orig is res:
        acc.append(path)
        return
    if type(orig) is not type(res):
        return
    ko, kr = kids(orig), kids(res)
    if len(ko) != len(kr):
        return
    for i, (a, b) in enumerate(zip(ko, kr)):
        same_paths(a, b, [*path, i + 1], acc)


def make_map(sg, memo=None, only=None):
    d = {}
    for i, en in enumerate(sg):
        if only is not None and i not in only:
            continue
        k = en["name"] if en["kf"] == "name" else build(en["key"], memo)
        d[k] = build(en["val"], memo)
    return d


def entries_of(d):
    """A real dict -> the entry sequence of C08_Subst.tla (insertion order)."""
    out = []
    for k, v in d.items():
        if isinstance(k, str):
            out.append({"kf": "name", "name": k, "val": ser.to_json(v)})
        else:
            out.append({"kf": "expr", "key": ser.to_json(k), "val": ser.to_json(v)})
    return out


def snap_args(e_obj, d_obj):
    """The argument objects of one call as they are right now (None: not serialisable)."""
    try:
        return {"e": ser.to_json(e_obj), "sg": entries_of(d_obj) if d_obj is not None else []}
    except ser.Unserialisable:
        return None


def mod_record(before, after):
    """Compression only: equal serialisations are not shipped twice; when they differ TLC
    compares them."""
    if before is None or after is None:
        return {"r": "unser"}
    if before == after:
        return {"r": "same"}
    return {"r": "mod", "e0": before["e"], "sg0": before["sg"], "e1": after["e"], "sg1": after["sg"]}


# ------------------------------------------------------------------- driving
def drive_case(case, extra):
    import warnings

    from pymbolic.mapper.substitutor import (CachedSubstitutionMapper, SubstitutionMapper,
                                             make_subst_func, substitute)
    e, sg = case["e"], case["sg"]
    obs = {}

    mods = []

    def attempt(label, thunk, e_obj, d_obj):
        box = {}

        def run():
            box["res"] = thunk()
            return box["res"]
        before = snap_args(e_obj, d_obj)
        try:
            rec = ser.obj_to_json(run)
        except RecursionError:      # an observation like any other exception class
            rec = {"r": "err", "v": {"k": "err", "e": "RecursionError", "a": ""}}
        obs[label] = box.get("res")
        mods.append(mod_record(before, snap_args(e_obj, d_obj)))
        return rec

    with warnings.catch_warnings():
        warnings.simplefilter("ignore")
        # 1 plain mapper, fresh objects everywhere
        e1, m1 = build(e), make_map(sg)
        r1 = attempt("p", lambda: SubstitutionMapper(make_subst_func(m1))(e1), e1, m1)
        # 2 memoizing mapper, equal subtrees shared
        memo = {}
        e2 = build(e, memo)
        m2 = make_map(sg, memo)
        r2 = attempt("c", lambda: CachedSubstitutionMapper(make_subst_func(m2))(e2), e2, m2)
        # 3 the default entry point
        e3, m3 = build(e), make_map(sg)
        r3 = attempt("s", lambda: substitute(e3, m3), e3, m3)
        # 4 name keys as keyword assignments, the rest as the dict
        names = [i for i, en in enumerate(sg) if en["kf"] == "name"]
        if names:
            rest = [i for i in range(len(sg)) if i not in names]
            kw = {sg[i]["name"]: build(sg[i]["val"]) for i in names}
            e4 = build(e)
            if rest:
                m4 = make_map(sg, only=rest)
                r4 = attempt("k", lambda: substitute(e4, m4, **kw), e4, m4)
            else:
                r4 = attempt("k", lambda: substitute(e4, **kw), e4, None)
        else:
            r4 = {"r": "na"}
            mods.append({"r": "same"})
        # 5 the entry point with the plain mapper class
        e5, m5 = build(e), make_map(sg)
        r5 = attempt("q", lambda: substitute(e5, m5, mapper_cls=SubstitutionMapper), e5, m5)
    same_p, same_c = [], []
    if r1["r"] != "err":
        same_paths(e1, obs["p"], [], same_p)
    if r2["r"] != "err":
        same_paths(e2, obs["c"], [], same_c)
    res = [r1]
    for r in (r2, r3, r4, r5):
        res.append({"r": "same"} if r["r"] == "ok" and r == r1 else r)
    return {"id": case["id"], "e": e, "sg": sg, "res": res, "same_p": same_p, "same_c": same_c,
            "mod": mods}


def drive_hist(case, extra):
    """C08_Hist: replay one history on real objects that live as long as the history: the
    caller's dicts (one object per slot), the expression objects (one object per distinct
    tree, equal subtrees shared - a session in which `x = var("x")` is kept around), one
    long-lived plain and one long-lived memoizing mapper per dict (made at first use from
    make_subst_func(d); dropped when the caller itself puts a new entry into d, as a memo
    over an edited map has no stated meaning).  After every event: the result, the contents
    of EVERY dict object, the expression argument."""
    import warnings

    from pymbolic.mapper.substitutor import (CachedSubstitutionMapper, SubstitutionMapper,
                                             make_subst_func, substitute)
    memo = {}
    dicts = [make_map(sg, memo) for sg in case["maps"]]
    mappers = {}
    obs = []

    def snap_maps():
        out = []
        for d in dicts:
            try:
                out.append({"r": "ok", "m": entries_of(d)})
            except ser.Unserialisable:
                out.append({"r": "unser"})
        return out

    def snap_tree(o):
        try:
            return {"r": "ok", "e": ser.to_json(o)}
        except ser.Unserialisable:
            return {"r": "unser"}

    with warnings.catch_warnings():
        warnings.simplefilter("ignore")
        for ev in case["hist"]:
            if ev["op"] == "put":
                en = ev["en"]
                k = en["name"] if en["kf"] == "name" else build(en["key"], memo)
                dicts[ev["d"] - 1][k] = build(en["val"], memo)
                for key in [key for key in mappers if key[1] == ev["d"]]:
                    del mappers[key]
                obs.append({"maps": snap_maps()})
                continue
            e_obj = build(ev["e"], memo)
            d_obj = dicts[ev["d"] - 1] if ev["d"] else None
            kw = {en["name"]: build(en["val"], memo) for en in ev["kw"]}
            via = ev["via"]
            if via in ("p", "c"):
                if (via, ev["d"]) not in mappers:
                    cls = SubstitutionMapper if via == "p" else CachedSubstitutionMapper
                    mappers[via, ev["d"]] = cls(make_subst_func(d_obj))
                m = mappers[via, ev["d"]]

                def thunk(m=m, e_obj=e_obj):
                    return m(e_obj)
            else:
                extra_kw = {"mapper_cls": SubstitutionMapper} if via == "q" else {}
                if d_obj is None:
                    def thunk(e_obj=e_obj, kw=kw, extra_kw=extra_kw):
                        return substitute(e_obj, **extra_kw, **kw)
                else:
                    def thunk(e_obj=e_obj, d_obj=d_obj, kw=kw, extra_kw=extra_kw):
                        return substitute(e_obj, d_obj, **extra_kw, **kw)
            try:
                res = ser.obj_to_json(thunk)
            except RecursionError:
                res = {"r": "err", "v": {"k": "err", "e": "RecursionError", "a": ""}}
            obs.append({"res": res, "maps": snap_maps(), "arg": snap_tree(e_obj)})
    return {"id": case["id"], "maps": case["maps"], "hist": case["hist"], "obs": obs}


# ----------------------------------------------------------------- verdicts
def key_forms(sg):
    out = []
    for en in sg:
        out.append("name" if en["kf"] == "name" else en["key"]["t"])
    return sorted(out)


def signature(rec, v):
    """Attribution: the failing clause plus the named deviation of the A-layer that
    TLC found to explain it; without one, the structural place of the failure."""
    if v.get("dev", "none") != "none":
        return {"clause": v["v"], "dev": v["dev"]}
    return {"clause": v["v"], "dev": "none", "why": v.get("why", ""), "root": rec["e"]["t"],
            "keys": key_forms(rec["sg"])}


def hist_signature(rec, v):
    """Attribution for a history verdict: the failing clause, how the failing call passed
    its replacements, and what had happened to the same dict object before."""
    k = v.get("call", 0)
    ev = rec["hist"][k - 1] if k else {"op": "none"}
    if ev["op"] != "call":
        return {"clause": v["v"], "dev": "none", "why": v.get("why", ""), "via": ev["op"],
                "args": ev["op"], "prior": ""}
    args = "+".join(([] if not ev["d"] else ["dict"]) + ([] if not ev["kw"] else ["kw"])) or "nothing"
    prior = set()
    for pe in rec["hist"][:k - 1]:
        if pe["d"] == ev["d"]:
            prior.add("put" if pe["op"] == "put" else ("kw-call" if pe["kw"] else "call"))
    return {"clause": v["v"], "dev": "none", "why": v.get("why", ""), "via": ev["via"],
            "args": args, "prior": "+".join(sorted(prior))}


def classify_hist(out, verdicts, byid):
    drift = out.extra.setdefault("drift_kinds", {})
    for v in verdicts:
        if v["v"] == "SKIP":
            out.skipped += v.get("n", 1)
        elif v["v"] == "DRIFT":
            out.drift += 1
            drift[v["what"]] = drift.get(v["what"], 0) + 1
        else:
            rec = byid[v["id"]]
            out.fail(hist_signature(rec, v),
                     {"case": {"id": rec["id"], "maps": rec["maps"], "hist": rec["hist"]},
                      "recorded": rec, "verdict": v})


def classify(out, verdicts, byid):
    drift = {}
    for v in verdicts:
        if v["v"] == "SKIP":
            out.skipped += v.get("n", 1)
        elif v["v"] == "DRIFT":
            out.drift += 1
            drift[v["what"]] = drift.get(v["what"], 0) + 1
        else:
            rec = byid[v["id"]]
            out.fail(signature(rec, v),
                     {"case": {"id": rec["id"], "e": rec["e"], "sg": rec["sg"]},
                      "recorded": rec, "verdict": v})
    out.extra.setdefault("drift_kinds", {}).update(drift)


def judge(out, recs, wd):
    shards = kit.write_shards(recs, wd / "trace", "c08", 5000)
    verdicts, st, tr = kit.judge_shards("C08_Judge", "C08_Judge", shards)
    out.states += st
    out.transitions += tr
    out.traces += len(recs)
    classify(out, verdicts, {r["id"]: r for r in recs})
    return verdicts


def judge_hist(recs, wd):
    """Trace validation of the driven histories (TLC steps C08_Hist's machine along them)."""
    shards = kit.write_shards(recs, wd / "trace", "c08h", 12000)
    return kit.judge_shards("C08_HJudge", "C08_HJudge", shards, jvms=2, workers=8)


def corrupt_hist(rec):
    """Binding control: a dict object that holds one entry more than its owner put there."""
    ob = rec["obs"][0]
    if ob["maps"][0]["r"] != "ok":
        return None
    ob["maps"][0]["m"].append({"kf": "name", "name": "q9", "val": {"t": "Var", "name": "x"}})
    return rec


HIST_NEG = [("C08_Hist_neg_inplace", ["NotBothBroken"], []),
            ("C08_Hist_neg_shareddefault", ["EveryCallMeansItsArguments"], ["CallerMapsUnchanged"])]


def hist_family(tier, seed, wd):
    """S-layer: model-check + generate the histories, refute the negative controls, drive,
    validate the traces.  Returns everything the main thread needs to classify."""
    t0 = time.time()
    runs = []
    gen = kit.run_tlc("C08_Hist", "C08_Hist_quick" if tier == "quick" else "C08_Hist_wide",
                      workers=4, heap="2g")
    kit.require_clean(gen, "C08_Hist model check (histories, depth 2)")
    runs.append(gen)
    hists = [p for p in gen.printed() if "hist" in p]
    if tier == "thorough":
        deep = kit.run_tlc("C08_Hist", "C08_Hist_thorough", workers=8)
        kit.require_clean(deep, "C08_Hist model check (histories, depth 3 with puts)")
        runs.append(deep)
        hists += [p for p in deep.printed() if "hist" in p]
        rnd = kit.run_tlc("C08_Hist", "C08_Hist_sim", simulate="num=750", depth=8, seed=seed,
                          workers=4, heap="2g")     # num is per worker
        kit.require_clean(rnd, "C08_Hist random histories (-simulate)")
        runs.append(rnd)
        hists += [p for p in rnd.printed() if "hist" in p]
    neg = {}

    def one_neg(c):
        return kit.run_tlc("C08_Hist", c[0], workers=2, heap="2g", tag=f"C08_Hist.{c[0]}")
    with cf.ThreadPoolExecutor(max_workers=3) as ex:
        negruns = list(ex.map(one_neg, HIST_NEG))
    for (cfg, must, must_not), r in zip(HIST_NEG, negruns):
        if any(i not in r.invariant_violated for i in must) or \
                any(i in r.invariant_violated for i in must_not):
            tail = "\n".join(r.out.splitlines()[-25:])
            raise kit.MachineryError(f"negative control {cfg}: expected TLC to refute {must} "
                                     f"(and not {must_not}), got {r.invariant_violated}\n{tail}")
        neg[cfg] = "refuted: " + ", ".join(must)
    uniq, seen = [], set()
    for h in hists:
        k = json.dumps([h["maps"], h["hist"]], sort_keys=True)
        if k not in seen:
            seen.add(k)
            uniq.append({"id": len(uniq), "maps": h["maps"], "hist": h["hist"]})
    if not uniq:
        raise kit.MachineryError("C08_Hist printed no history")
    kit.log(f"C08: TLC checked {sum(r.distinct for r in runs)} history states "
            f"(CallerMapsUnchanged, EveryCallMeansItsArguments), generated {len(uniq)} histories, "
            f"{len(neg)} negative controls refuted ({time.time() - t0:.1f}s, in background)")
    (wd / "hists.json").write_text(json.dumps(uniq))
    recs = kit.drive("harness.c08", "drive_hist", uniq, None, procs=8, chunk=400)
    # binding control: a few corrupted copies (a dict holding one entry more than its owner put
    # there) ride along in the same judge run; TLC must reject every one of them
    import copy
    ctl = []
    for r in recs[::max(1, len(recs) // 3)][:3]:
        c = corrupt_hist(copy.deepcopy(r))
        if c is not None:
            c["id"] = 10 ** 9 + len(ctl)
            ctl.append(c)
    allv, st, tr = judge_hist(recs + ctl, wd)
    verdicts = [v for v in allv if v["id"] < 10 ** 9]
    hit = {v["id"] for v in allv if v["id"] >= 10 ** 9 and v["v"] == "hist-map-modified"}
    if not ctl or len(hit) != len(ctl):
        raise kit.MachineryError(f"C08_HJudge accepted {len(ctl) - len(hit)} of {len(ctl)} corrupted "
                                 f"histories (the trace specification does not bind the recorded dicts)")
    nctl = len(ctl)
    return {"runs": runs, "recs": recs, "verdicts": verdicts, "states": st, "trans": tr,
            "neg": neg, "controls": nctl}

    shards = kit.write_shards(recs, wd / "trace", "c08", 5000)
    verdicts, st, tr = kit.judge_shards("C08_Judge", "C08_Judge", shards)
    out.states += st
    out.transitions += tr
    out.traces += len(recs)
    classify(out, verdicts, {r["id"]: r for r in recs})
    return verdicts


def negative_controls(bugs):
    """Each broken notion of substitution must make TLC refute the lemma."""
    def one(b):
        r = kit.run_tlc("C08_Gen", f"C08_Gen_Buggy_{b}", workers=2, heap="2g",
                        tag=f"C08_Gen.Buggy_{b}")
        return b, r
    res = {}
    t0 = time.time()
    with cf.ThreadPoolExecutor(max_workers=3) as ex:
        for b, r in ex.map(one, bugs):
            if "Lemma" not in r.invariant_violated:
                tail = "\n".join(r.out.splitlines()[-25:])
                raise kit.MachineryError(
                    f"negative control Bug={b}: TLC did not refute the lemma\n{tail}")
            res[b] = "lemma refuted"
    kit.log(f"C08: {len(bugs)} negative controls refuted by TLC ({time.time() - t0:.1f}s, in background)")
    return res


def collect(res, out):
    printed = res.printed()
    cases = [p for p in printed if "e" in p and "sg" in p]
    design = {}
    for p in printed:
        if "design" in p:
            for c in p["design"]:
                design[c] = design.get(c, 0) + 1
    agg = sum(1 for p in printed if "agg" in p)
    return cases, design, agg


def run(tier, seed, out):
    wd = kit.fresh_workdir("C08")
    hbg = cf.ThreadPoolExecutor(max_workers=1)
    hfam = hbg.submit(hist_family, tier, seed, wd)
    with cf.ThreadPoolExecutor(max_workers=1) as bg:
        neg = bg.submit(negative_controls, BUGS_QUICK if tier == "quick" else BUGS_ALL)
        gen = kit.run_tlc("C08_Gen", f"C08_Gen_{tier}", workers=max(4, kit.NCPU - 4))
        kit.require_clean(gen, "C08 model check (lemma, transcriptions) / generation")
        out.add_tlc(gen)
        cases, design, agg = collect(gen, out)
        nexh = len(cases)
        kit.log(f"C08: TLC checked {gen.distinct} states and generated {nexh} (tree, map) pairs "
                f"({gen.wall:.1f}s); design-level classes on the model: {design}; "
                f"aggregate-update lemma witnesses: {agg}")
        if not cases or not agg:
            raise kit.MachineryError("C08 generator printed no cases / no aggregate-lemma witness")
        if tier == "thorough":
            rnd = kit.run_tlc("C08_Gen", "C08_Gen_sim", simulate="num=500", depth=20, seed=seed)
            kit.require_clean(rnd, "C08 random trees (-simulate)")
            out.add_tlc(rnd)
            more, d2, a2 = collect(rnd, out)
            for k, n in d2.items():
                design[k] = design.get(k, 0) + n
            kit.log(f"C08: -simulate seed={seed} produced {len(more)} random pairs ({rnd.wall:.1f}s)")
            cases += more
        out.extra["negative_controls"] = neg.result()
    uniq, seen = [], set()
    for c in cases:
        k = json.dumps([c["e"], c["sg"]], sort_keys=True)
        if k not in seen:
            seen.add(k)
            uniq.append({"e": c["e"], "sg": c["sg"]})
    for i, c in enumerate(uniq):
        c["id"] = i
    (wd / "cases.json").write_text(json.dumps(uniq))
    recs = kit.drive("harness.c08", "drive_case", uniq, None, chunk=400)
    out.evaluations += sum(sum(1 for r in rec["res"] if r["r"] != "na") for rec in recs)
    judge(out, recs, wd)
    for r in recs:
        out.note_case([r["e"], r["sg"]],
                      nontrivial=bool(r["sg"]) and r["e"]["t"] not in ("Var", "Const"))
    # the histories (S-layer), run in the background since the start
    try:
        hf = hfam.result()
    finally:
        hbg.shutdown(wait=False)
    for r in hf["runs"]:
        out.add_tlc(r)
    out.states += hf["states"]
    out.transitions += hf["trans"]
    out.traces += len(hf["recs"])
    out.evaluations += sum(sum(1 for ev in r["hist"] if ev["op"] == "call") for r in hf["recs"])
    classify_hist(out, hf["verdicts"], {r["id"]: r for r in hf["recs"]})
    for r in hf["recs"]:
        out.note_case([r["maps"], r["hist"]], nontrivial=True)
    out.extra["histories_driven"] = len(hf["recs"])
    out.extra["history_negative_controls"] = hf["neg"]
    out.extra["history_binding_controls_rejected"] = hf["controls"]
    hs = hf["recs"][len(hf["recs"]) // 2]
    step = max(1, len(recs) // 3)
    out.samples = [{"tree": r["e"], "map": r["sg"], "recorded": r["res"],
                    "identical_positions_plain": r["same_p"]} for r in recs[::step][:3]]
    out.samples.append({"dicts": hs["maps"], "history": hs["hist"], "recorded": hs["obs"]})
    out.extra["pairs_exhaustive"] = nexh
    out.extra["pairs_driven"] = len(recs)
    out.extra["design_level_classes_on_model"] = design
    out.extra["aggregate_lemma_witnesses"] = agg
    out.rule = ("TLC enumerates root skeleton (every node kind) x typed holes x substitution maps "
                "(<= 2 keys quick, <= 3 thorough; names, Variables, Subscript and Lookup nodes; values "
                "mentioning other keys); pairs in which nothing is replaced are driven for three maps "
                "only; plus same-kind nests (a node directly below a node of its own kind: unary kinds in all "
                "combinations and three deep, every n-ary / binary kind, CSE, If, Call, Comparison) with a "
                "key underneath x all quick maps, and every root kind / nest x maps whose inserted value "
                "is one of each node kind (the replacement creates the nest); plus key overlaps: a compound "
                "key K (t[x], t[1], o.p) together with replacements (variables by name / as Variable, other "
                "compound keys) that turn a NON-key Subscript / Lookup of the tree into K - by its index, its "
                "aggregate, both, a swap - with K's value a constant or mentioning K and further keys, the "
                "near-key alone, next to K, below / above Subscript and Lookup nodes (thorough: under every "
                "root kind); thorough adds -simulate "
                "random deeper trees; one case = one pair through 5 entry "
                "points, judged in 4 environments + identity flags; non-trivial = non-empty map and a "
                "composite tree; distinct by canonical JSON digest.  Histories (C08_Hist): 6 pairs of "
                "caller dicts x every sequence of 2 calls (quick; thorough: + 3 events with the "
                "caller's own puts, last call on an object used before, + -simulate sequences of 5) "
                "over {no dict, dict 1, dict 2} x keyword sets x trees x {substitute with the memoizing "
                "/ the plain class, one long-lived plain / memoizing mapper per dict}; one case = one "
                "history, every call judged in 4 environments, every dict object judged after every event")
    out.exhaustive = True
    out.assumptions += [
        "CPython numeric semantics as transcribed in PyNum.tla / Eval.tla",
        "a Slice is compared as the tuple of its parts (no evaluator for slices exists)",
        "Substitution / Derivative nodes have no meaning in Eval: value clause skipped below them",
        "identity under the memoizing mapper is judged on inputs whose equal subtrees are shared objects",
        "when a map holds both a name and the Variable of that name the Variable entry applies "
        "(the documented look-up order)",
        "histories: a key is never given twice in one call (dict and keyword argument); a long-lived "
        "mapper is discarded when the caller itself edits the dict it was made from"]


def replay(path, out):
    wd = kit.fresh_workdir("C08")
    d = json.loads(open(path).read())
    case = d["detail"]["case"]
    if "hist" in case:
        recs = kit.drive("harness.c08", "drive_hist", [case], None)
        out.evaluations += sum(1 for ev in case["hist"] if ev["op"] == "call")
        vs, st, tr = judge_hist(recs, wd)
        out.states += st
        out.transitions += tr
        out.traces += 1
        classify_hist(out, vs, {r["id"]: r for r in recs})
        kit.log(f"C08 replay: recorded {json.dumps(recs[0])[:3000]}")
        kit.log(f"C08 replay: verdicts {vs}")
        return
    recs = kit.drive("harness.c08", "drive_case", [case], None)
    out.evaluations += sum(sum(1 for r in rec["res"] if r["r"] != "na") for rec in recs)
    vs = judge(out, recs, wd)
    kit.log(f"C08 replay: recorded {json.dumps(recs[0])[:2000]}")
    kit.log(f"C08 replay: verdicts {vs}")
