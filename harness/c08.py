"""C08 - substitution commutes with evaluation.
Pipeline: C08_Gen (TLC: enumerate (tree, map) pairs + check the substitution lemma,
the transcribed mappers and the negative controls on the model) -> drive (real
substitute / SubstitutionMapper / CachedSubstitutionMapper, recording result trees
and per-position is-flags) -> C08_Judge (TLC judges every record).  Python builds
objects, calls, serialises and groups verdicts; it decides nothing."""
from __future__ import annotations

import concurrent.futures as cf
import json
import time

from harness import kit, ser

BUGS_QUICK = ["sequential", "recursive", "namefirst"]
BUGS_ALL = BUGS_QUICK + ["skipkw", "skipslice", "innermost"]


# ------------------------------------------------------------------ building
def build(j, memo=None):
    """Expr.tla record -> pymbolic object (constructors only).  With a memo,
    structurally identical subtrees become one shared object (the way a user who
    keeps `x = var("x")` around builds trees)."""
    import pymbolic.primitives as p
    from immutabledict import immutabledict
    key = None
    if memo is not None:
        key = json.dumps(j, sort_keys=True)
        if key in memo:
            return memo[key]
    t = j["t"]

    def b(c):
        return build(c, memo)
    if t in ("Var", "Const", "None"):
        res = ser.from_json(j)
    elif t == "Tup":
        res = tuple(b(c) for c in j["c"])
    elif t == "List":
        res = [b(c) for c in j["c"]]
    elif t in ser._NARY:
        res = getattr(p, ser._NARY[t])(tuple(b(c) for c in j["c"]))
    elif t in ser._BIN:
        res = getattr(p, ser._BIN[t])(b(j["a"]), b(j["b"]))
    elif t in ser._UN:
        res = getattr(p, ser._UN[t])(b(j["a"]))
    elif t == "Cmp":
        res = p.Comparison(b(j["a"]), j["op"], b(j["b"]))
    elif t == "If":
        res = p.If(b(j["i"]), b(j["th"]), b(j["el"]))
    elif t == "Call":
        res = p.Call(b(j["f"]), tuple(b(c) for c in j["c"]))
    elif t == "CallKw":
        res = p.CallWithKwargs(b(j["f"]), tuple(b(c) for c in j["c"]),
                               immutabledict({kw["name"]: b(kw["e"]) for kw in j["kw"]}))
    elif t == "Look":
        res = p.Lookup(b(j["a"]), j["name"])
    elif t == "CSE":
        res = p.CommonSubexpression(b(j["a"]), j["prefix"] or None, j["scope"])
    elif t == "Subst":
        res = p.Substitution(b(j["a"]), tuple(j["names"]), tuple(b(c) for c in j["c"]))
    elif t == "Deriv":
        res = p.Derivative(b(j["a"]), tuple(j["names"]))
    else:
        raise ValueError(f"unknown node kind {t!r}")
    if memo is not None:
        memo[key] = res
    return res


def kids(o):
    """Children of a pymbolic object in the order of Kids() in spec/Expr.tla."""
    import pymbolic.primitives as p
    if isinstance(o, (tuple, list)):
        return list(o)
    if not isinstance(o, p.Expression):
        return []
    n = type(o).__name__
    if n in ser._NARY_R:
        return list(o.children)
    if n in ("Quotient", "FloorDiv", "Remainder"):
        return [o.numerator, o.denominator]
    if n == "Power":
        return [o.base, o.exponent]
    if n in ("LeftShift", "RightShift"):
        return [o.shiftee, o.shift]
    if n == "Subscript":
        return [o.aggregate, o.index]
    if n in ser._UN_R:
        return [o.child]
    if n == "Comparison":
        return [o.left, o.right]
    if n == "If":
        return [o.condition, o.then, o.else_]
    if n == "Call":
        return [o.function, *o.parameters]
    if n == "CallWithKwargs":
        return [o.function, *o.parameters, *o.kw_parameters.values()]
    if n in ("Lookup", "CommonSubexpression", "Derivative"):
        return [o.aggregate if n == "Lookup" else o.child]
    if n == "Substitution":
        return [o.child, *o.values]
    return []


def same_paths(orig, res, path, acc):
    """Record the maximal positions at which `res` is the identical object."""
    if orig is res:
        acc.append(path)
        return
    if type(orig) is not type(res):
        return
    ko, kr = kids(orig), kids(res)
    if len(ko) != len(kr):
        return
    for i, (a, b) in enumerate(zip(ko, kr)):
        same_paths(a, b, [*path, i + 1], acc)


def make_map(sg, memo=None, only=None):
    d = {}
    for i, en in enumerate(sg):
        if only is not None and i not in only:
            continue
        k = en["name"] if en["kf"] == "name" else build(en["key"], memo)
        d[k] = build(en["val"], memo)
    return d


# ------------------------------------------------------------------- driving
def drive_case(case, extra):
    import warnings

    from pymbolic.mapper.substitutor import (CachedSubstitutionMapper, SubstitutionMapper,
                                             make_subst_func, substitute)
    e, sg = case["e"], case["sg"]
    obs = {}

    def attempt(label, thunk):
        box = {}

        def run():
            box["res"] = thunk()
            return box["res"]
        try:
            rec = ser.obj_to_json(run)
        except RecursionError:      # an observation like any other exception class
            rec = {"r": "err", "v": {"k": "err", "e": "RecursionError", "a": ""}}
        obs[label] = box.get("res")
        return rec

    with warnings.catch_warnings():
        warnings.simplefilter("ignore")
        # 1 plain mapper, fresh objects everywhere
        e1 = build(e)
        r1 = attempt("p", lambda: SubstitutionMapper(make_subst_func(make_map(sg)))(e1))
        # 2 memoizing mapper, equal subtrees shared
        memo = {}
        e2 = build(e, memo)
        m2 = make_map(sg, memo)
        r2 = attempt("c", lambda: CachedSubstitutionMapper(make_subst_func(m2))(e2))
        # 3 the default entry point
        r3 = attempt("s", lambda: substitute(build(e), make_map(sg)))
        # 4 name keys as keyword assignments, the rest as the dict
        names = [i for i, en in enumerate(sg) if en["kf"] == "name"]
        if names:
            rest = [i for i in range(len(sg)) if i not in names]
            kw = {sg[i]["name"]: build(sg[i]["val"]) for i in names}
            if rest:
                r4 = attempt("k", lambda: substitute(build(e), make_map(sg, only=rest), **kw))
            else:
                r4 = attempt("k", lambda: substitute(build(e), **kw))
        else:
            r4 = {"r": "na"}
        # 5 the entry point with the plain mapper class
        r5 = attempt("q", lambda: substitute(build(e), make_map(sg),
                                             mapper_cls=SubstitutionMapper))
    same_p, same_c = [], []
    if r1["r"] != "err":
        same_paths(e1, obs["p"], [], same_p)
    if r2["r"] != "err":
        same_paths(e2, obs["c"], [], same_c)
    res = [r1]
    for r in (r2, r3, r4, r5):
        res.append({"r": "same"} if r["r"] == "ok" and r == r1 else r)
    return {"id": case["id"], "e": e, "sg": sg, "res": res, "same_p": same_p, "same_c": same_c}


# ----------------------------------------------------------------- verdicts
def key_forms(sg):
    out = []
    for en in sg:
        out.append("name" if en["kf"] == "name" else en["key"]["t"])
    return sorted(out)


def signature(rec, v):
    """Attribution: the failing clause plus the named deviation of the A-layer that
    TLC found to explain it; without one, the structural place of the failure."""
    if v.get("dev", "none") != "none":
        return {"clause": v["v"], "dev": v["dev"]}
    return {"clause": v["v"], "dev": "none", "why": v.get("why", ""), "root": rec["e"]["t"],
            "keys": key_forms(rec["sg"])}


def classify(out, verdicts, byid):
    drift = {}
    for v in verdicts:
        if v["v"] == "SKIP":
            out.skipped += v.get("n", 1)
        elif v["v"] == "DRIFT":
            out.drift += 1
            drift[v["what"]] = drift.get(v["what"], 0) + 1
        else:
            rec = byid[v["id"]]
            out.fail(signature(rec, v),
                     {"case": {"id": rec["id"], "e": rec["e"], "sg": rec["sg"]},
                      "recorded": rec, "verdict": v})
    out.extra["drift_kinds"] = drift


def judge(out, recs, wd):
    shards = kit.write_shards(recs, wd / "trace", "c08", 5000)
    verdicts, st, tr = kit.judge_shards("C08_Judge", "C08_Judge", shards)
    out.states += st
    out.transitions += tr
    out.traces += len(recs)
    classify(out, verdicts, {r["id"]: r for r in recs})
    return verdicts


def negative_controls(bugs):
    """Each broken notion of substitution must make TLC refute the lemma."""
    def one(b):
        r = kit.run_tlc("C08_Gen", f"C08_Gen_Buggy_{b}", workers=2, heap="2g",
                        tag=f"C08_Gen.Buggy_{b}")
        return b, r
    res = {}
    t0 = time.time()
    with cf.ThreadPoolExecutor(max_workers=3) as ex:
        for b, r in ex.map(one, bugs):
            if "Lemma" not in r.invariant_violated:
                tail = "\n".join(r.out.splitlines()[-25:])
                raise kit.MachineryError(
                    f"negative control Bug={b}: TLC did not refute the lemma\n{tail}")
            res[b] = "lemma refuted"
    kit.log(f"C08: {len(bugs)} negative controls refuted by TLC ({time.time() - t0:.1f}s, in background)")
    return res


def collect(res, out):
    printed = res.printed()
    cases = [p for p in printed if "e" in p and "sg" in p]
    design = {}
    for p in printed:
        if "design" in p:
            for c in p["design"]:
                design[c] = design.get(c, 0) + 1
    agg = sum(1 for p in printed if "agg" in p)
    return cases, design, agg


def run(tier, seed, out):
    wd = kit.fresh_workdir("C08")
    with cf.ThreadPoolExecutor(max_workers=1) as bg:
        neg = bg.submit(negative_controls, BUGS_QUICK if tier == "quick" else BUGS_ALL)
        gen = kit.run_tlc("C08_Gen", f"C08_Gen_{tier}", workers=max(4, kit.NCPU - 4))
        kit.require_clean(gen, "C08 model check (lemma, transcriptions) / generation")
        out.add_tlc(gen)
        cases, design, agg = collect(gen, out)
        nexh = len(cases)
        kit.log(f"C08: TLC checked {gen.distinct} states and generated {nexh} (tree, map) pairs "
                f"({gen.wall:.1f}s); design-level classes on the model: {design}; "
                f"aggregate-update lemma witnesses: {agg}")
        if not cases or not agg:
            raise kit.MachineryError("C08 generator printed no cases / no aggregate-lemma witness")
        if tier == "thorough":
            rnd = kit.run_tlc("C08_Gen", "C08_Gen_sim", simulate="num=500", depth=20, seed=seed)
            kit.require_clean(rnd, "C08 random trees (-simulate)")
            out.add_tlc(rnd)
            more, d2, a2 = collect(rnd, out)
            for k, n in d2.items():
                design[k] = design.get(k, 0) + n
            kit.log(f"C08: -simulate seed={seed} produced {len(more)} random pairs ({rnd.wall:.1f}s)")
            cases += more
        out.extra["negative_controls"] = neg.result()
    uniq, seen = [], set()
    for c in cases:
        k = json.dumps([c["e"], c["sg"]], sort_keys=True)
        if k not in seen:
            seen.add(k)
            uniq.append({"e": c["e"], "sg": c["sg"]})
    for i, c in enumerate(uniq):
        c["id"] = i
    (wd / "cases.json").write_text(json.dumps(uniq))
    recs = kit.drive("harness.c08", "drive_case", uniq, None, chunk=400)
    out.evaluations += sum(sum(1 for r in rec["res"] if r["r"] != "na") for rec in recs)
    judge(out, recs, wd)
    for r in recs:
        out.note_case([r["e"], r["sg"]],
                      nontrivial=bool(r["sg"]) and r["e"]["t"] not in ("Var", "Const"))
    step = max(1, len(recs) // 3)
    out.samples = [{"tree": r["e"], "map": r["sg"], "recorded": r["res"],
                    "identical_positions_plain": r["same_p"]} for r in recs[::step][:3]]
    out.extra["pairs_exhaustive"] = nexh
    out.extra["pairs_driven"] = len(recs)
    out.extra["design_level_classes_on_model"] = design
    out.extra["aggregate_lemma_witnesses"] = agg
    out.rule = ("TLC enumerates root skeleton (every node kind) x typed holes x substitution maps "
                "(<= 2 keys quick, <= 3 thorough; names, Variables, Subscript and Lookup nodes; values "
                "mentioning other keys); pairs in which nothing is replaced are driven for three maps "
                "only; thorough adds -simulate random deeper trees; one case = one pair through 5 entry "
                "points, judged in 4 environments + identity flags; non-trivial = non-empty map and a "
                "composite tree; distinct by canonical JSON digest")
    out.exhaustive = True
    out.assumptions += [
        "CPython numeric semantics as transcribed in PyNum.tla / Eval.tla",
        "a Slice is compared as the tuple of its parts (no evaluator for slices exists)",
        "Substitution / Derivative nodes have no meaning in Eval: value clause skipped below them",
        "identity under the memoizing mapper is judged on inputs whose equal subtrees are shared objects",
        "when a map holds both a name and the Variable of that name the Variable entry applies "
        "(the documented look-up order)"]


def replay(path, out):
    wd = kit.fresh_workdir("C08")
    d = json.loads(open(path).read())
    case = d["detail"]["case"]
    recs = kit.drive("harness.c08", "drive_case", [case], None)
    out.evaluations += sum(sum(1 for r in rec["res"] if r["r"] != "na") for rec in recs)
    vs = judge(out, recs, wd)
    kit.log(f"C08 replay: recorded {json.dumps(recs[0])[:2000]}")
    kit.log(f"C08 replay: verdicts {vs}")
