"""C02 - evaluation gives every node type its standard meaning.
Pipeline: C02_Gen (TLC: enumerate + model check A-layer against M-layer) ->
drive (real evaluators) -> C02_Judge (TLC judges every recorded result)."""
from __future__ import annotations

import json

from harness import kit, ser

_ENVS = None


def _envs(extra):
    global _ENVS
    if _ENVS is None:
        _ENVS = [{k: ser.json_to_val(v) for k, v in env.items()} for env in extra["envs"]]
    return _ENVS


def drive_case(case, extra):
    from pymbolic.mapper.evaluator import (CachedEvaluationMapper, EvaluationMapper,
                                          evaluate, evaluate_kw)
    expr = ser.from_json(case["e"])
    res = []
    for env in _envs(extra):
        vs = [
            ser.call_to_json(lambda: EvaluationMapper(env)(expr)),
            ser.call_to_json(lambda: CachedEvaluationMapper(env)(expr)),
            ser.call_to_json(lambda: evaluate(expr, env)),
            ser.call_to_json(lambda: evaluate_kw(expr, **env)),
        ]
        if all(v == vs[0] for v in vs[1:]):
            vs = vs[:1]
        res.append(vs)
    return {"id": case["id"], "e": case["e"], "r": res}


def kinds_in(e, acc=None):
    acc = set() if acc is None else acc
    if isinstance(e, dict):
        if "t" in e:
            acc.add(e["t"])
        for v in e.values():
            kinds_in(v, acc)
    elif isinstance(e, list):
        for v in e:
            kinds_in(v, acc)
    return acc


def signature(tree, v):
    """Attribution pattern of a failing verdict (DESIGN 7.2): the clause TLC named
    plus the smallest structural feature of the input that explains it."""
    pv = v.get("pv", [])
    # plain evaluator right, every memoising entry point raises TypeError on a tree
    # that contains a (mutable, unhashable) list
    if (len(pv) == 4 and pv[0] in ("OK", "SKIP") and "List" in kinds_in(tree)
            and all(x != "OK" for x in pv[1:])):
        return {"clause": "cached-evaluators-reject", "contains": "List"}
    # a common subexpression over a list: the wrapper (hashed through its child) cannot be a
    # key of the per-instance CSE cache either, so even the plain evaluator raises TypeError
    ks = kinds_in(tree)
    if v["v"] == "error-instead-of-value" and "List" in ks and "CSE" in ks:
        return {"clause": "evaluators-reject", "contains": "CSE-over-List"}
    return {"clause": v["v"], "root": tree["t"]}


def run(tier, seed, out):
    wd = kit.fresh_workdir("C02")
    gen = kit.run_tlc("C02_Gen", f"C02_Gen_{tier}", coverage=False)
    kit.require_clean(gen, "C02 model check (EvalImpl refines Eval)")
    out.add_tlc(gen)
    printed = gen.printed()
    envs = [p["envs"] for p in printed if "envs" in p]
    cases = [p for p in printed if "e" in p]
    if len(envs) != 1 or not cases:
        raise kit.MachineryError("C02 generator printed no environments / cases")
    if tier == "thorough":
        # beyond the exhaustive bounds: random deeper trees (TLC simulation, seeded)
        rnd, st = kit.simulate_many("C02_Rand", "C02_Rand", runs=8, num=2500, depth=80, seed=seed)
        out.states += st
        out.transitions += st
        out.extra["random_deep_trees"] = len(rnd)
        cases += [p for p in rnd if "e" in p]
    for i, c in enumerate(cases):
        c["id"] = i
    kit.log(f"C02: TLC generated {len(cases)} trees ({gen.distinct} states, {gen.wall:.1f}s)")
    recs = kit.drive("harness.c02", "drive_case", cases, {"envs": envs[0]})
    out.evaluations += sum(len(vs) if len(vs) > 1 else 4 for r in recs for vs in r["r"])
    shards = kit.write_shards(recs, wd / "trace", "c02", 12000)
    verdicts, st, tr = kit.judge_shards("C02_Judge", "C02_Judge", shards)
    out.states += st
    out.transitions += tr
    out.traces += len(recs)
    def corrupt(r):      # a recorded integer result off by one
        v = r["r"][0][0]
        if r["e"]["t"] in ("Sum", "Product") and v.get("k") == "int" and len(r["r"][0]) == 1:
            v["n"] += 1
            return r
        return None
    out.extra["corrupted_records_rejected"] = kit.corruption_control("C02_Judge", "C02_Judge", recs, corrupt, wd)
    byid = {r["id"]: r for r in recs}
    nfail = 0
    for v in verdicts:
        if v.get("v") == "SKIP":
            out.skipped += v.get("n", 1)
            continue
        rec = byid[v["id"]]
        nfail += 1
        out.fail(signature(rec["e"], v),
                 {"case": rec["e"], "env_index": v["env"], "recorded": rec["r"][v["env"] - 1],
                  "expected": v.get("exp")})
    for r in recs:
        out.note_case(r["e"], nontrivial=r["e"]["t"] not in ("Var", "Const"))
    out.samples = [{"tree": r["e"], "recorded_per_env": r["r"]} for r in recs[:: max(1, len(recs) // 3)][:3]]
    out.rule = ("TLC enumerates root kind x typed holes (any/leaf/cond/fn pools, see C02_Gen.tla); "
                "a case is one tree judged in 6 environments for 4 evaluator entry points; "
                "non-trivial = root is a composite node; distinct by canonical JSON digest")
    out.exhaustive = True
    out.assumptions += ["CPython semantics as transcribed in PyNum.tla (sanity laws checked by TLC)",
                        "values beyond |n|,d <= 30000 and inexact floats are out of model (skipped)"]


def replay(path, out):
    wd = kit.fresh_workdir("C02")
    d = json.loads(open(path).read())
    gen = kit.run_tlc("C02_Gen", "C02_Gen_quick")
    envs = [p["envs"] for p in gen.printed() if "envs" in p]
    case = {"id": 0, "e": d["detail"]["case"]}
    recs = kit.drive("harness.c02", "drive_case", [case], {"envs": envs[0]})
    shards = kit.write_shards(recs, wd / "trace", "c02", 12000)
    verdicts, st, tr = kit.judge_shards("C02_Judge", "C02_Judge", shards)
    out.states += st
    out.transitions += tr
    out.traces += len(recs)
    for v in verdicts:
        if v.get("v") == "SKIP":
            out.skipped += 1
            continue
        out.fail(signature(recs[0]["e"], v), {"case": recs[0]["e"], "env_index": v["env"],
                                              "recorded": recs[0]["r"][v["env"] - 1]})
