"""C02 - evaluation gives every node type its standard meaning.
Pipeline: C02_Gen (TLC: enumerate + model check A-layer against M-layer) ->
drive (real evaluators) -> C02_Judge (TLC judges every recorded result)."""
from __future__ import annotations

import json

from harness import kit, ser

_ENVS = None


def _envs(extra):
    global _ENVS
    if _ENVS is None:
        _ENVS = [{k: ser.json_to_val(v) for k, v in env.items()} for env in extra["envs"]]
    return _ENVS


class _OnDemand(dict):
    """An environment that serves its values on demand: as a dict it is EMPTY (falsy, len 0,
    nothing to iterate), every look-up goes through __missing__ (like a defaultdict whose factory
    knows the values).  The kind of mapping object is an input dimension of its own."""

    def __init__(self, values):
        super().__init__()
        self._values = values

    def __missing__(self, key):
        return self._values[key]

    def __contains__(self, key):
        return key in self._values


def drive_case(case, extra):
    from pymbolic.mapper.evaluator import (CachedEvaluationMapper, EvaluationMapper,
                                          evaluate, evaluate_kw)
    expr = ser.from_json(case["e"])
    res = []
    for env in _envs(extra):
        lazy = _OnDemand(env)       # the same environment as a mapping that is empty to len()/bool()
        vs = [
            ser.call_to_json(lambda: EvaluationMapper(env)(expr)),
            ser.call_to_json(lambda: CachedEvaluationMapper(env)(expr)),
            ser.call_to_json(lambda: evaluate(expr, env)),
            ser.call_to_json(lambda: evaluate_kw(expr, **env)),
            ser.call_to_json(lambda: EvaluationMapper(lazy)(expr)),
            ser.call_to_json(lambda: CachedEvaluationMapper(lazy)(expr)),
            ser.call_to_json(lambda: evaluate(expr, lazy)),
        ]
        if all(v == vs[0] for v in vs[1:]):
            vs = vs[:1]
        res.append(vs)
    return {"id": case["id"], "e": case["e"], "r": res}


def _np_array(nested, shape, lay):
    """The object array with the logical entries *nested* and the memory layout *lay*."""
    import numpy as np
    shape = tuple(shape)
    if lay == "C":
        arr = np.empty(shape, dtype=object)
    elif lay == "F":
        arr = np.empty(shape, dtype=object, order="F")
    elif lay == "T":
        arr = np.empty(shape[::-1], dtype=object).T
    elif lay == "R":
        arr = np.empty(shape, dtype=object)[::-1]
    else:
        raise ValueError(lay)
    for idx in np.ndindex(shape):
        v = nested
        for i in idx:
            v = v[i]
        arr[idx] = v
    assert arr.tolist() == nested
    return arr


def drive_arr(case, extra):
    """C02_Arr: the plain evaluator on an object array of expressions (the memoising ones
    cannot hash an array), result compared as the nested list of entry values."""
    from pymbolic.mapper.evaluator import EvaluationMapper
    arr = _np_array(ser.from_json(case["e"]), case["shape"], case["lay"])
    res = []
    for env in _envs(extra):
        def go():
            r = EvaluationMapper(env)(arr)
            if r.shape != arr.shape:
                raise AssertionError(f"result shape {r.shape} for an array of shape {arr.shape}")
            return r.tolist()
        res.append([ser.call_to_json(go)])
    return {"id": case["id"], "e": case["e"], "r": res, "fam": "arr", "lay": case["lay"]}


def drive_hist(case, extra):
    """C02_Hist: replay one history of build / eval / drop operations on ONE plain and ONE
    memoising mapper per environment; every expression is built afresh from the pool and
    really dropped, so the addresses of freed nodes are up for reuse as in the model."""
    from pymbolic.mapper.evaluator import CachedEvaluationMapper, EvaluationMapper
    pool = extra["pool"]
    steps = {}      # op index -> per env -> values
    envs = _envs(extra)
    for ei, env in enumerate(envs):
        for cls in (EvaluationMapper, CachedEvaluationMapper):
            mapper = cls(env)
            slots = {}
            for k, op in enumerate(case["hist"]):
                if op["op"] == "build":
                    slots[op["s"]] = ser.from_json(pool[op["i"] - 1])
                elif op["op"] == "drop":
                    del slots[op["s"]]
                else:
                    expr = slots[op["s"]]
                    v = ser.call_to_json(lambda: mapper(expr))  # noqa: B023
                    del expr
                    per = steps.setdefault(k, [[] for _ in envs])
                    if v not in per[ei]:
                        per[ei].append(v)
            del slots, mapper
    return [{"id": f"{case['id']}.{k}", "e": pool[case["hist"][k]["i"] - 1], "r": per,
             "fam": "hist", "hist": case["hist"], "step": k}
            for k, per in sorted(steps.items())]


def _big_to_json(v):
    """A value of the large-value family: bools and ints exactly (limbs in base 10000, least
    significant first), anything else by its kind only."""
    if isinstance(v, bool):
        return {"k": "bool", "b": v}
    if isinstance(v, int):
        a, m = abs(v), []
        while a:
            m.append(a % 10000)
            a //= 10000
        return {"k": "big", "v": {"s": (v > 0) - (v < 0), "m": m}}
    return {"k": type(v).__name__ if not isinstance(v, float) else "flt"}


def _big_from_json(j):
    n = 0
    for limb in reversed(j["m"]):
        n = n * 10000 + limb
    return n * j["s"]


def drive_big(case, extra):
    """C02_Big: the tree in one large-value environment, through all entry points."""
    import warnings

    from pymbolic.mapper.evaluator import (CachedEvaluationMapper, EvaluationMapper,
                                          evaluate, evaluate_kw)
    import pymbolic.primitives as p
    expr = ser.from_json(case["e"])
    env = {k: _big_from_json(v) for k, v in extra["bigenvs"][case["benv"] - 1].items()}

    def obs(thunk):
        try:
            with warnings.catch_warnings():
                warnings.simplefilter("ignore")
                return _big_to_json(thunk())
        except RecursionError:
            raise
        except Exception as exc:  # noqa: BLE001
            return ser.exc_to_json(exc)
    vs = [obs(lambda: EvaluationMapper(env)(expr)), obs(lambda: CachedEvaluationMapper(env)(expr)),
          obs(lambda: evaluate(expr, env)), obs(lambda: evaluate_kw(expr, **env))]
    aux = {"k": "none"}
    if isinstance(expr, p.Remainder):      # the quotient the same evaluator gives for these operands
        aux = obs(lambda: EvaluationMapper(env)(p.FloorDiv(expr.numerator, expr.denominator)))
    uniq = []
    for v in vs:
        if v not in uniq:
            uniq.append(v)
    return {"id": case["id"], "e": case["e"], "benv": case["benv"], "r": uniq, "aux": aux, "fam": "big"}


def kinds_in(e, acc=None):
    acc = set() if acc is None else acc
    if isinstance(e, dict):
        if "t" in e:
            acc.add(e["t"])
        for v in e.values():
            kinds_in(v, acc)
    elif isinstance(e, list):
        for v in e:
            kinds_in(v, acc)
    return acc


def signature(tree, v, fam=None):
    """Attribution pattern of a failing verdict (DESIGN 7.2): the clause TLC named
    plus the smallest structural feature of the input that explains it."""
    pv = v.get("pv", [])
    # plain evaluator right, every memoising entry point raises TypeError on a tree
    # that contains a (mutable, unhashable) list
    # (variants: plain, cached, evaluate, evaluate_kw, then plain / cached / evaluate on the
    # on-demand environment - indices 0 and 4 are the non-memoising ones)
    if (len(pv) == 7 and pv[0] in ("OK", "SKIP") and pv[4] in ("OK", "SKIP")
            and "List" in kinds_in(tree)
            and all(pv[i] != "OK" for i in (1, 2, 3, 5, 6))):
        return {"clause": "cached-evaluators-reject", "contains": "List"}
    # a common subexpression over a list: the wrapper (hashed through its child) cannot be a
    # key of the per-instance CSE cache either, so even the plain evaluator raises TypeError
    ks = kinds_in(tree)
    if v["v"] == "error-instead-of-value" and "List" in ks and "CSE" in ks:
        return {"clause": "evaluators-reject", "contains": "CSE-over-List"}
    if fam:
        return {"clause": v["v"], "root": tree["t"], "family": fam}
    return {"clause": v["v"], "root": tree["t"]}


def families(tier, out):
    """The two further families of C02: histories on one mapper (C02_Hist, S-layer) and
    object arrays in every memory layout (C02_Arr).  Returns (hist cases, pool, array cases)."""
    hist = kit.run_tlc("C02_Hist", "C02_Hist" if tier == "quick" else "C02_Hist_thorough", coverage=False)
    kit.require_clean(hist, "C02 history model (a CSE means its child in every history)")
    out.add_tlc(hist)
    hp = hist.printed()
    pool = [p["pool"] for p in hp if "pool" in p]
    hcases = [p for p in hp if "hist" in p]
    arr = kit.run_tlc("C02_Arr", "C02_Arr", workers=4, coverage=False)
    kit.require_clean(arr, "C02 array model (entrywise meaning in every layout)")
    out.add_tlc(arr)
    acases = [p for p in arr.printed() if "lay" in p]
    if len(pool) != 1 or not hcases or not acases:
        raise kit.MachineryError("C02 history / array generators printed nothing")
    # negative controls: the design errors these families exist for must be found by TLC
    neg = {}
    for mod, cfg, inv in (("C02_Hist", "C02_Hist_neg", "EveryEvaluationIsTheMeaning"),
                          ("C02_Arr", "C02_Arr_neg", "EntrywiseMeaning")):
        r = kit.run_tlc(mod, cfg, workers=4, coverage=False)
        if inv not in r.invariant_violated:
            raise kit.MachineryError(f"negative control {cfg}: TLC did not report {inv} violated")
        neg[cfg] = inv
    out.extra["negative_controls"] = neg
    return hcases, pool[0], acases


def run(tier, seed, out):
    wd = kit.fresh_workdir("C02")
    gen = kit.run_tlc("C02_Gen", f"C02_Gen_{tier}", coverage=False)
    kit.require_clean(gen, "C02 model check (EvalImpl refines Eval)")
    out.add_tlc(gen)
    printed = gen.printed()
    envs = [p["envs"] for p in printed if "envs" in p]
    cases = [p for p in printed if "e" in p]
    if len(envs) != 1 or not cases:
        raise kit.MachineryError("C02 generator printed no environments / cases")
    if tier == "thorough":
        # beyond the exhaustive bounds: random deeper trees (TLC simulation, seeded)
        rnd, st = kit.simulate_many("C02_Rand", "C02_Rand", runs=8, num=2500, depth=80, seed=seed)
        out.states += st
        out.transitions += st
        out.extra["random_deep_trees"] = len(rnd)
        cases += [p for p in rnd if "e" in p]
    for i, c in enumerate(cases):
        c["id"] = i
    kit.log(f"C02: TLC generated {len(cases)} trees ({gen.distinct} states, {gen.wall:.1f}s)")
    hcases, pool, acases = families(tier, out)
    for i, c in enumerate(hcases):
        c["id"] = f"h{i}"
    for i, c in enumerate(acases):
        c["id"] = f"a{i}"
    kit.log(f"C02: {len(hcases)} histories on one mapper, {len(acases)} arrays")
    recs = kit.drive("harness.c02", "drive_case", cases, {"envs": envs[0]})
    out.evaluations += sum(len(vs) if len(vs) > 1 else 7 for r in recs for vs in r["r"])
    hrecs = [r for rs in kit.drive("harness.c02", "drive_hist", hcases, {"envs": envs[0], "pool": pool})
             for r in rs]
    arecs = kit.drive("harness.c02", "drive_arr", acases, {"envs": envs[0]})
    out.evaluations += 2 * 6 * len(hrecs) + 6 * len(arecs)
    out.extra["history_steps_judged"] = len(hrecs)
    out.extra["arrays_judged"] = len(arecs)
    recs = recs + hrecs + arecs
    # large values (BigNum): judged by their own judge module
    big = kit.run_tlc("C02_Big", f"C02_Big_{tier}", workers=8, coverage=False)
    kit.require_clean(big, "C02 large-value model (BigNum laws, generator)")
    out.add_tlc(big)
    bp = big.printed()
    bigenvs = [p["bigenvs"] for p in bp if "bigenvs" in p]
    bcases = [p for p in bp if "benv" in p]
    if len(bigenvs) != 1 or not bcases:
        raise kit.MachineryError("C02_Big printed no environments / cases")
    for i, c in enumerate(bcases):
        c["id"] = f"b{i}"
    brecs = kit.drive("harness.c02", "drive_big", bcases, {"bigenvs": bigenvs[0]}, chunk=500)
    out.evaluations += 4 * len(brecs)
    out.extra["large_value_cases_judged"] = len(brecs)
    bshards = kit.write_shards(brecs, wd / "trace_big", "c02big", 3000)
    bverdicts, st, tr = kit.judge_shards("C02_BigJudge", "C02_BigJudge", bshards)
    out.states += st
    out.transitions += tr
    out.traces += len(brecs)
    bbyid = {r["id"]: r for r in brecs}
    for v in bverdicts:
        if "id" not in v:       # (the judge module extends C02_Big, which prints its environments)
            continue
        rec = bbyid[v["id"]]
        out.fail({"clause": v["v"], "root": rec["e"]["t"], "family": "big"},
                 {"case": rec["e"], "fam": "big", "benv": rec["benv"], "recorded": rec["r"], "aux": rec["aux"]})
    # logical operators by Python's own meaning (C02_Logic.tla)
    from harness import c02logic
    c02logic.run_family(out, wd)
    shards = kit.write_shards(recs, wd / "trace", "c02", 12000)
    verdicts, st, tr = kit.judge_shards("C02_Judge", "C02_Judge", shards)
    out.states += st
    out.transitions += tr
    out.traces += len(recs)
    def corrupt(r):      # a recorded integer result off by one
        v = r["r"][0][0]
        if r["e"]["t"] in ("Sum", "Product") and v.get("k") == "int" and len(r["r"][0]) == 1:
            v["n"] += 1
            return r
        return None
    out.extra["corrupted_records_rejected"] = kit.corruption_control("C02_Judge", "C02_Judge", recs, corrupt, wd)
    byid = {r["id"]: r for r in recs}
    nfail = 0
    for v in verdicts:
        if v.get("v") == "SKIP":
            out.skipped += v.get("n", 1)
            continue
        rec = byid[v["id"]]
        nfail += 1
        out.fail(signature(rec["e"], v, rec.get("fam")),
                 {"case": rec["e"], "env_index": v["env"], "recorded": rec["r"][v["env"] - 1],
                  "expected": v.get("exp"),
                  **{k: rec[k] for k in ("fam", "hist", "step", "lay") if k in rec}})
    for r in recs:
        out.note_case(r["e"], nontrivial=r["e"]["t"] not in ("Var", "Const"))
    out.samples = [{"tree": r["e"], "recorded_per_env": r["r"]} for r in recs[:: max(1, len(recs) // 3)][:3]]
    out.rule = ("TLC enumerates root kind x typed holes (any/leaf/cond/fn pools, see C02_Gen.tla); "
                "a case is one tree judged in 6 environments for 4 evaluator entry points (three of them also on an on-demand mapping as environment); "
                "non-trivial = root is a composite node; distinct by canonical JSON digest")
    out.exhaustive = True
    out.assumptions += ["CPython semantics as transcribed in PyNum.tla (sanity laws checked by TLC)",
                        "values beyond |n|,d <= 30000 and inexact floats are out of model (skipped)"]


def replay(path, out):
    wd = kit.fresh_workdir("C02")
    d = json.loads(open(path).read())
    gen = kit.run_tlc("C02_Gen", "C02_Gen_quick")
    envs = [p["envs"] for p in gen.printed() if "envs" in p]
    det = d["detail"]
    if det.get("fam") == "hist":
        hist = kit.run_tlc("C02_Hist", "C02_Hist_neg", workers=2, coverage=False)   # prints the pool
        pool = [p["pool"] for p in hist.printed() if "pool" in p][0]
        recs = [r for r in kit.drive("harness.c02", "drive_hist", [{"id": "h0", "hist": det["hist"]}],
                                     {"envs": envs[0], "pool": pool})[0]]
    elif det.get("fam") == "logic":
        from harness import c02logic
        lgen = kit.run_tlc("C02_Logic", "C02_Logic", workers=2, coverage=False)
        lenvs = [p["envs"] for p in lgen.printed() if "envs" in p][0]
        lrecs = kit.drive("harness.c02", "drive_case", [{"id": "l0", "e": det["case"]}], {"envs": lenvs})
        c02logic.judge(out, lrecs, wd)
        return
    elif det.get("fam") == "big":
        big = kit.run_tlc("C02_Big", "C02_Big", workers=2, coverage=False)
        bigenvs = [p["bigenvs"] for p in big.printed() if "bigenvs" in p][0]
        brecs = kit.drive("harness.c02", "drive_big", [{"id": "b0", "e": det["case"], "benv": det["benv"]}],
                          {"bigenvs": bigenvs})
        bsh = kit.write_shards(brecs, wd / "trace_big", "c02big", 12000)
        bverd, st, tr = kit.judge_shards("C02_BigJudge", "C02_BigJudge", bsh)
        out.states += st
        out.transitions += tr
        out.traces += 1
        for v in [v for v in bverd if "id" in v]:
            out.fail({"clause": v["v"], "root": brecs[0]["e"]["t"], "family": "big"},
                     {"case": brecs[0]["e"], "fam": "big", "benv": brecs[0]["benv"], "recorded": brecs[0]["r"]})
        return
    elif det.get("fam") == "arr":
        import numpy as np
        case = {"id": "a0", "e": det["case"], "lay": det["lay"],
                "shape": list(np.array(ser.from_json(det["case"]), dtype=object).shape)}
        recs = kit.drive("harness.c02", "drive_arr", [case], {"envs": envs[0]})
    else:
        case = {"id": 0, "e": det["case"]}
        recs = kit.drive("harness.c02", "drive_case", [case], {"envs": envs[0]})
    shards = kit.write_shards(recs, wd / "trace", "c02", 12000)
    verdicts, st, tr = kit.judge_shards("C02_Judge", "C02_Judge", shards)
    out.states += st
    out.transitions += tr
    out.traces += len(recs)
    for v in verdicts:
        if v.get("v") == "SKIP":
            out.skipped += 1
            continue
        rec = {r["id"]: r for r in recs}[v["id"]]
        out.fail(signature(rec["e"], v, rec.get("fam")),
                 {"case": rec["e"], "env_index": v["env"], "recorded": rec["r"][v["env"] - 1],
                  **{k: rec[k] for k in ("fam", "hist", "step", "lay") if k in rec}})
