"""C14 driver, C side: turn recorded (text, hoisted assignments) pairs into one C
translation unit per batch, compile it with gcc, run it, read back what it printed.
Nothing in here judges anything: it emits, compiles, runs and serialises."""
from __future__ import annotations

import os
import re
import shutil
import subprocess
import tempfile

LIMIT = 30000
IDENT = re.compile(r"[A-Za-z_]\w*")
KNOWN_IDS = {"x", "y", "z", "f", "g", "t", "o", "p", "pow"}
GCC = ["gcc", "-O0", "-fwrapv", "-w", "-x", "c"]


def idents(text):
    """identifiers a C text references, other than the environment's and pow"""
    out = []
    for m in IDENT.finditer(str(text)):
        s = m.group(0)
        # exponent markers of float literals (1e-05) are not identifiers
        if m.start() > 0 and str(text)[m.start() - 1].isdigit():
            continue
        if s not in KNOWN_IDS and s not in out:
            out.append(s)
    return out


def cnum(v, ty):
    """a Python number as a C literal of the fragment's type"""
    if ty == "long":
        return f"{int(v)}L"
    return float(v).hex()


PRELUDE = r"""
#include <stdio.h>
#include <math.h>
#include <signal.h>
#include <setjmp.h>
typedef %(T)s T;
static sigjmp_buf jb;
static void on_fpe(int s) { (void)s; siglongjmp(jb, 1); }
static T f(T a, T b) { return 1 + 2 * a + 3 * b; }
static T g(T a) { return 2 + 3 * a; }
/* t = (10, 20, 5); a wild index (never judged: the spec skips subscripts outside
   0..2) must not take the whole batch down: big zeroed margins + SIGSEGV handler */
static T tbuf[1 << 17];
#define t (tbuf + (1 << 16))
static struct { T p; T q; } o = { 5, 7 };
static void put(int id, int sub, int ei, T r) {
#if %(ISINT)d
    printf("%%d %%d %%d %%ld\n", id, sub, ei, (long)r);
#else
    printf("%%d %%d %%d %%a\n", id, sub, ei, (double)r);
#endif
}
"""


class Unit:
    """One C function per case.  A case = list of declarations (names), list of
    assignments (name, text) in order, list of result texts (sub-index, text)."""

    def __init__(self, ty, envs):
        self.ty, self.envs = ty, envs          # envs: list of dicts x,y,z -> number
        self.cases = []                        # (id, names, assigns, results)

    def add(self, cid, names, assigns, results):
        self.cases.append((cid, names, assigns, results))

    def source(self, skip=()):
        lines = (PRELUDE % {"T": self.ty, "ISINT": 1 if self.ty == "long" else 0}).splitlines()
        line_of = {}
        fns = []
        for cid, names, assigns, results in self.cases:
            if cid in skip:
                continue
            start = len(lines) + 1
            lines.append(f"static void c{cid}(int ei, T x, T y, T z) {{")
            for n in names:
                lines.append(f"  T {n};")
            for n, txt in assigns:
                lines.append(f"  {n} = {txt};")
            for sub, txt in results:
                lines.append(f"  {{ T r = {txt};")
                lines.append(f"    put({cid}, {sub}, ei, r); }}")
            lines.append("}")
            for ln in range(start, len(lines) + 1):
                line_of[ln] = cid
            fns.append(cid)
        lines.append("typedef void (*fn_t)(int, T, T, T);")
        lines.append("static fn_t fns[] = { " + ", ".join(f"c{c}" for c in fns) + (", " if fns else "") + "0 };")
        lines.append("static int ids[] = { " + ", ".join(str(c) for c in fns) + (", " if fns else "") + "0 };")
        lines.append("static T envs[][3] = { " + ", ".join(
            "{ " + ", ".join(cnum(e[k], self.ty) for k in "xyz") + " }" for e in self.envs) + " };")
        lines.append("int main(void) {")
        lines.append("  signal(SIGFPE, on_fpe); signal(SIGSEGV, on_fpe); signal(SIGBUS, on_fpe);")
        lines.append("  t[0] = 10; t[1] = 20; t[2] = 5;")
        lines.append("  for (int i = 0; fns[i]; i++)")
        lines.append(f"    for (int ei = 0; ei < {len(self.envs)}; ei++) {{")
        lines.append("      if (sigsetjmp(jb, 1) == 0) fns[i](ei, envs[ei][0], envs[ei][1], envs[ei][2]);")
        lines.append("      else printf(\"%d -1 %d FPE\\n\", ids[i], ei);")
        lines.append("    }")
        lines.append("  return 0;")
        lines.append("}")
        return "\n".join(lines) + "\n", line_of

    def build_and_run(self, tag):
        """-> (values: {(id, sub, ei): token}, fpe: {(id, ei)}, compile_errors: {id: msg})"""
        wd = tempfile.mkdtemp(prefix=f"C14_{tag}_", dir=os.environ.get("C14_TMP", "/tmp"))
        try:
            bad = {}
            for _round in range(6):
                src, line_of = self.source(skip=bad)
                cfile = os.path.join(wd, "u.c")
                with open(cfile, "w") as fh:
                    fh.write(src)
                exe = os.path.join(wd, "u.exe")
                p = subprocess.run([*GCC, cfile, "-o", exe, "-lm"], capture_output=True,
                                   text=True, timeout=600)
                if p.returncode == 0:
                    break
                new = {}
                for m in re.finditer(r"u\.c:(\d+):\d+: error: (.*)", p.stderr):
                    cid = line_of.get(int(m.group(1)))
                    if cid is not None and cid not in bad:
                        new.setdefault(cid, m.group(2)[:160])
                if not new:
                    raise RuntimeError("gcc failed outside any case:\n" + p.stderr[-2000:])
                bad.update(new)
            else:
                raise RuntimeError("gcc still failing after 6 rounds")
            r = subprocess.run([exe], capture_output=True, text=True, timeout=600)
            if r.returncode != 0:
                raise RuntimeError(f"generated program exited with {r.returncode}: {r.stderr[-500:]}")
            vals, fpe = {}, set()
            for line in r.stdout.splitlines():
                a = line.split()
                if len(a) != 4:
                    continue
                if a[3] == "FPE":
                    fpe.add((int(a[0]), int(a[2])))
                else:
                    vals[(int(a[0]), int(a[1]), int(a[2]))] = a[3]
            return vals, fpe, bad
        finally:
            shutil.rmtree(wd, ignore_errors=True)


def token_to_val(tok, ty):
    """what the program printed -> PyNum value record (exact)"""
    if tok is None:
        return {"k": "unrep"}
    if ty == "long":
        n = int(tok)
        if abs(n) > LIMIT:
            return {"k": "unrep"}
        return {"k": "int", "n": n, "d": 1}
    if "inf" in tok or "nan" in tok:
        return {"k": "unrep"}
    n, d = float.fromhex(tok).as_integer_ratio()
    if abs(n) > LIMIT or d > LIMIT:
        return {"k": "unrep"}
    return {"k": "flt", "n": n, "d": d}
