"""Exact stand-ins used by the C19 driver.  Nothing in here judges anything: these are
the *values* the real pymbolic functions are run on (monoid elements for
integer_power, an exact "numpy" over Z_p for fft/ifft through their custom_np
parameter, residues for evaluating sym_fft's expression trees)."""
from __future__ import annotations

import cmath
import math


# ------------------------------------------------------------------ monoids
class ZMod:
    """integers modulo m; only multiplication (a monoid)"""
    def __init__(self, m, v):
        self.m, self.v = m, v % m

    def __mul__(self, o):
        if isinstance(o, ZMod) and o.m == self.m:
            return ZMod(self.m, self.v * o.v)
        return self.__rmul__(o)

    def __rmul__(self, o):          # integer_power's default unit is the integer 1
        if type(o) is int and o == 1:
            return ZMod(self.m, self.v)
        return NotImplemented

    def seq(self):
        return [self.v]


class Mat2:
    """2x2 matrices modulo m, row major"""
    def __init__(self, m, e):
        self.m, self.e = m, tuple(x % m for x in e)

    def __mul__(self, o):
        if isinstance(o, Mat2) and o.m == self.m:
            a, b, c, d = self.e
            p, q, r, s = o.e
            return Mat2(self.m, (a * p + b * r, a * q + b * s, c * p + d * r, c * q + d * s))
        return self.__rmul__(o)

    def __rmul__(self, o):
        if type(o) is int and o == 1:
            return Mat2(self.m, self.e)
        return NotImplemented

    def __imul__(self, o):
        # a mutable monoid element (as numpy matrices are): a *= b updates a in place
        r = self.__mul__(o)
        if r is NotImplemented:
            return r
        self.e = r.e
        return self

    def seq(self):
        return list(self.e)


class Word:
    """free monoid: multiplication is concatenation (non-commutative)"""
    def __init__(self, letters):
        self.w = tuple(letters)

    def __mul__(self, o):
        if isinstance(o, Word):
            return Word(self.w + o.w)
        return self.__rmul__(o)

    def __rmul__(self, o):
        if type(o) is int and o == 1:
            return Word(self.w)
        return NotImplemented

    def seq(self):
        return list(self.w)


# ------------------------------------------------------------- exact "numpy"
class _DType:
    kind = "c"

    @staticmethod
    def type(v):                     # scalar_tp(...)
        return v


class ZpNP:
    """What pymbolic.algorithm.fft needs from numpy, over Z_p: exp(-2 i pi t / n) is the
    t-th power of the fixed element w of multiplicative order n."""
    complex128 = "zp"

    def __init__(self, p, w, n):
        self.p, self.w, self.n = p, w, n

    def dtype(self, _d):
        return _DType()

    def root_pow(self, z):
        z = complex(z)
        t = z.imag * self.n / (-2 * math.pi)
        k = round(t)
        if abs(z.real) > 1e-9 or abs(t - k) > 1e-6:
            raise ValueError(f"exp() argument {z!r} is not a multiple of -2 i pi / {self.n}")
        return pow(self.w, k % self.n, self.p)

    def arange(self, a, b, dtype=None):
        return Vec(self, list(range(a, b)), "idx")

    def exp(self, z):
        if isinstance(z, Vec):
            if z.kind != "ang":
                raise TypeError("exp of a non-angle vector")
            return Vec(self, [self.root_pow(a) for a in z.v])
        return self.root_pow(z)

    def concatenate(self, vs, axis=0):
        out = []
        for v in vs:
            out += v.v
        return Vec(self, out)


class Vec:
    """exact vector over Z_p ("zp"), an index vector ("idx") or a vector of angles ("ang")"""
    def __init__(self, np_, v, kind="zp"):
        self.np_, self.v, self.kind = np_, v, kind
        self.dtype = _DType()

    def __len__(self):
        return len(self.v)

    def __getitem__(self, s):
        r = self.v[s]
        return Vec(self.np_, r, self.kind) if isinstance(s, slice) else r

    def __mul__(self, o):
        p = self.np_.p
        if self.kind == "idx":                  # (angle step) * arange(..)
            return Vec(self.np_, [complex(o) * k for k in self.v], "ang")
        if self.kind != "zp":
            raise TypeError("arithmetic on an angle vector")
        if isinstance(o, Vec):
            if len(o) != len(self) or o.kind != "zp":
                raise ValueError("operands could not be broadcast together")
            return Vec(self.np_, [(a * b) % p for a, b in zip(self.v, o.v)])
        if isinstance(o, float):                # ifft's 1/len(x)
            n = round(1 / o)
            if abs(1 / o - n) > 1e-6:
                raise ValueError(f"float factor {o!r} is not 1/integer")
            o = pow(n, -1, p)
        if type(o) is not int:
            raise TypeError(f"cannot scale by {type(o).__name__}")
        return Vec(self.np_, [(a * o) % p for a in self.v])

    __rmul__ = __mul__

    def __add__(self, o):
        if type(o) is int and o == 0:           # sum() starts from 0
            return self
        if not isinstance(o, Vec) or len(o) != len(self) or o.kind != "zp" or self.kind != "zp":
            raise ValueError("operands could not be broadcast together")
        return Vec(self.np_, [(a + b) % self.np_.p for a, b in zip(self.v, o.v)])

    __radd__ = __add__


# ------------------------------------------------------ residues for sym_fft
class ModP:
    def __init__(self, p, v):
        self.p, self.v = p, v % p

    def _c(self, o):
        if isinstance(o, ModP):
            return o.v
        if type(o) is int:
            return o
        raise TypeError(f"cannot combine a residue with {type(o).__name__}")

    def __add__(self, o):
        return ModP(self.p, self.v + self._c(o))

    __radd__ = __add__

    def __mul__(self, o):
        return ModP(self.p, self.v * self._c(o))

    __rmul__ = __mul__

    def __neg__(self):
        return ModP(self.p, -self.v)

    def __sub__(self, o):
        return ModP(self.p, self.v - self._c(o))

    def __rsub__(self, o):
        return ModP(self.p, self._c(o) - self.v)


def twiddle_to_residue(c, p, w, n):
    """A float/complex constant of sym_fft's result is a root of unity exp(-2 i pi k / n)
    (numpy computed it); its image in Z_p is w**k.  Raises if it is not such a number."""
    c = complex(c)
    t = cmath.phase(c) * n / (-2 * math.pi)
    k = round(t)
    if abs(t - k) > 1e-6 or abs(c - cmath.exp(-2j * math.pi * k / n)) > 1e-9:
        raise ValueError(f"constant {c!r} is not an {n}-th root of unity")
    return ModP(p, pow(w, k % n, p))
