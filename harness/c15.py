"""C15 - linear-form extraction and affine solving are exact."""
from __future__ import annotations

import json
import warnings

from harness import kit, ser


def _coeff_res(thunk):
    try:
        with warnings.catch_warnings():
            warnings.simplefilter("ignore")
            d = thunk()
    except RecursionError:
        raise
    except Exception as exc:  # noqa: BLE001
        return {"r": "err", "v": ser.exc_to_json(exc)}
    try:
        return {"r": "ok", "coeffs": [{"key": ser.to_json(k), "coeff": ser.to_json(v)}
                                      for k, v in d.items()]}
    except ser.Unserialisable as exc:
        return {"r": "unser", "text": str(exc)[:200]}


def drive_case(case, extra):
    from pymbolic.algorithm import solve_affine_equations_for
    from pymbolic.mapper.coefficient import CoefficientCollector
    rec = dict(case)
    if case["kind"] == "coeff":
        e = ser.from_json(case["e"])
        # the collection of names is given as a list / tuple / set / frozenset in turn
        names = None if case["tgt"] == ["ALL"] else \
            (list, tuple, set, frozenset)[case["id"] % 4](case["tgt"])
        rec["res"] = _coeff_res(lambda: CoefficientCollector(names)(e))
    else:
        eqs = [(ser.from_json(q["lhs"]), ser.from_json(q["rhs"])) for q in case["exprs"]]

        def solve():
            sol = solve_affine_equations_for(["x", "y"], eqs)
            return sol
        try:
            with warnings.catch_warnings():
                warnings.simplefilter("ignore")
                sol = solve()
            rec["res"] = {"r": "ok", "sol": [{"name": k.name, "e": ser.to_json(v)} for k, v in sol.items()]}
        except ser.Unserialisable as exc:
            rec["res"] = {"r": "unser", "text": str(exc)[:200]}
        except RecursionError:
            raise
        except Exception as exc:  # noqa: BLE001
            rec["res"] = {"r": "err", "v": ser.exc_to_json(exc)}
    return rec


def _limbs(n):
    a, m = abs(n), []
    while a:
        m.append(a % 10000)
        a //= 10000
    return {"s": (n > 0) - (n < 0), "m": m}


def _unlimbs(j):
    n = 0
    for limb in reversed(j["m"]):
        n = n * 10000 + limb
    return n * j["s"]


def _big_expr_to_json(e):
    """What the solver returned for a large-value system: integers exactly (limbs in base
    10000 beyond 31 bits), any other number as [t |-> "Inexact"], sums / products / variables."""
    import numbers
    import pymbolic.primitives as p
    if isinstance(e, bool):
        raise ser.Unserialisable(repr(e))
    if isinstance(e, numbers.Integral):
        n = int(e)
        if abs(n) < 2 ** 31:
            return {"t": "Const", "v": {"k": "int", "n": n, "d": 1}}
        return {"t": "BigConst", "v": _limbs(n)}
    if isinstance(e, numbers.Number):
        return {"t": "Inexact", "text": repr(e)[:40]}
    if isinstance(e, p.Variable):
        return {"t": "Var", "name": e.name}
    if isinstance(e, (p.Sum, p.Product)):
        return {"t": type(e).__name__, "c": [_big_expr_to_json(c) for c in e.children]}
    raise ser.Unserialisable(repr(e)[:100])


def _with_consts(j, consts):
    """The placeholder names K1.. replaced by the integers they stand for."""
    if isinstance(j, dict):
        if j.get("t") == "Var" and j["name"] in consts:
            return {"t": "Const", "v": {"k": "int", "n": consts[j["name"]], "d": 1}}
        return {k: _with_consts(v, consts) for k, v in j.items()}
    if isinstance(j, list):
        return [_with_consts(v, consts) for v in j]
    return j


def drive_big(case, extra):
    """C15_Big: a system with constants beyond 2**53 through the solver."""
    from pymbolic.algorithm import solve_affine_equations_for
    consts = {k: _unlimbs(v) for k, v in extra["bigconsts"].items()}
    rec = dict(case)
    eqs = [(ser.from_json(_with_consts(q["lhs"], consts)), ser.from_json(_with_consts(q["rhs"], consts)))
           for q in case["exprs"]]
    try:
        with warnings.catch_warnings():
            warnings.simplefilter("ignore")
            sol = solve_affine_equations_for(["x", "y"], eqs)
        rec["res"] = {"r": "ok", "sol": [{"name": k.name, "e": _big_expr_to_json(v)} for k, v in sol.items()]}
    except ser.Unserialisable as exc:
        rec["res"] = {"r": "unser", "text": str(exc)[:200]}
    except RecursionError:
        raise
    except Exception as exc:  # noqa: BLE001
        rec["res"] = {"r": "err", "v": ser.exc_to_json(exc)}
    return rec


def kinds_in(e, acc=None):
    acc = set() if acc is None else acc
    if isinstance(e, dict):
        if "t" in e:
            acc.add(e["t"])
        for v in e.values():
            kinds_in(v, acc)
    elif isinstance(e, list):
        for v in e:
            kinds_in(v, acc)
    return acc


def sys_features(eqs):
    f = set()
    if len(eqs) > 2:
        f.add("overdetermined")
    for q in eqs:
        if q["r1"] != 0:
            f.add("unknown-on-both-sides")
        if q["l"] != 0 and q["b"] != 0:
            f.add("parameter-on-both-sides")
    return sorted(f)


def classify(out, verdicts, byid):
    known = [json.loads(k) for k in out.known]
    refused = 0
    for v in verdicts:
        rec = byid[v["id"]]
        if "drift" in v:
            out.drift += 1
            ex = out.extra.setdefault("drift_examples", [])
            if len(ex) < 5:
                ex.append({"input": rec["e"], "targets": rec["tgt"], "returned": rec["res"]})
            continue
        if v["v"] == "SKIP":
            out.skipped += 1
            continue
        if v["v"] == "REFUSED":
            refused += 1
            continue
        if rec["kind"] == "coeff":
            feats = sorted(kinds_in(rec["e"]))
            err = rec["res"].get("v", {}).get("e", "")
            hit = next((k for k in known if k.get("kind") == "coeff" and k.get("clause") == v["v"]
                        and (k.get("contains") is None or k.get("contains") in feats) and k.get("error", err) == err
                        and (k.get("targets") is None or (k["targets"] == "named") == (rec["tgt"] != ["ALL"]))), None)
            sig = hit or {"kind": "coeff", "clause": v["v"], "kinds": feats, "error": err, "tgt": rec["tgt"]}
        else:
            feats = sys_features(rec["eqs"])
            hit = next((k for k in known if k.get("kind") == "solve" and k.get("clause") == v["v"]
                        and (k.get("feature") is None or k.get("feature") in feats)), None)
            sig = hit or {"kind": "solve", "clause": v["v"], "features": feats}
        out.fail(sig, {"case": {k: rec[k] for k in rec if k != "res"}, "recorded": rec["res"]})
    out.extra["solver_refusals"] = refused


def judge(out, recs, wd):
    shards = kit.write_shards(recs, wd / "trace", "c15", 4000)
    verdicts, st, tr = kit.judge_shards("C15_Judge", "C15_Judge", shards)
    out.states += st
    out.transitions += tr
    out.traces += len(recs)
    (wd / "verdicts.json").write_text(json.dumps(verdicts))
    classify(out, verdicts, {r["id"]: r for r in recs})


def judge_big(out, brecs, wd):
    shards = kit.write_shards(brecs, wd / "trace_big", "c15big", 3000)
    verdicts, st, tr = kit.judge_shards("C15_BigJudge", "C15_BigJudge", shards)
    out.states += st
    out.transitions += tr
    out.traces += len(brecs)
    byid = {r["id"]: r for r in brecs}
    refused = 0
    for v in verdicts:
        if "id" not in v:       # (the judge module extends C15_Big, which prints its constants)
            continue
        if v["v"] == "SKIP":
            out.skipped += 1
        elif v["v"] == "REFUSED":
            refused += 1
        else:
            rec = byid[v["id"]]
            known = [json.loads(k) for k in out.known]
            hit = next((k for k in known if k.get("kind") == "solve" and k.get("clause") == v["v"]
                        and k.get("feature") is None), None)
            out.fail(hit or {"kind": "bigsolve", "clause": v["v"]},
                     {"case": {k: rec[k] for k in rec if k != "res"}, "recorded": rec["res"], "fam": "big"})
    return refused


def big_family(out, wd):
    """Systems with constants beyond 2**53 (C15_Big.tla), judged by exact BigNum evaluation."""
    big = kit.run_tlc("C15_Big", "C15_Big", workers=4, coverage=False)
    kit.require_clean(big, "C15 large-value systems (generator, judge self-test)")
    out.add_tlc(big)
    bp = big.printed()
    consts = [p["bigconsts"] for p in bp if "bigconsts" in p]
    bcases = [p for p in bp if p.get("kind") == "bigsolve"]
    if len(consts) != 1 or not bcases:
        raise kit.MachineryError("C15_Big printed no constants / systems")
    for i, c in enumerate(bcases):
        c["id"] = f"b{i}"
    brecs = kit.drive("harness.c15", "drive_big", bcases, {"bigconsts": consts[0]}, chunk=300)
    out.evaluations += len(brecs)
    out.extra["large_value_systems"] = len(brecs)
    out.extra["large_value_systems_refused"] = judge_big(out, brecs, wd)
    out.extra["large_value_systems_solved"] = sum(1 for r in brecs if r["res"]["r"] == "ok")


def run(tier, seed, out):
    wd = kit.fresh_workdir("C15")
    gen = kit.run_tlc("C15_Gen", f"C15_Gen_{tier}")
    kit.require_clean(gen, "C15 generation / Cramer oracle check")
    out.add_tlc(gen)
    cases = [p for p in gen.printed() if "kind" in p]
    for i, c in enumerate(cases):
        c["id"] = i
    kit.log(f"C15: TLC generated {len(cases)} cases ({gen.wall:.1f}s)")
    recs = kit.drive("harness.c15", "drive_case", cases, None, chunk=300)
    out.evaluations += len(recs)

    def corrupt(r):      # one returned coefficient replaced by "coefficient + 1"
        if r["kind"] == "coeff" and r["res"].get("r") == "ok" and r["res"]["coeffs"] and r["tgt"] == ["ALL"]:
            c = r["res"]["coeffs"][0]
            c["coeff"] = {"t": "Sum", "c": [c["coeff"], {"t": "Const", "v": {"k": "int", "n": 1, "d": 1}}]}
            return r
        return None
    out.extra["corrupted_records_rejected"] = kit.corruption_control(
        "C15_Judge", "C15_Judge", recs, corrupt, wd,
        flagged=lambda v: v.get("v") not in ("OK", "SKIP", "REFUSED"))
    judge(out, recs, wd)
    big_family(out, wd)
    for r in recs:
        out.note_case({k: r[k] for k in r if k not in ("res", "id")})
    out.samples = [{k: r[k] for k in r if k != "id"} for r in recs[:: max(1, len(recs) // 3)][:3]]
    out.rule = ("TLC enumerates (expression, target set) pairs over sums/products/quotients/powers of x, y, p, a[0] "
                "and constants, and all 2x2 integer affine systems with entries in {-1,0,1,2} (plus systems with "
                "unknowns/parameters on both sides); distinct by canonical JSON")
    out.exhaustive = True
    out.assumptions += ["Poly.tla normal forms decide affineness and reconstruction exactly",
                        "a solver refusal on a solvable system is tabulated, not judged (the statement promises "
                        "nothing about which systems are accepted)"]


def replay(path, out):
    wd = kit.fresh_workdir("C15")
    d = json.loads(open(path).read())
    if d["detail"].get("fam") == "big":
        big = kit.run_tlc("C15_Big", "C15_Big", workers=2, coverage=False)
        consts = [p["bigconsts"] for p in big.printed() if "bigconsts" in p][0]
        brecs = kit.drive("harness.c15", "drive_big", [d["detail"]["case"]], {"bigconsts": consts})
        judge_big(out, brecs, wd)
        return
    recs = kit.drive("harness.c15", "drive_case", [d["detail"]["case"]], None)
    judge(out, recs, wd)
