"""C16 - pattern matching results are sound.

Unifier part:  C16_Gen (TLC: enumerate (pattern, target, candidate set) triples, check the
transcribed algorithm C16_UnifyImpl against the meaning C16_Unify) -> drive (real
UnidirectionalUnifier) -> C16_Judge (TLC judges every recorded record list).
matchpy part:  C16_MGen (TLC: enumerate round-trip terms and (subject, wildcard pattern)
pairs) -> drive (to/from conversion, match, match_anywhere, replace_all with a logging
replacement) -> C16_MJudge (TLC judges every recorded observation; replace_all histories are
validated step by step against the rewriting state machine of C16_Matchpy).
Python never decides a verdict: it builds objects, calls, serialises, groups."""
from __future__ import annotations

import json

from harness import kit, ser
from harness import c16m


# ------------------------------------------------------------------ driver
def drive_case(case, extra):
    """One (pattern, target, candidates) triple through UnidirectionalUnifier."""
    import warnings
    from pymbolic.mapper.unifier import UnidirectionalUnifier
    pat = ser.from_json(case["p"])
    tgt = ser.from_json(case["t"])
    cands = None if case["C"] == ["*"] else list(case["C"])
    out = {"id": case["id"], "p": case["p"], "t": case["t"], "C": case["C"], "m": case["m"],
           "exc": "", "recs": []}
    try:
        with warnings.catch_warnings():
            warnings.simplefilter("ignore")
            recs = UnidirectionalUnifier(cands)(pat, tgt)
            recs = list(recs)
    except RecursionError:
        raise
    except Exception as exc:  # noqa: BLE001 - the exception class is the observation
        out["exc"] = type(exc).__name__
        return out
    try:
        for r in recs:
            out["recs"].append({
                "eqs": [{"l": c16m.to_json(lhs), "r": c16m.to_json(rhs)}
                        for lhs, rhs in r.equations],
                "lmap": [{"n": str(k), "e": c16m.to_json(v)} for k, v in r.lmap.items()]})
    except ser.Unserialisable as exc:
        out["exc"] = "Unserialisable"
        out["recs"] = []
        out["text"] = str(exc)[:200]
    return out


# ---------------------------------------------------------------- pipeline
# TLC evaluates the recursive operators on the worker threads' stacks: give them room
JENV = {"JAVA_TOOL_OPTIONS": "-Xss64m"}

def expand(printed):
    """One TLC line = one (pattern, target) pair with all its candidate sets."""
    cases = []
    for p in printed:
        if "p" not in p or "cs" not in p:
            continue
        for cset in sorted(p["cs"], key=lambda s: (len(s), s)):
            cases.append({"id": len(cases), "p": p["p"], "t": p["t"], "m": p["m"],
                          "C": sorted(cset)})
    return cases


NEG_CONTROLS = [
    # cfg (a planted defect in the transcription), invariants of which TLC MUST report one
    # violated (which one it meets first depends on the search order)
    ("C16_Gen_bug_consistency", ("ImplSound",)),
    ("C16_Gen_bug_leftover", ("ImplSound", "ImplComplete")),
    ("C16_Gen_bug_nomerge", ("ImplSound",)),
    ("C16_Gen_bug_norepeat", ("ImplComplete",)),
    # known binding tested by its truth value instead of membership: only the "split" targets
    # (a repeated variable meeting a falsy operand and a different one) refute it
    ("C16_Gen_bug_truthy", ("ImplSound",)),
]
NEG_CONTROLS_QUICK = [NEG_CONTROLS[0], NEG_CONTROLS[4]]


def negative_control(cfg, inv):
    r = kit.run_tlc("C16_Gen", cfg, workers=2, heap="2g", env=JENV)
    if not set(inv) & set(r.invariant_violated):
        raise kit.MachineryError(
            f"negative control {cfg}: TLC did not report {' / '.join(inv)} violated "
            f"(rc={r.rc}): the model check cannot fail\n" + "\n".join(r.out.splitlines()[-15:]))
    return r


def size_of(e):
    if isinstance(e, dict):
        return (1 if "t" in e else 0) + sum(size_of(v) for v in e.values())
    if isinstance(e, list):
        return sum(size_of(v) for v in e)
    return 0


def tlc_judge_unifier(recs, wd, label):
    shards = kit.write_shards(recs, wd / "trace", label, 14000)
    return kit.judge_shards("C16_Judge", "C16_Judge", shards, env=JENV)


def judge_unifier(recs, wd, out, label, judged=None):
    verdicts, st, tr = judged or tlc_judge_unifier(recs, wd, label)
    out.states += st
    out.transitions += tr
    out.traces += len(recs)
    if len(verdicts) != len(recs):
        raise kit.MachineryError(f"C16 judge returned {len(verdicts)} verdicts for {len(recs)} records")
    byid = {r["id"]: r for r in recs}
    stats = out.extra.setdefault("unifier", {
        "triples": 0, "records_judged": 0, "renaming_hypotheses": 0, "nonempty_results": 0,
        "refusals": 0, "refusals_default_candidates_none": 0, "simplified_only": 0,
        "by_mode": {}})
    for v in verdicts:
        rec = byid[v["id"]]
        stats["triples"] += 1
        stats["records_judged"] += v["n"]
        stats["renaming_hypotheses"] += v["h"]
        stats["nonempty_results"] += 1 if v["n"] else 0
        stats["by_mode"][rec["m"]] = stats["by_mode"].get(rec["m"], 0) + 1
        out.drift += v["d"]
        if v["d"] and len(out.extra.setdefault("drift_examples", [])) < 5:
            out.extra["drift_examples"].append({"p": rec["p"], "t": rec["t"], "C": rec["C"]})
        if v["v"] == "OK":
            continue
        if v["v"].startswith("SKIP"):
            out.skipped += 1
            if v["v"] == "SKIP:outside_quantifier":
                ext = stats.setdefault("extension_findings_outside_quantifier", {})
                key = f'{v["xv"]}/{rec["exc"] or "-"}'
                ext[key] = ext.get(key, 0) + 1
                out.drift += 1
                if len(stats.setdefault("extension_examples", [])) < 3:
                    stats["extension_examples"].append(
                        {"clause": v["xv"], "p": rec["p"], "t": rec["t"], "C": rec["C"],
                         "exc": rec["exc"], "recs": rec["recs"]})
            elif v["v"] == "SKIP:refusal":
                stats["refusals"] += 1
                if rec["C"] == ["*"]:
                    stats["refusals_default_candidates_none"] += 1
                else:
                    stats.setdefault("refusal_examples", [])
                    if len(stats["refusal_examples"]) < 5:
                        stats["refusal_examples"].append(
                            {"p": rec["p"], "t": rec["t"], "C": rec["C"], "exc": rec["exc"]})
            else:
                stats["simplified_only"] += 1
                if len(stats.setdefault("simplified_examples", [])) < 3:
                    stats["simplified_examples"].append(
                        {"p": rec["p"], "t": rec["t"], "C": rec["C"], "recs": rec["recs"]})
            continue
        sig = {"part": "unifier", "clause": v["v"], "feat": v["feat"]}
        out.fail(sig, {"part": "unifier", "case": {k: rec[k] for k in ("p", "t", "C", "m")},
                       "recorded": {"exc": rec["exc"], "recs": rec["recs"]},
                       "verdict": v})
    return verdicts


def generate(tier, seed, out):
    gen = kit.run_tlc("C16_Gen", f"C16_Gen_{tier}", env=JENV, workers=12)
    kit.require_clean(gen, "C16 model check (UnifyImpl sound / complete on renamings w.r.t. Unify)")
    cases = expand(gen.printed())
    if not cases:
        raise kit.MachineryError("C16 generator printed no cases")
    kit.log(f"C16: TLC generated {len(cases)} (pattern, target, candidates) triples "
            f"({gen.distinct} states, {gen.wall:.1f}s)")
    res = [gen]
    if tier == "thorough":
        sim = kit.run_tlc("C16_Gen", "C16_Gen_sim", simulate="num=200", depth=12, seed=seed,
                          workers=8, env=JENV)
        kit.require_clean(sim, "C16 random deeper patterns (-simulate)")
        res.append(sim)
        seen = {json.dumps([c["p"], c["t"]], sort_keys=True) for c in cases}
        extra_lines = []
        for p in sim.printed():
            if "p" in p and "cs" in p:
                k = json.dumps([p["p"], p["t"]], sort_keys=True)
                if k not in seen:
                    seen.add(k)
                    extra_lines.append(p)
        more = expand(extra_lines)
        for c in more:
            c["id"] += len(cases)
        kit.log(f"C16: -simulate (seed {seed}) added {len(more)} triples beyond the exhaustive bounds")
        out.extra["simulated_triples"] = len(more)
        cases += more
    return res, cases


def run(tier, seed, out):
    import concurrent.futures as cf
    import time
    wd = kit.fresh_workdir("C16")
    t0 = time.time()
    # (1) model check + generate: both parts and the negative controls, concurrently
    # (at most three JVMs at a time: the sandbox is shared)
    def all_negative_controls():
        ctl = NEG_CONTROLS if tier == "thorough" else NEG_CONTROLS_QUICK
        return [negative_control(cfg, inv) for cfg, inv in ctl] + [c16m.negative_control()]

    with cf.ThreadPoolExecutor(max_workers=3) as ex:
        f_gen = ex.submit(generate, tier, seed, out)
        f_mgen = ex.submit(c16m.generate, tier, out)
        f_neg = ex.submit(all_negative_controls)
        gens, cases = f_gen.result()
        mgen, mcases = f_mgen.result()
        negs = f_neg.result()
    for r in gens + [mgen] + negs:
        out.add_tlc(r)
    out.extra["negative_controls_violated_as_required"] = len(negs)
    kit.log(f"C16: stage 1 done at {time.time() - t0:.0f}s")
    # (2) drive
    recs = kit.drive("harness.c16", "drive_case", cases, None, chunk=400)
    out.evaluations += len(recs)
    mrecs = c16m.drive_all(mcases, out)
    kit.log(f"C16: stage 2 done at {time.time() - t0:.0f}s")
    # (3)+(4) judge + classify (both parts concurrently; verdicts are applied in order)
    with cf.ThreadPoolExecutor(max_workers=2) as ex:
        f_u = ex.submit(tlc_judge_unifier, recs, wd, "c16")
        f_m = ex.submit(c16m.tlc_judge_matchpy, mrecs, wd, "c16m")
        ju, jm = f_u.result(), f_m.result()
    judge_unifier(recs, wd, out, "c16", ju)
    c16m.judge_matchpy(mrecs, wd, out, "c16m", jm)
    kit.log(f"C16: stage 3 done at {time.time() - t0:.0f}s")
    for r in recs:
        out.note_case([r["p"], r["t"], r["C"]],
                      nontrivial=r["p"]["t"] not in ("Var", "Const") and bool(r["recs"]))
    with_recs = [x for x in recs if x["recs"] and x["p"]["t"] != "Var"]
    step = max(1, len(with_recs) // 2)
    out.samples = [{"pattern": r["p"], "target": r["t"], "candidates": r["C"],
                    "recorded": {"exc": r["exc"], "records": r["recs"]}}
                   for r in with_recs[::step][:2]]
    c16m.finish_part(mrecs, out)
    out.rule = (
        "unifier: TLC enumerates pattern root kind x typed holes (depth <= 2) x targets built as "
        "instances (also flattened+reversed / with an extra operand), renamings (injective and "
        "not), independent trees and SPLIT non-instances (one occurrence of a repeated pattern "
        "variable meets a falsy operand - 0, 0.0, False, 0*x, 0/y - the others a different one) "
        "x every subset of the pattern variables as candidate set "
        "(+ the default None); a case is one triple, non-trivial = composite pattern for which "
        "the unifier returned at least one record (each record is judged); "
        "matchpy: round-trip terms, (subject, wildcard pattern) pairs for match/match_anywhere "
        "and two replace_all histories each, non-trivial = composite subject; "
        "distinct by canonical JSON digest")
    out.exhaustive = tier == "quick"
    out.assumptions += [
        "x[i] and x[(i,)] are the same subscript (the unifier unpacks 1-tuples on purpose)",
        "operand order of the commutative non-AC kinds (Min, Max, bitwise, logical) is ignored "
        "too (the statement only names sums and products; leniency, never a failure); the "
        "matchpy bridge declares bitwise/logical or/and/xor associative as well and is judged so",
        "records that reproduce the target only after x+0=x, x*1=x, x*0=0 or dropping "
        "one-operand/empty groups are SKIPPED (counted in unifier.simplified_only), not failed",
        "lhs_mapping_candidates=None raising TypeError is a refusal (SKIP), not an unsound record; "
        "an operation of the bridge that raises reports nothing and is a refusal too",
        "TLC, the JSON boundary, harness/ser.py object construction",
    ]


def replay(path, out):
    data = json.loads(open(path).read())
    detail = data["detail"]
    wd = kit.fresh_workdir("C16")
    if detail.get("part") == "unifier":
        case = dict(detail["case"])
        case["id"] = 0
        recs = kit.drive("harness.c16", "drive_case", [case], None)
        out.evaluations += 1
        vs = judge_unifier(recs, wd, out, "replay")
        kit.log(f"C16 replay: recorded {json.dumps(recs[0])[:2000]}")
        kit.log(f"C16 replay: verdict {vs}")
    else:
        c16m.replay_case(detail, out, wd)
    out.samples = [detail]
    out.rule = "replay of one stored case"
