------------------------------ MODULE C01_Values ------------------------------
(***************************************************************************)
(* M-layer of C01: what an expression object *is* (a class tag and a tuple *)
(* of field values) and what Python's == says about two of them.  Written  *)
(* from the Python data model (tuple, numeric tower, mapping equality),    *)
(* not from pymbolic's source.  The same shapes are the JSON exchanged     *)
(* with the driver (harness/c01.py).                                       *)
(*                                                                         *)
(*   K    [t, k, n, d, im]  number n/d + im*j of Python type k             *)
(*                          (int bool flt frac cplx npint npflt)           *)
(*        [.., k = "nan", id]  a float NaN: a value that is NOT == itself. *)
(*                          id names the float OBJECT (Python's containers *)
(*                          compare elements with "is" first, so identity  *)
(*                          of such a value is observable)                 *)
(*   S    [t, s, hc]        str; hc = 1: a str subclass whose __hash__ is  *)
(*                          constant (a legal, colliding hash)             *)
(*   None [t]               Ty [t, s]   a type object (float, ...)         *)
(*   T    [t, c]            tuple                                          *)
(*   M    [t, mt, kv]       mapping, kv = seq of [k, v] in insertion order *)
(*                          mt = the FORM of the mapping object (round 5,  *)
(*                          see MapForms): "imm" (immutabledict) | "dict"  *)
(*                          | "odict" | "chain" | "proxy" | "pimm" | "umap"*)
(*   N    [t, cls, f]       expression node: class name + field values in  *)
(*                          declaration order                              *)
(***************************************************************************)
EXTENDS Integers, Sequences, FiniteSets, TLC

KV(k, n, d)   == [t |-> "K", k |-> k, n |-> n, d |-> d, im |-> 0]
KI(n)         == KV("int", n, 1)
KF(n, d)      == KV("flt", n, d)
KB(b)         == KV("bool", IF b THEN 1 ELSE 0, 1)
KC(n, im)     == [t |-> "K", k |-> "cplx", n |-> n, d |-> 1, im |-> im]
KN(id)        == [t |-> "K", k |-> "nan", n |-> 0, d |-> 1, im |-> 0, id |-> id]
IsNaN(v)      == v.t = "K" /\ v.k = "nan"
Str(s)        == [t |-> "S", s |-> s, hc |-> 0]
CStr(s)       == [t |-> "S", s |-> s, hc |-> 1]
NoneV         == [t |-> "None"]
Ty(s)         == [t |-> "Ty", s |-> s]
Tup(c)        == [t |-> "T", c |-> c]
KwE(k, v)     == [k |-> k, v |-> v]
Map(mt, kv)   == [t |-> "M", mt |-> mt, kv |-> kv]
Node(cls, f)  == [t |-> "N", cls |-> cls, f |-> f]

(***************************************************************************)
(* Class table.  tmpl says how the class came to be:                       *)
(*   builtin      decorated class of pymbolic.primitives                   *)
(*   deco-root    user class, decorated, directly below Expression         *)
(*   deco-child   user class, decorated, child of a decorated user class,  *)
(*                adds a field                                             *)
(*   legacy       user class below Expression using only init_arg_names /  *)
(*                __getinitargs__                                          *)
(*   legacy-child undecorated child of a decorated class that adds an      *)
(*                init arg through the legacy protocol ("mixed")           *)
(*   plain-child  undecorated child of a decorated class, no new field     *)
(* flds: the fields (init args) in order; own: how many of them are        *)
(* dataclass fields of the closest decorated ancestor (the class whose     *)
(* generated __eq__/__hash__ the instance uses; 0 for pure legacy).        *)
(***************************************************************************)
ChildrenOnly == {"Sum", "Product", "Min", "Max", "BitwiseOr", "BitwiseXor", "BitwiseAnd",
                 "LogicalOr", "LogicalAnd", "Slice"}
NoField  == {"Wildcard", "FunctionSymbol", "Leaf", "AlgebraicLeaf"}
NameOnly == {"Variable", "DotWildcard", "StarWildcard", "UVar", "MultiVectorVariable"}
QuotKinds == {"Quotient", "FloorDiv", "Remainder", "QuotientBase"}
ShiftKinds == {"LeftShift", "RightShift"}
ChildOnly == {"BitwiseNot", "LogicalNot"}
UserClasses == {"URoot", "UChild", "ULeg", "ULegChild", "UPlain", "UVar", "UTagVar", "UInit",
                "UPlain2", "ULegGrand", "ULegGrandD", "ULegChildPlain", "UMVTag",
                "UKw", "UKwCse", "UInitF"}

FieldsOf(cls) ==
    CASE cls \in ChildrenOnly -> << "children" >>
      [] cls \in NoField      -> << >>
      [] cls \in NameOnly     -> << "name" >>
      [] cls \in QuotKinds    -> << "numerator", "denominator" >>
      [] cls \in ShiftKinds   -> << "shiftee", "shift" >>
      [] cls \in ChildOnly    -> << "child" >>
      [] cls = "Power"        -> << "base", "exponent" >>
      [] cls = "Call"         -> << "function", "parameters" >>
      [] cls = "CallWithKwargs" -> << "function", "parameters", "kw_parameters" >>
      [] cls = "Subscript"    -> << "aggregate", "index" >>
      [] cls = "Lookup"       -> << "aggregate", "name" >>
      [] cls = "Comparison"   -> << "left", "operator", "right" >>
      [] cls = "If"           -> << "condition", "then", "else_" >>
      [] cls = "CommonSubexpression" -> << "child", "prefix", "scope" >>
      [] cls = "Substitution" -> << "child", "variables", "values" >>
      [] cls = "Derivative"   -> << "child", "variables" >>
      [] cls = "NaN"          -> << "data_type" >>
      [] cls \in {"URoot", "ULeg", "UPlain", "UInit", "UPlain2"} -> << "u", "v" >>
      [] cls \in {"UChild", "ULegChild", "ULegGrand", "ULegChildPlain"} -> << "u", "v", "w" >>
      [] cls = "ULegGrandD"   -> << "u", "v", "w", "x" >>
      [] cls \in {"UTagVar", "UMVTag"} -> << "name", "tag" >>
      \* round 4: fields that are not positional constructor parameters (see NonPositional)
      [] cls = "UKw"          -> << "u", "t", "v" >>
      [] cls = "UKwCse"       -> << "child", "prefix", "scope", "tag" >>
      [] cls = "UInitF"       -> << "u", "lab", "v" >>

TmplOf(cls) ==
    CASE cls \in {"URoot", "UInit", "UKw", "UInitF"} -> "deco-root"
      [] cls \in {"UChild", "UKwCse"} -> "deco-child"
      [] cls = "UTagVar"   -> "deco-child"
      [] cls = "ULeg"      -> "legacy"
      [] cls \in {"ULegChild", "ULegGrand", "ULegGrandD", "ULegChildPlain", "UMVTag"} -> "legacy-child"
      [] cls \in {"UPlain", "UPlain2", "UVar", "MultiVectorVariable"} -> "plain-child"
      [] OTHER             -> "builtin"

(***************************************************************************)
(* Three-level hierarchies (round 2).  ParentOf is the direct base class   *)
(* ("" = Expression or a class whose base is of no interest here):         *)
(*   URoot -> UPlain -> UPlain2            plain below plain               *)
(*   URoot -> UPlain -> ULegGrand(+w)      legacy below an undecorated     *)
(*                                         class with the same init args   *)
(*   URoot -> UChild(+w, decorated) -> ULegGrandD(+x)                      *)
(*   URoot -> ULegChild(+w) -> ULegChildPlain   inherits the legacy args   *)
(*   Variable -> MultiVectorVariable (built in, undecorated) -> UMVTag(+tag)*)
(* A class whose instances still run the generated __eq__/__hash__ of a    *)
(* decorated ancestor is "undecorated"; whatever those functions remember  *)
(* per class is class-level state and the order in which the classes are   *)
(* first used is part of a history.                                        *)
(***************************************************************************)
ParentOf(cls) ==
    CASE cls \in {"UChild", "ULegChild", "UPlain"} -> "URoot"
      [] cls \in {"UPlain2", "ULegGrand"}  -> "UPlain"
      [] cls = "ULegGrandD"      -> "UChild"
      [] cls = "ULegChildPlain"  -> "ULegChild"
      [] cls \in {"UVar", "UTagVar", "MultiVectorVariable"} -> "Variable"
      [] cls = "UMVTag"          -> "MultiVectorVariable"
      [] cls = "UKwCse"          -> "CommonSubexpression"
      [] OTHER                   -> ""
Undecorated(cls) == TmplOf(cls) \in {"plain-child", "legacy-child"}
\* cls, its base, ... as long as they are undecorated (nearest first)
RECURSIVE UndecoChain(_)
UndecoChain(cls) == IF cls = "" \/ ~Undecorated(cls) THEN << >>
                    ELSE << cls >> \o UndecoChain(ParentOf(cls))

\* number of leading fields that are dataclass fields of the closest decorated ancestor
OwnCount(cls) ==
    CASE cls = "ULeg"      -> 0
      [] cls \in {"ULegChild", "ULegGrand", "ULegChildPlain"} -> 2
      [] cls = "ULegGrandD" -> 3
      [] cls = "UMVTag"    -> 1
      [] OTHER             -> Len(FieldsOf(cls))

IsDataclassInstance(cls) == cls # "ULeg"

(***************************************************************************)
(* Round 4: how a dataclass field gets its value.  Not every field of a    *)
(* decorated class is a positional parameter of its constructor:           *)
(*   UKw     (Expression)  u, t (keyword-only, default 0, declared BETWEEN *)
(*           the positional ones), v (positional, default 0)               *)
(*   UKwCse  decorated child of the built-in CommonSubexpression (whose    *)
(*           prefix / scope have defaults) adding tag: keyword-only, no    *)
(*           default, handed back to mappers by get_extra_properties       *)
(*   UInitF  (Expression)  u, lab (field(init=False): not a constructor    *)
(*           parameter at all; __post_init__ takes it from the ambient     *)
(*           context the object is built in), v (positional, default 0)    *)
(* The statement does not care: a field is a field.  NonPositional = the   *)
(* indices of the fields the constructor does not take by position,        *)
(* NoInit = of those it does not take at all.                              *)
(***************************************************************************)
NonPositional(cls) ==
    CASE cls \in {"UKw", "UInitF"} -> {2}
      [] cls = "UKwCse"            -> {4}
      [] OTHER                     -> {}
NoInit(cls) == IF cls = "UInitF" THEN {2} ELSE {}
\* classes with CommonSubexpression's __post_init__ (scope None -> evaluation scope)
CseLike == {"CommonSubexpression", "UKwCse"}
FieldIndex(cls, fname) == CHOOSE i \in 1..Len(FieldsOf(cls)) : FieldsOf(cls)[i] = fname

(***************************************************************************)
(* Python ==                                                               *)
(***************************************************************************)
RECURSIVE PyEq(_, _), Decidable(_), Hashable(_)

\* values the model can speak about (a float NaN comes with the identity of the float
\* object: nan != nan but (nan,) == (nan,) for one and the same object; see Eq3 below)
Decidable(v) ==
    CASE v.t = "K" -> v.d > 0
      [] v.t = "T" -> \A i \in 1..Len(v.c) : Decidable(v.c[i])
      [] v.t = "M" -> \A i \in 1..Len(v.kv) : Decidable(v.kv[i].v)
      [] v.t = "N" -> \A i \in 1..Len(v.f) : Decidable(v.f[i])
      [] v.t = "Unk" -> FALSE      \* something the driver could not serialise
      [] OTHER -> TRUE

PyEq(a, b) ==
    IF a.t # b.t THEN FALSE
    ELSE CASE a.t = "K"    -> a.k # "nan" /\ b.k # "nan" /\ a.n * b.d = b.n * a.d /\ a.im = b.im
           [] a.t = "S"    -> a.s = b.s
           [] a.t = "None" -> TRUE
           [] a.t = "Ty"   -> a.s = b.s
           [] a.t = "T"    -> /\ Len(a.c) = Len(b.c)
                              /\ \A i \in 1..Len(a.c) : PyEq(a.c[i], b.c[i])
           [] a.t = "M"    -> /\ Len(a.kv) = Len(b.kv)
                              /\ \A i \in 1..Len(a.kv) : \E j \in 1..Len(b.kv) :
                                    a.kv[i].k = b.kv[j].k /\ PyEq(a.kv[i].v, b.kv[j].v)
           \* the statement of C01: same node class and pairwise-equal fields
           [] a.t = "N"    -> /\ a.cls = b.cls
                              /\ Len(a.f) = Len(b.f)
                              /\ \A i \in 1..Len(a.f) : PyEq(a.f[i], b.f[i])
           \* "Missing" (a deleted attribute, only after an Immutable violation)
           [] OTHER        -> FALSE

(***************************************************************************)
(* Round 3: values that are not equal to themselves (float NaN).           *)
(* PyEq above is strict, structural == (NaN-free trees: the whole truth).  *)
(* With a NaN in a tree the meaning of "pairwise-equal fields" depends on  *)
(* object identity, and part of it is not fixed by the statement, so the   *)
(* meaning is three-valued: "T" must compare equal, "F" must compare       *)
(* unequal, "U" either answer is allowed.                                  *)
(*   - an object is equal to ITSELF whatever its fields hold (reflexivity; *)
(*     decided by the callers below through the object index, not here)    *)
(*   - a NaN is never == anything; inside a tuple / mapping Python tries   *)
(*     "is" first: the same float object there is equal ("T")              *)
(*   - the same NaN object directly in a field of two DIFFERENT nodes:     *)
(*     field == field says unequal, field-tuple == field-tuple (what the   *)
(*     init-args protocol compares) says equal: "U"                        *)
(*   - nested nodes with identical trees that are not structurally equal   *)
(*     (only possible with a NaN inside): they may be one and the same     *)
(*     object (a shallow copy shares its children) and then are equal by   *)
(*     reflexivity, or two objects: "U"                                    *)
(***************************************************************************)
RECURSIVE HasNaN(_)
HasNaN(v) ==
    CASE v.t = "K" -> v.k = "nan"
      [] v.t = "T" -> \E i \in 1..Len(v.c) : HasNaN(v.c[i])
      [] v.t = "M" -> \E i \in 1..Len(v.kv) : HasNaN(v.kv[i].v)
      [] v.t = "N" -> \E i \in 1..Len(v.f) : HasNaN(v.f[i])
      [] OTHER -> FALSE

And3(R) == IF "F" \in R THEN "F" ELSE IF "U" \in R THEN "U" ELSE "T"
B3(b)   == IF b THEN "T" ELSE "F"

\* elt: the two values are compared as elements of a container (identity first)
RECURSIVE Eq3V(_, _, _)
Eq3V(a, b, elt) ==
    IF a.t # b.t THEN "F"
    ELSE CASE a.t = "K" ->
                IF a.k = "nan" \/ b.k = "nan"
                THEN IF a.k = "nan" /\ b.k = "nan" /\ a.id = b.id
                     THEN (IF elt THEN "T" ELSE "U") ELSE "F"
                ELSE B3(a.n * b.d = b.n * a.d /\ a.im = b.im)
           [] a.t = "T" -> IF Len(a.c) # Len(b.c) THEN "F"
                           ELSE And3({ Eq3V(a.c[i], b.c[i], TRUE) : i \in 1..Len(a.c) })
           [] a.t = "M" -> IF Len(a.kv) # Len(b.kv) THEN "F"
                           ELSE And3({ LET js == { j \in 1..Len(b.kv) : a.kv[i].k = b.kv[j].k } IN
                                       IF js = {} THEN "F"
                                       ELSE Eq3V(a.kv[i].v, b.kv[CHOOSE j \in js : TRUE].v, TRUE)
                                     : i \in 1..Len(a.kv) })
           [] a.t = "N" -> LET s == IF a.cls # b.cls \/ Len(a.f) # Len(b.f) THEN "F"
                                    ELSE And3({ Eq3V(a.f[i], b.f[i], FALSE) : i \in 1..Len(a.f) })
                           IN IF s = "T" THEN "T" ELSE IF a = b THEN "U" ELSE s
           [] OTHER -> B3(PyEq(a, b))

\* two DIFFERENT expression objects with trees a and b: same class and pairwise-equal fields
EqTop(a, b) ==
    IF ~HasNaN(a) /\ ~HasNaN(b) THEN B3(PyEq(a, b))
    ELSE IF a.t # "N" \/ b.t # "N" THEN "F"
    ELSE IF a.cls # b.cls \/ Len(a.f) # Len(b.f) THEN "F"
    ELSE And3({ Eq3V(a.f[i], b.f[i], FALSE) : i \in 1..Len(a.f) })

(***************************************************************************)
(* Round 5: the FORM in which a container-valued field is handed to a      *)
(* constructor is an input dimension.  A keyword mapping is any Mapping:   *)
(*   imm    immutabledict                      hashable, nothing to mutate *)
(*   dict   a plain dict the caller keeps      unhashable, live            *)
(*   odict  collections.OrderedDict            unhashable, live            *)
(*   chain  collections.ChainMap over a dict   unhashable, live            *)
(*   umap   a collections.abc.Mapping subclass reading a dict the caller   *)
(*          keeps                              unhashable, live            *)
(*   proxy  types.MappingProxyType over a dict the caller keeps: a read-   *)
(*          only VIEW; has a __hash__ slot (Python >= 3.12) that raises:   *)
(*          only nominally hashable, live                                  *)
(*   pimm   types.MappingProxyType over an immutabledict: hashable (the    *)
(*          view hashes and compares as what it shows), nothing to mutate  *)
(* "live": the caller still holds an object through which the contents can *)
(* change after the node was built.  Python's == on mappings does not look *)
(* at the form (PyEq never reads mt).  What the statement needs of a node  *)
(* built from ANY of them: it is hashable, it is == the node built from    *)
(* the canonical form, and nothing the caller later does to the object it  *)
(* passed changes the node (C01_Objects: BuiltHashable, BuiltAsGiven,      *)
(* Immutable along Mutate events).                                         *)
(***************************************************************************)
MapForms      == {"imm", "dict", "odict", "chain", "umap", "proxy", "pimm"}
LiveForms     == {"dict", "odict", "chain", "umap", "proxy"}
HashableForms == {"imm", "pimm"}           \* hash(m) does not raise (given hashable values)
\* forms whose TYPE has a __hash__ slot (isinstance(m, collections.abc.Hashable))
NominallyHashableForms == {"imm", "pimm", "proxy"}

\* hash(v) does not raise
Hashable(v) ==
    CASE v.t = "T" -> \A i \in 1..Len(v.c) : Hashable(v.c[i])
      [] v.t = "M" -> v.mt \in HashableForms /\ \A i \in 1..Len(v.kv) : Hashable(v.kv[i].v)
      [] v.t = "N" -> \A i \in 1..Len(v.f) : Hashable(v.f[i])
      [] OTHER -> TRUE

(***************************************************************************)
(* Canonical representative: PyEq(a, b) <=> Canon(a) = Canon(b)            *)
(* (checked by TLC over the catalogue).  Used as the "perfect" hash.       *)
(***************************************************************************)
RECURSIVE Gcd(_, _)
Gcd(a, b) == IF b = 0 THEN a ELSE Gcd(b, a % b)
Abs(x) == IF x < 0 THEN -x ELSE x

RECURSIVE Canon(_)
Canon(v) ==
    CASE v.t = "K" -> IF v.k = "nan" THEN [t |-> "KN", id |-> v.id]   \* hash(nan) goes by object identity
                      ELSE
                      LET g == Gcd(Abs(v.n), v.d) IN
                      [t |-> "K", n |-> v.n \div g, d |-> v.d \div g, im |-> v.im]
      [] v.t = "S" -> [t |-> "S", s |-> v.s]
      [] v.t = "T" -> [t |-> "T", c |-> [i \in 1..Len(v.c) |-> Canon(v.c[i])]]
      [] v.t = "M" -> [t |-> "M", kvs |-> { [k |-> v.kv[i].k, v |-> Canon(v.kv[i].v)] :
                                             i \in 1..Len(v.kv) }]
      [] v.t = "N" -> [t |-> "N", cls |-> v.cls, f |-> [i \in 1..Len(v.f) |-> Canon(v.f[i])]]
      [] OTHER -> v

(***************************************************************************)
(* "CPython-like" hash: respects == but collides where CPython does        *)
(* (hash(-1) = hash(-2)), where the input asks for it (hc = 1 strings) and *)
(* where pymbolic's generated hash does (the class name of a decorated     *)
(* class is not hashed; a legacy class hashes its name and init args).     *)
(***************************************************************************)
RECURSIVE RealHash(_)
RealHash(v) ==
    CASE v.t = "K" -> IF v.n = -1 /\ v.d = 1 /\ v.im = 0
                      THEN [t |-> "K", n |-> -2, d |-> 1, im |-> 0] ELSE Canon(v)
      [] v.t = "S" -> IF v.hc = 1 THEN [t |-> "S", s |-> "<colliding>"] ELSE [t |-> "S", s |-> v.s]
      [] v.t = "T" -> [t |-> "T", c |-> [i \in 1..Len(v.c) |-> RealHash(v.c[i])]]
      [] v.t = "M" -> [t |-> "M", kvs |-> { [k |-> v.kv[i].k, v |-> RealHash(v.kv[i].v)] :
                                             i \in 1..Len(v.kv) }]
      [] v.t = "N" -> IF OwnCount(v.cls) = Len(v.f)
                      THEN [t |-> "T", c |-> [i \in 1..Len(v.f) |-> RealHash(v.f[i])]]
                      ELSE [t |-> "T", c |-> << [t |-> "S", s |-> v.cls] >>
                                               \o [i \in 1..Len(v.f) |-> RealHash(v.f[i])]]
      [] OTHER -> v

(***************************************************************************)
(* Constructors: the three documented __post_init__ normalisations.        *)
(* Norm returns the stored tree, or [t |-> "Err", s |-> exception class].  *)
(***************************************************************************)
OpNames == [eq |-> "==", ne |-> "!=", ge |-> ">=", gt |-> ">", le |-> "<=", lt |-> "<"]
OpSyms  == {"==", "!=", ">=", ">", "<=", "<"}

Norm(v) ==
    IF v.t # "N" THEN v
    ELSE CASE v.cls = "CallWithKwargs" /\ v.f[3].t = "M" /\ ~Hashable(v.f[3]) ->
                [v EXCEPT !.f[3].mt = "imm"]
           [] v.cls = "Comparison" /\ v.f[2].t = "S" ->
                IF v.f[2].s \in OpSyms THEN v
                ELSE IF v.f[2].s \in DOMAIN OpNames
                     THEN [v EXCEPT !.f[2] = Str(OpNames[v.f[2].s])]
                     ELSE [t |-> "Err", s |-> "RuntimeError"]
           [] v.cls \in CseLike /\ v.f[3].t = "None" ->
                [v EXCEPT !.f[3] = Str("pymbolic_eval")]
           [] OTHER -> v

IsErr(v) == v.t = "Err"

\* the same value with every mapping in it given in form F / the forms that occur in v
RECURSIVE WithForm(_, _), FormsIn(_)
WithForm(v, F) ==
    CASE v.t = "T" -> [v EXCEPT !.c = [i \in 1..Len(v.c) |-> WithForm(v.c[i], F)]]
      [] v.t = "M" -> [v EXCEPT !.mt = F,
                                !.kv = [i \in 1..Len(v.kv) |-> [v.kv[i] EXCEPT !.v = WithForm(v.kv[i].v, F)]]]
      [] v.t = "N" -> [v EXCEPT !.f = [i \in 1..Len(v.f) |-> WithForm(v.f[i], F)]]
      [] OTHER -> v
FormsIn(v) ==
    CASE v.t = "T" -> UNION { FormsIn(v.c[i]) : i \in 1..Len(v.c) }
      [] v.t = "M" -> {v.mt} \cup UNION { FormsIn(v.kv[i].v) : i \in 1..Len(v.kv) }
      [] v.t = "N" -> UNION { FormsIn(v.f[i]) : i \in 1..Len(v.f) }
      [] OTHER -> {}
\* the constructor normalises nodes nested in the arguments as well (they were built first)
RECURSIVE NormDeep(_)
NormDeep(v) ==
    CASE v.t = "T" -> LET c == [i \in 1..Len(v.c) |-> NormDeep(v.c[i])] IN
                      IF \E i \in 1..Len(c) : IsErr(c[i]) THEN c[CHOOSE i \in 1..Len(c) : IsErr(c[i])]
                      ELSE [v EXCEPT !.c = c]
      [] v.t = "M" -> LET c == [i \in 1..Len(v.kv) |-> NormDeep(v.kv[i].v)] IN
                      IF \E i \in 1..Len(c) : IsErr(c[i]) THEN c[CHOOSE i \in 1..Len(c) : IsErr(c[i])]
                      ELSE [v EXCEPT !.kv = [i \in 1..Len(v.kv) |-> [v.kv[i] EXCEPT !.v = c[i]]]]
      [] v.t = "N" -> LET c == [i \in 1..Len(v.f) |-> NormDeep(v.f[i])] IN
                      IF \E i \in 1..Len(c) : IsErr(c[i]) THEN c[CHOOSE i \in 1..Len(c) : IsErr(c[i])]
                      ELSE Norm([v EXCEPT !.f = c])
      [] OTHER -> v

\* a node is well formed when it has as many fields as its class declares
WellFormed(v) == v.t = "N" => Len(v.f) = Len(FieldsOf(v.cls))
=============================================================================
