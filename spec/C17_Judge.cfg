CONSTANT NProc = 3
INIT Init
NEXT Next
INVARIANT Report
CHECK_DEADLOCK FALSE
