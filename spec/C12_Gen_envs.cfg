CONSTANTS
  Tier = "quick"
  Mode = "envs"
  Bug = "none"
INIT Init
NEXT Next
CHECK_DEADLOCK FALSE
