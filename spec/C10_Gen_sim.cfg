CONSTANT Tier = "sim"
CONSTANT Bug = "none"
INIT SimInit
NEXT SimNext
INVARIANT OracleLaws
INVARIANT Emit
CHECK_DEADLOCK FALSE
