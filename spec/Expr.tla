-------------------------------- MODULE Expr --------------------------------
(***************************************************************************)
(* The expression IR of pymbolic as TLA+ records.  One shape per node      *)
(* kind; the same shape is the JSON exchanged with the Python driver       *)
(* (harness/ser.py).  Field names are disjoint by type so that TLC never   *)
(* compares a string with a record.                                        *)
(*                                                                         *)
(*   Var     [t, name]                 Const  [t, v]  (v a PyNum value)    *)
(*   n-ary   [t, c]     t \in NaryKinds  (c a sequence)                     *)
(*   binary  [t, a, b]  t \in BinKinds                                      *)
(*   unary   [t, a]     t \in UnKinds                                       *)
(*   Cmp     [t, a, op, b]             If     [t, i, th, el]               *)
(*   Call    [t, f, c]                 CallKw [t, f, c, kw]  kw: seq of    *)
(*                                            [name, e] in mapping order   *)
(*   Sub     [t, a, b]                 Look   [t, a, name]                 *)
(*   CSE     [t, a, prefix, scope]     Tup/List/Slice [t, c]               *)
(*   Subst   [t, a, names, c]          Deriv  [t, a, names]                *)
(*   None    [t]   (omitted slice part, prefix None is the string "")      *)
(***************************************************************************)
EXTENDS Integers, Sequences, FiniteSets, TLC, PyNum

NaryKinds == {"Sum", "Product", "BitOr", "BitXor", "BitAnd", "LogOr", "LogAnd",
              "Min", "Max", "Tup", "List", "Slice"}
BinKinds  == {"Quotient", "FloorDiv", "Remainder", "Power", "LShift", "RShift", "Sub"}
UnKinds   == {"BitNot", "LogNot"}
CmpOps    == {"==", "!=", "<", "<=", ">", ">="}

V(name)        == [t |-> "Var", name |-> name]
K(val)         == [t |-> "Const", v |-> val]
KI(n)          == K(IntV(n))
N(kind, c)     == [t |-> kind, c |-> c]
B(kind, a, b)  == [t |-> kind, a |-> a, b |-> b]
U(kind, a)     == [t |-> kind, a |-> a]
Cmp(a, op, b)  == [t |-> "Cmp", a |-> a, op |-> op, b |-> b]
IfE(i, th, el) == [t |-> "If", i |-> i, th |-> th, el |-> el]
Call(f, c)     == [t |-> "Call", f |-> f, c |-> c]
CallKw(f, c, kw) == [t |-> "CallKw", f |-> f, c |-> c, kw |-> kw]
KwArg(name, e) == [name |-> name, e |-> e]
Look(a, name)  == [t |-> "Look", a |-> a, name |-> name]
CSE(a, prefix, scope) == [t |-> "CSE", a |-> a, prefix |-> prefix, scope |-> scope]
CSE0(a)        == CSE(a, "", "pymbolic_eval")
NoneE          == [t |-> "None"]
Hole           == [t |-> "Hole"]

\* children in the order the stock mappers visit them
Kids(e) ==
    CASE e.t \in {"Var", "Const", "None", "Hole"} -> << >>
      [] e.t \in NaryKinds -> e.c
      [] e.t \in BinKinds  -> << e.a, e.b >>
      [] e.t \in UnKinds   -> << e.a >>
      [] e.t = "Cmp"       -> << e.a, e.b >>
      [] e.t = "If"        -> << e.i, e.th, e.el >>
      [] e.t = "Call"      -> << e.f >> \o e.c
      [] e.t = "CallKw"    -> << e.f >> \o e.c \o [i \in 1..Len(e.kw) |-> e.kw[i].e]
      [] e.t = "Look"      -> << e.a >>
      [] e.t = "CSE"       -> << e.a >>
      [] e.t = "Subst"     -> << e.a >> \o e.c
      [] e.t = "Deriv"     -> << e.a >>

\* rebuild e with new children (same order as Kids)
WithKids(e, ks) ==
    CASE e.t \in {"Var", "Const", "None", "Hole"} -> e
      [] e.t \in NaryKinds -> [e EXCEPT !.c = ks]
      [] e.t \in BinKinds  -> [e EXCEPT !.a = ks[1], !.b = ks[2]]
      [] e.t \in UnKinds   -> [e EXCEPT !.a = ks[1]]
      [] e.t = "Cmp"       -> [e EXCEPT !.a = ks[1], !.b = ks[2]]
      [] e.t = "If"        -> [e EXCEPT !.i = ks[1], !.th = ks[2], !.el = ks[3]]
      [] e.t = "Call"      -> [e EXCEPT !.f = ks[1], !.c = SubSeq(ks, 2, Len(ks))]
      [] e.t = "CallKw"    ->
            [e EXCEPT !.f = ks[1], !.c = SubSeq(ks, 2, 1 + Len(e.c)),
                      !.kw = [i \in 1..Len(e.kw) |->
                                 [e.kw[i] EXCEPT !.e = ks[1 + Len(e.c) + i]]]]
      [] e.t = "Look"      -> [e EXCEPT !.a = ks[1]]
      [] e.t = "CSE"       -> [e EXCEPT !.a = ks[1]]
      [] e.t = "Subst"     -> [e EXCEPT !.a = ks[1], !.c = SubSeq(ks, 2, Len(ks))]
      [] e.t = "Deriv"     -> [e EXCEPT !.a = ks[1]]

RECURSIVE Size(_), Depth(_), SubExprs(_), NHoles(_), FillFirst(_, _)
SeqSum(s) == LET RECURSIVE Go(_) Go(i) == IF i > Len(s) THEN 0 ELSE s[i] + Go(i + 1) IN Go(1)
SeqMax(s) == LET RECURSIVE Go(_) Go(i) == IF i > Len(s) THEN 0
                                         ELSE LET r == Go(i + 1) IN IF s[i] > r THEN s[i] ELSE r
             IN Go(1)
Size(e)  == 1 + SeqSum([i \in 1..Len(Kids(e)) |-> Size(Kids(e)[i])])
Depth(e) == IF Len(Kids(e)) = 0 THEN 0
            ELSE 1 + SeqMax([i \in 1..Len(Kids(e)) |-> Depth(Kids(e)[i])])
SubExprs(e) == {e} \cup UNION {SubExprs(Kids(e)[i]) : i \in 1..Len(Kids(e))}

\* --- trees under construction: GenKit fills holes left to right -------
NHoles(e) == IF e.t = "Hole" THEN 1
             ELSE SeqSum([i \in 1..Len(Kids(e)) |-> NHoles(Kids(e)[i])])
FillFirst(e, s) ==
    IF e.t = "Hole" THEN s
    ELSE LET ks == Kids(e)
             RECURSIVE Go(_, _)
             Go(i, done) == IF i > Len(ks) THEN << >>
                            ELSE IF ~done /\ NHoles(ks[i]) > 0
                                 THEN << FillFirst(ks[i], s) >> \o Go(i + 1, TRUE)
                                 ELSE << ks[i] >> \o Go(i + 1, done)
         IN WithKids(e, Go(1, FALSE))

SeqToSet(s) == {s[i] : i \in 1..Len(s)}
=============================================================================
