---------------------------- MODULE C01_Catalogue ----------------------------
(***************************************************************************)
(* The catalogue of expression objects C01 is generated from.  A *family*  *)
(* is a sequence of object specifications that are close to each other:    *)
(* a base instance, one variant per field (that field changed), constants  *)
(* that are == but of another type (1 / 1.0 / True / 1+0j / Fraction(1) /  *)
(* numpy scalars), unequal values with *colliding hashes* (-1 / -2, str    *)
(* subclasses with a constant hash - the only inputs on which a field      *)
(* dropped from __eq__ alone is observable, because the generated __eq__   *)
(* first compares hashes), class twins with identical fields, kwargs       *)
(* mappings reordered / extended / given as a plain dict, constructor      *)
(* arguments that __post_init__ normalises, NaN nodes, and the user-class  *)
(* hierarchy templates of C01_Values.                                      *)
(* Pairs and triples are drawn inside a family.                            *)
(***************************************************************************)
EXTENDS C01_Values

Var(s) == Node("Variable", << Str(s) >>)
x == Var("x")  y == Var("y")  z == Var("z")  ff == Var("f")  gg == Var("g")
One  == KI(1)        OneF == KF(1, 1)      OneB == KB(TRUE)    OneC == KC(1, 0)
OneQ == KV("frac", 1, 1)   OneNI == KV("npint", 1, 1)   OneNF == KV("npflt", 1, 1)
Two  == KI(2)        Three == KI(3)
M1 == KI(-1)         M2 == KI(-2)          \* hash(-1) = hash(-2) in CPython
Half == KF(1, 2)     HalfQ == KV("frac", 1, 2)
Ch(cls, c) == Node(cls, << Tup(c) >>)
Bin(cls, a, b) == Node(cls, << a, b >>)
Un(cls, a) == Node(cls, << a >>)
CmpN(a, op, b) == Node("Comparison", << a, op, b >>)
IfN(c, t, e) == Node("If", << c, t, e >>)
CallN(f, ps) == Node("Call", << f, Tup(ps) >>)
CallKwN(f, ps, m) == Node("CallWithKwargs", << f, Tup(ps), m >>)
Imm(kv) == Map("imm", kv)
Dct(kv) == Map("dict", kv)
CseN(c, p, s) == Node("CommonSubexpression", << c, p, s >>)
EvalScope == Str("pymbolic_eval")
SubstN(c, vs, xs) == Node("Substitution", << c, Tup(vs), Tup(xs) >>)
DerivN(c, vs) == Node("Derivative", << c, Tup(vs) >>)
NaNN(d) == Node("NaN", << d >>)

FamNames == <<
    Var("x"), Var("y"), Un("DotWildcard", Str("x")), Un("StarWildcard", Str("x")),
    Un("UVar", Str("x")), Un("Variable", CStr("p")), Un("Variable", CStr("q")),
    Un("DotWildcard", CStr("p")) >>

FamNoField == <<
    Node("Wildcard", << >>), Node("FunctionSymbol", << >>), Node("Leaf", << >>),
    Node("AlgebraicLeaf", << >>), NaNN(NoneV), NaNN(Ty("float")), NaNN(Ty("np.float64")),
    Ch("Slice", << >>), Ch("Sum", << >>) >>

FamTagVar == <<
    Bin("UTagVar", Str("x"), One), Bin("UTagVar", Str("x"), OneF), Bin("UTagVar", Str("x"), Two),
    Bin("UTagVar", Str("y"), One), Bin("UTagVar", Str("x"), M1), Bin("UTagVar", Str("x"), M2),
    Bin("UTagVar", CStr("p"), One), Bin("UTagVar", CStr("q"), One),
    Un("UVar", Str("x")), Var("x") >>

FamChildrenOnly == <<
    Ch("Sum", << x, One >>), Ch("Product", << x, One >>), Ch("Min", << x, One >>),
    Ch("Max", << x, One >>), Ch("BitwiseOr", << x, One >>), Ch("BitwiseXor", << x, One >>),
    Ch("BitwiseAnd", << x, One >>), Ch("LogicalOr", << x, One >>),
    Ch("LogicalAnd", << x, One >>), Ch("Slice", << x, One >>) >>

FamSum == <<
    Ch("Sum", << x, One >>), Ch("Sum", << x, OneF >>), Ch("Sum", << x, OneB >>),
    Ch("Sum", << x, OneC >>), Ch("Sum", << x, OneQ >>), Ch("Sum", << x, OneNI >>),
    Ch("Sum", << x, OneNF >>), Ch("Sum", << x, Two >>), Ch("Sum", << One, x >>),
    Ch("Sum", << x, One, y >>), Ch("Sum", << x >>), Ch("Sum", << x, M1 >>), Ch("Sum", << x, M2 >>),
    Ch("Sum", << x, Ch("Sum", << y, M1 >>) >>), Ch("Sum", << x, Ch("Sum", << y, M2 >>) >>),
    Ch("Sum", << x, Half >>), Ch("Sum", << x, HalfQ >>), Ch("Sum", << x, KC(1, 1) >>) >>

FamQuot == <<
    Bin("Quotient", x, y), Bin("FloorDiv", x, y), Bin("Remainder", x, y), Bin("QuotientBase", x, y),
    Bin("Power", x, y), Bin("Quotient", y, x), Bin("Quotient", x, Two), Bin("Quotient", x, KF(2, 1)),
    Bin("Quotient", M1, y), Bin("Quotient", M2, y), Bin("Quotient", x, M1), Bin("Quotient", x, M2),
    Bin("FloorDiv", x, M1), Bin("FloorDiv", x, M2), Bin("Remainder", M1, x), Bin("Remainder", M2, x) >>

FamPowShift == <<
    Bin("Power", x, Two), Bin("Power", x, KF(2, 1)), Bin("Power", Two, x),
    Bin("Power", x, M1), Bin("Power", x, M2), Bin("Power", M1, x), Bin("Power", M2, x),
    Bin("LeftShift", x, Two), Bin("RightShift", x, Two), Bin("LeftShift", Two, x),
    Bin("LeftShift", x, M1), Bin("LeftShift", x, M2), Bin("RightShift", M1, x),
    Bin("RightShift", M2, x), Bin("Subscript", x, Two) >>

FamUnary == <<
    Un("BitwiseNot", x), Un("LogicalNot", x), Un("BitwiseNot", y), Un("BitwiseNot", One),
    Un("BitwiseNot", OneB), Un("BitwiseNot", M1), Un("BitwiseNot", M2),
    Un("LogicalNot", M1), Un("LogicalNot", M2), CseN(x, NoneV, EvalScope) >>

FamCmp == <<
    CmpN(x, Str("<"), y), CmpN(x, Str("<="), y), CmpN(x, Str("lt"), y), CmpN(y, Str("<"), x),
    CmpN(x, Str("<"), One), CmpN(x, Str("<"), OneF), CmpN(M1, Str("<"), y), CmpN(M2, Str("<"), y),
    CmpN(x, Str("<"), M1), CmpN(x, Str("<"), M2), CmpN(x, Str("=="), y), CmpN(x, Str("eq"), y),
    CmpN(x, Str("!="), y), CmpN(x, Str(">"), y), CmpN(x, Str(">="), y), CmpN(x, Str("ge"), y) >>

FamIf == <<
    IfN(x, y, z), IfN(y, y, z), IfN(x, x, z), IfN(x, y, x), IfN(M1, y, z), IfN(M2, y, z),
    IfN(x, M1, z), IfN(x, M2, z), IfN(x, y, M1), IfN(x, y, M2), IfN(x, One, z), IfN(x, OneB, z) >>

FamCall == <<
    CallN(ff, << x >>), CallN(gg, << x >>), CallN(ff, << y >>), CallN(ff, << x, y >>),
    CallN(ff, << >>), CallN(ff, << One >>), CallN(ff, << OneF >>), CallN(ff, << M1 >>),
    CallN(ff, << M2 >>), CallN(M1, << x >>), CallN(M2, << x >>),
    CallKwN(ff, << x >>, Imm(<< >>)), Bin("Subscript", ff, Tup(<< x >>)) >>

A1B2 == << KwE("a", One), KwE("b", Two) >>
FamCallKw == <<
    CallKwN(ff, << x >>, Imm(A1B2)),
    CallKwN(ff, << x >>, Imm(<< KwE("b", Two), KwE("a", One) >>)),
    CallKwN(ff, << x >>, Dct(A1B2)),
    CallKwN(ff, << x >>, Dct(<< KwE("b", Two), KwE("a", One) >>)),
    CallKwN(ff, << x >>, Imm(A1B2 \o << KwE("c", Three) >>)),
    CallKwN(ff, << x >>, Imm(<< KwE("a", One) >>)),
    CallKwN(ff, << x >>, Imm(<< KwE("a", OneF), KwE("b", Two) >>)),
    CallKwN(ff, << x >>, Imm(<< KwE("a", One), KwE("b", Three) >>)),
    CallKwN(ff, << x >>, Imm(<< KwE("a", One), KwE("c", Two) >>)),
    CallKwN(ff, << x >>, Imm(<< KwE("a", M1) >>)),
    CallKwN(ff, << x >>, Imm(<< KwE("a", M2) >>)),
    CallKwN(ff, << x >>, Dct(<< KwE("a", M2) >>)),
    CallKwN(gg, << x >>, Imm(A1B2)),
    CallKwN(ff, << y >>, Imm(A1B2)),
    CallKwN(ff, << M1 >>, Imm(A1B2)),
    CallKwN(ff, << M2 >>, Imm(A1B2)),
    \* round 5: the same keyword arguments handed over in other forms of Mapping
    CallKwN(ff, << x >>, Map("proxy", A1B2)),
    CallKwN(ff, << x >>, Map("umap", << KwE("b", Two), KwE("a", One) >>)) >>

(***************************************************************************)
(* Round 5: pairs for the sweep "forms".  The first object is built with   *)
(* every mapping in it handed over in a form TLC chooses (C01_Values!      *)
(* MapForms), the second from the canonical form: same contents, other     *)
(* insertion order, ==-but-other-type value, one value different, values   *)
(* with colliding hashes, the EMPTY mapping (falsy), nodes as values, the   *)
(* call nested in another node.                                            *)
(***************************************************************************)
KwAB == CallKwN(ff, << x >>, Imm(A1B2))
KwNodes == CallKwN(ff, << x >>, Imm(<< KwE("a", x), KwE("b", Ch("Sum", << x, y >>)) >>))
FormPairs == {
    << KwAB, KwAB >>,
    << KwAB, CallKwN(ff, << x >>, Imm(<< KwE("b", Two), KwE("a", One) >>)) >>,
    << KwAB, CallKwN(ff, << x >>, Imm(<< KwE("a", OneF), KwE("b", Two) >>)) >>,
    << KwAB, CallKwN(ff, << x >>, Imm(<< KwE("a", One), KwE("b", Three) >>)) >>,
    << CallKwN(ff, << x >>, Imm(<< KwE("a", M1) >>)), CallKwN(ff, << x >>, Imm(<< KwE("a", M2) >>)) >>,
    << CallKwN(ff, << x >>, Imm(<< >>)), CallKwN(ff, << x >>, Imm(<< >>)) >>,
    << KwNodes, KwNodes >>,
    << Ch("Sum", << y, KwAB >>), Ch("Sum", << y, KwAB >>) >> }
FormPairsQuick == {
    << KwAB, KwAB >>,
    << KwAB, CallKwN(ff, << x >>, Imm(<< KwE("a", One), KwE("b", Three) >>)) >>,
    << CallKwN(ff, << x >>, Imm(<< KwE("a", M1) >>)), CallKwN(ff, << x >>, Imm(<< KwE("a", M2) >>)) >>,
    << CallKwN(ff, << x >>, Imm(<< >>)), CallKwN(ff, << x >>, Imm(<< >>)) >>,
    << Ch("Sum", << y, KwNodes >>), Ch("Sum", << y, KwNodes >>) >> }
FormSmallPairs == { << KwAB, KwAB >>, << CallKwN(ff, << x >>, Imm(<< >>)), CallKwN(ff, << x >>, Imm(<< >>)) >> }

FamSubLook == <<
    Bin("Subscript", x, One), Bin("Subscript", x, OneF), Bin("Subscript", y, One),
    Bin("Subscript", x, Tup(<< One, Two >>)), Bin("Subscript", x, Tup(<< One, KF(2, 1) >>)),
    Bin("Subscript", x, M1), Bin("Subscript", x, M2), Bin("Subscript", M1, x), Bin("Subscript", M2, x),
    Bin("Lookup", x, Str("a")), Bin("Lookup", x, Str("b")), Bin("Lookup", y, Str("a")),
    Bin("Lookup", x, CStr("p")), Bin("Lookup", x, CStr("q")),
    Bin("Lookup", M1, Str("a")), Bin("Lookup", M2, Str("a")) >>

FamCse == <<
    CseN(x, NoneV, EvalScope), CseN(x, NoneV, NoneV), CseN(x, Str("p"), EvalScope),
    CseN(x, Str("q"), EvalScope), CseN(x, NoneV, Str("pymbolic_expr")),
    CseN(x, NoneV, Str("pymbolic_global")), CseN(y, NoneV, EvalScope),
    CseN(M1, NoneV, EvalScope), CseN(M2, NoneV, EvalScope),
    CseN(x, CStr("cp"), EvalScope), CseN(x, CStr("cq"), EvalScope),
    CseN(x, NoneV, CStr("s1")), CseN(x, NoneV, CStr("s2")), CseN(x, Str("p"), Str("pymbolic_expr")) >>

FamSubstDeriv == <<
    SubstN(x, << Str("x") >>, << One >>), SubstN(x, << Str("y") >>, << One >>),
    SubstN(x, << Str("x") >>, << Two >>), SubstN(x, << Str("x") >>, << OneF >>),
    SubstN(y, << Str("x") >>, << One >>), SubstN(x, << Str("x") >>, << M1 >>),
    SubstN(x, << Str("x") >>, << M2 >>), SubstN(x, << CStr("p") >>, << One >>),
    SubstN(x, << CStr("q") >>, << One >>), SubstN(M1, << Str("x") >>, << One >>),
    SubstN(M2, << Str("x") >>, << One >>),
    DerivN(x, << Str("x") >>), DerivN(x, << Str("y") >>), DerivN(y, << Str("x") >>),
    DerivN(x, << Str("x"), Str("y") >>), DerivN(x, << CStr("p") >>), DerivN(x, << CStr("q") >>),
    DerivN(M1, << Str("x") >>), DerivN(M2, << Str("x") >>) >>

FamUser2 == <<
    Bin("URoot", One, Two), Bin("URoot", OneF, Two), Bin("URoot", One, Three),
    Bin("URoot", M1, Two), Bin("URoot", M2, Two), Bin("URoot", One, M1), Bin("URoot", One, M2),
    Bin("UPlain", One, Two), Bin("UPlain", One, Three), Bin("UPlain", One, M1), Bin("UPlain", One, M2),
    Bin("ULeg", One, Two), Bin("ULeg", One, Three), Bin("ULeg", OneB, Two),
    Bin("ULeg", One, M1), Bin("ULeg", One, M2), Bin("ULeg", M1, Two), Bin("ULeg", M2, Two),
    \* a decorated user class with a hand-written __init__ (expr_dataclass(init=False))
    Bin("UInit", One, Two), Bin("UInit", OneF, Two), Bin("UInit", One, Three), Bin("UInit", One, M1) >>

U3(cls, a, b, c) == Node(cls, << a, b, c >>)
FamUser3 == <<
    U3("UChild", One, Two, Three), U3("UChild", One, Two, KI(4)), U3("UChild", One, Two, KF(3, 1)),
    U3("UChild", One, Two, M1), U3("UChild", One, Two, M2), U3("UChild", KI(0), Two, Three),
    U3("UChild", M1, Two, Three), U3("UChild", M2, Two, Three),
    U3("ULegChild", One, Two, Three), U3("ULegChild", One, Two, KI(4)),
    U3("ULegChild", One, Two, KF(3, 1)), U3("ULegChild", One, Two, M1), U3("ULegChild", One, Two, M2),
    U3("ULegChild", KI(0), Two, Three), U3("ULegChild", M1, Two, Three), U3("ULegChild", M2, Two, Three),
    Bin("URoot", One, Two) >>

FamNested == <<
    Ch("Sum", << Ch("Product", << x, Two >>), y >>), Ch("Sum", << Ch("Product", << x, KF(2, 1) >>), y >>),
    Ch("Sum", << Ch("Product", << x, Three >>), y >>), Ch("Sum", << Bin("Quotient", x, Two), y >>),
    Ch("Sum", << Bin("FloorDiv", x, Two), y >>),
    Bin("URoot", x, U3("UChild", x, y, M1)), Bin("URoot", x, U3("UChild", x, y, M2)),
    Bin("URoot", x, U3("ULegChild", x, y, M1)), Bin("URoot", x, U3("ULegChild", x, y, M2)),
    Bin("ULeg", x, Bin("ULeg", y, M1)), Bin("ULeg", x, Bin("ULeg", y, M2)),
    Ch("Sum", << x, Bin("ULeg", y, One) >>), Ch("Sum", << x, Bin("ULeg", y, OneF) >>) >>

(***************************************************************************)
(* Round 2: three-level hierarchies (C01_Values!ParentOf).                 *)
(***************************************************************************)
U4(cls, a, b, c, d) == Node(cls, << a, b, c, d >>)
MVV(s) == Un("MultiVectorVariable", Str(s))
FamHier == <<
    MVV("x"), MVV("y"), Var("x"),
    Bin("UMVTag", Str("x"), One), Bin("UMVTag", Str("x"), OneF), Bin("UMVTag", Str("x"), Two),
    Bin("UMVTag", Str("x"), M1), Bin("UMVTag", Str("x"), M2), Bin("UMVTag", Str("y"), One) >>
FamHierU == <<
    U3("ULegGrand", One, Two, Three), U3("ULegGrand", One, Two, KF(3, 1)), U3("ULegGrand", One, Two, KI(4)),
    U3("ULegGrand", One, Two, M1), U3("ULegGrand", One, Two, M2), U3("ULegGrand", M1, Two, Three),
    U3("ULegGrand", M2, Two, Three),
    U3("ULegChildPlain", One, Two, Three), U3("ULegChildPlain", One, Two, M1), U3("ULegChildPlain", One, Two, M2),
    Bin("UPlain2", One, Two), Bin("UPlain2", One, M1), Bin("UPlain2", One, M2) >>
FamHierD == <<
    U4("ULegGrandD", One, Two, Three, KI(4)), U4("ULegGrandD", One, Two, Three, KF(4, 1)),
    U4("ULegGrandD", One, Two, Three, M1), U4("ULegGrandD", One, Two, Three, M2),
    U4("ULegGrandD", One, Two, M1, KI(4)), U4("ULegGrandD", One, Two, M2, KI(4)) >>

\* (instances of the ancestors ..., two instances of the leaf class): the leaf instances
\* differ in the argument the leaf class adds / differ there with colliding hashes /
\* are ==.  The sweep "hier" runs every order of first use over them.
HierTuples == {
    << Bin("UPlain", One, Two), U3("ULegGrand", One, Two, Three), U3("ULegGrand", One, Two, KI(4)) >>,
    << Bin("UPlain", One, Two), U3("ULegGrand", One, Two, M1), U3("ULegGrand", One, Two, M2) >>,
    << Bin("UPlain", One, Two), U3("ULegGrand", One, Two, Three), U3("ULegGrand", One, Two, KF(3, 1)) >>,
    << Bin("URoot", One, Two), U3("ULegGrand", One, Two, Three), U3("ULegGrand", One, Two, KI(4)) >>,
    << MVV("x"), Bin("UMVTag", Str("x"), One), Bin("UMVTag", Str("x"), Two) >>,
    << MVV("x"), Bin("UMVTag", Str("x"), M1), Bin("UMVTag", Str("x"), M2) >>,
    << MVV("x"), Bin("UMVTag", Str("x"), One), Bin("UMVTag", Str("x"), OneF) >>,
    << Var("x"), Bin("UMVTag", Str("x"), One), Bin("UMVTag", Str("x"), Two) >>,
    << U3("UChild", One, Two, Three), U4("ULegGrandD", One, Two, Three, KI(4)), U4("ULegGrandD", One, Two, Three, KI(5)) >>,
    << U3("UChild", One, Two, Three), U4("ULegGrandD", One, Two, Three, M1), U4("ULegGrandD", One, Two, Three, M2) >>,
    << U3("ULegChild", One, Two, Three), U3("ULegChildPlain", One, Two, Three), U3("ULegChildPlain", One, Two, KI(4)) >>,
    << U3("ULegChild", One, Two, Three), U3("ULegChildPlain", One, Two, M1), U3("ULegChildPlain", One, Two, M2) >>,
    << Bin("UPlain", One, Two), Bin("UPlain2", One, Two), Bin("UPlain2", One, Three) >>,
    << Bin("UPlain", One, M1), Bin("UPlain2", One, M1), Bin("UPlain2", One, M2) >>,
    \* siblings below one decorated class: an undecorated one and a legacy one
    << Bin("UPlain", One, Two), U3("ULegChild", One, Two, Three), U3("ULegChild", One, Two, KI(4)) >>,
    << Bin("UPlain", One, Two), U3("ULegChild", One, Two, M1), U3("ULegChild", One, Two, M2) >>,
    << Un("UVar", Str("x")), Bin("UMVTag", Str("x"), One), Bin("UMVTag", Str("x"), Two) >>,
    << U3("ULegChild", One, Two, Three), Bin("UPlain", One, Two), Bin("UPlain", One, Three) >>,
    \* the whole chain: root, middle, two leaves
    << Bin("URoot", One, Two), Bin("UPlain", One, Two), U3("ULegGrand", One, Two, Three), U3("ULegGrand", One, Two, KI(4)) >>,
    << Var("x"), MVV("x"), Bin("UMVTag", Str("x"), One), Bin("UMVTag", Str("x"), Two) >> }
\* quick tier: per hierarchy shape the "differ" and the "colliding" variant
HierTuplesQuick == {
    << Bin("UPlain", One, Two), U3("ULegGrand", One, Two, Three), U3("ULegGrand", One, Two, KI(4)) >>,
    << Bin("UPlain", One, Two), U3("ULegGrand", One, Two, M1), U3("ULegGrand", One, Two, M2) >>,
    << MVV("x"), Bin("UMVTag", Str("x"), One), Bin("UMVTag", Str("x"), Two) >>,
    << MVV("x"), Bin("UMVTag", Str("x"), M1), Bin("UMVTag", Str("x"), M2) >>,
    << U3("UChild", One, Two, Three), U4("ULegGrandD", One, Two, Three, KI(4)), U4("ULegGrandD", One, Two, Three, KI(5)) >>,
    << U3("ULegChild", One, Two, Three), U3("ULegChildPlain", One, Two, Three), U3("ULegChildPlain", One, Two, KI(4)) >>,
    << U3("ULegChild", One, Two, Three), U3("ULegChildPlain", One, Two, M1), U3("ULegChildPlain", One, Two, M2) >>,
    << Bin("UPlain", One, M1), Bin("UPlain2", One, M1), Bin("UPlain2", One, M2) >>,
    << Bin("UPlain", One, Two), U3("ULegChild", One, Two, Three), U3("ULegChild", One, Two, KI(4)) >>,
    << Bin("UPlain", One, Two), U3("ULegChild", One, Two, M1), U3("ULegChild", One, Two, M2) >>,
    << Un("UVar", Str("x")), Bin("UMVTag", Str("x"), One), Bin("UMVTag", Str("x"), Two) >>,
    << U3("ULegChild", One, Two, Three), Bin("UPlain", One, Two), Bin("UPlain", One, Three) >> }
HierSmall == {
    << Bin("UPlain", One, Two), U3("ULegGrand", One, Two, Three), U3("ULegGrand", One, Two, KI(4)) >>,
    << MVV("x"), Bin("UMVTag", Str("x"), M1), Bin("UMVTag", Str("x"), M2) >> }

(***************************************************************************)
(* Round 3: leaf constants that are not equal to themselves.  N1, N2 are   *)
(* two float NaN OBJECTS (the same name in two specifications of a history *)
(* is one and the same Python float).  Directly in a scalar field of every *)
(* arity / kind of class (built in, user dataclass, plain child, legacy    *)
(* child, pure legacy), in a tuple field, below single-child nodes and     *)
(* below a tuple field.  The laws they are there for: an object is ==      *)
(* itself and not != itself whatever it holds, finds itself as a dict key, *)
(* its copies do too.                                                      *)
(***************************************************************************)
N1 == KN(1)   N2 == KN(2)
PowN1 == Bin("Power", x, N1)
FamNaNF == <<
    PowN1, Bin("Power", x, N2), Bin("Power", N1, x), Bin("Subscript", x, N1),
    CmpN(x, Str("<"), N1), IfN(x, N1, z), CseN(N1, NoneV, EvalScope),
    Ch("Sum", << x, N1 >>), Ch("Sum", << x, N2 >>), CallN(ff, << N1 >>),
    Un("LogicalNot", PowN1), Ch("Sum", << y, PowN1 >>) >>
FamNaNU == <<
    Bin("URoot", x, N1), Bin("URoot", x, N2), Bin("UPlain", x, N1), U3("UChild", x, N1, y),
    U3("ULegChild", x, y, N1), U3("ULegChild", x, N1, y), Bin("ULeg", x, N1), Bin("ULeg", x, N2),
    Bin("URoot", x, Bin("URoot", x, N1)) >>
NaNSpecs == { FamNaNF[k] : k \in 1..Len(FamNaNF) } \cup { FamNaNU[k] : k \in 1..Len(FamNaNU) }
\* quick tier: one per position kind
NaNSpecsQuick == { PowN1, Bin("Power", N1, x), CmpN(x, Str("<"), N1), Ch("Sum", << x, N1 >>),
                   Un("LogicalNot", PowN1), Ch("Sum", << y, PowN1 >>),
                   Bin("URoot", x, N1), Bin("UPlain", x, N1), U3("ULegChild", x, y, N1),
                   U3("ULegChild", x, N1, y), Bin("ULeg", x, N1) }

(***************************************************************************)
(* Round 4: user dataclass nodes with fields that are not positional       *)
(* constructor parameters (C01_Values!NonPositional): keyword-only with a  *)
(* default between two positional fields (UKw), keyword-only without a     *)
(* default below a built-in class whose own fields have defaults (UKwCse), *)
(* field(init=False) filled in by __post_init__ (UInitF).  Per class: a    *)
(* base instance, ==-but-other-type / different / colliding values in THAT *)
(* field only, the field at its default, one variant per other field.      *)
(***************************************************************************)
Kw(u, t, v) == Node("UKw", << u, t, v >>)
KwCse(c, p, s, tg) == Node("UKwCse", << c, p, s, tg >>)
InitF(u, lab, v) == Node("UInitF", << u, lab, v >>)
Zero == KI(0)
FamKw == <<
    Kw(One, Two, Three), Kw(One, KF(2, 1), Three), Kw(One, KI(4), Three), Kw(One, Zero, Three),
    Kw(One, M1, Three), Kw(One, M2, Three), Kw(x, Str("a"), y), Kw(x, Str("b"), y),
    Kw(One, Two, Zero), Kw(Two, Two, Three) >>
FamKwCse == <<
    KwCse(x, Str("p"), EvalScope, One), KwCse(x, Str("p"), EvalScope, OneF), KwCse(x, Str("p"), EvalScope, Two),
    KwCse(x, Str("p"), EvalScope, M1), KwCse(x, Str("p"), EvalScope, M2),
    KwCse(x, Str("p"), NoneV, One), KwCse(x, NoneV, EvalScope, One), KwCse(y, Str("p"), EvalScope, One),
    KwCse(x, Str("p"), EvalScope, Str("a")), KwCse(x, Str("p"), EvalScope, Str("b")),
    CseN(x, Str("p"), EvalScope) >>
FamInitF == <<
    InitF(One, Two, Three), InitF(One, KF(2, 1), Three), InitF(One, KI(4), Three), InitF(One, Zero, Three),
    InitF(One, M1, Three), InitF(One, M2, Three), InitF(Two, Two, Three), InitF(One, Two, Zero) >>
\* single objects for the self sweep of the quick tier (copies of them, == / hash / dict
\* look-up between original and copy)
KwSpecsQuick == { Kw(One, Two, Three), Kw(x, Str("a"), y), Kw(One, Zero, Three),
                  KwCse(x, Str("p"), EvalScope, One), KwCse(x, Str("p"), NoneV, Str("a")),
                  InitF(One, Two, Three), InitF(One, Zero, Three) }
\* for the pure model check and the negative control
KwSmallPairs == { << Kw(One, Two, Three), Kw(One, KI(4), Three) >>,
                  << KwCse(x, Str("p"), EvalScope, M1), KwCse(x, Str("p"), EvalScope, M2) >>,
                  << InitF(One, Two, Three), InitF(One, KF(2, 1), Three) >> }

(***************************************************************************)
(* Round 6: object lifetimes (sweep "heap").  A tuple (a, b, c): a and its *)
(* separately built equal b live first; c is built after one of them has   *)
(* died and - CPython hands the block freed last to the next object of the *)
(* same size - where the dead one was.  c is of a's class and differs from *)
(* a in one field: by a value whose hash collides (-1 / -2: the only kind  *)
(* of difference a comparison that trusts equal hashes for a moment can    *)
(* get wrong), plainly, or not at all (== a, True is the right answer).    *)
(* Per kind of class: directly below Expression (init-args protocol),      *)
(* legacy child of a decorated class (the added argument / a field of the  *)
(* parent differs), legacy below an undecorated class, below a decorated   *)
(* child, plain below a legacy child, legacy below Variable's built-in     *)
(* undecorated child; decorated root / child, plain child, built in;       *)
(* nested legacy nodes.                                                    *)
(***************************************************************************)
HeapPairsQuick == {
    << Bin("ULeg", x, M1), Bin("ULeg", x, M2) >>,
    << Bin("ULeg", One, Two), Bin("ULeg", One, Three) >>,
    << Bin("ULeg", One, Two), Bin("ULeg", OneF, Two) >>,
    << U3("ULegChild", One, Two, M1), U3("ULegChild", One, Two, M2) >>,
    << U3("ULegChild", M1, Two, Three), U3("ULegChild", M2, Two, Three) >>,
    << U3("ULegGrand", One, Two, M1), U3("ULegGrand", One, Two, M2) >>,
    << U4("ULegGrandD", One, Two, Three, M1), U4("ULegGrandD", One, Two, Three, M2) >>,
    << U3("ULegChildPlain", One, Two, M1), U3("ULegChildPlain", One, Two, M2) >>,
    << Bin("UMVTag", Str("x"), M1), Bin("UMVTag", Str("x"), M2) >>,
    << Bin("URoot", One, M1), Bin("URoot", One, M2) >>,
    << Bin("UPlain", One, M1), Bin("UPlain", One, M2) >>,
    << Bin("UTagVar", Str("x"), M1), Bin("UTagVar", Str("x"), M2) >>,
    << Ch("Sum", << x, M1 >>), Ch("Sum", << x, M2 >>) >>,
    << Bin("ULeg", x, Bin("ULeg", y, M1)), Bin("ULeg", x, Bin("ULeg", y, M2)) >> }
HeapSmallPairs == {
    << Bin("ULeg", x, M1), Bin("ULeg", x, M2) >>,
    << U3("ULegChild", One, Two, M1), U3("ULegChild", One, Two, M2) >>,
    << Bin("URoot", One, M1), Bin("URoot", One, M2) >> }
HeapDeepPairs == HeapSmallPairs \cup
    { << U4("ULegGrandD", One, Two, Three, M1), U4("ULegGrandD", One, Two, Three, M2) >> }
HeapTuples(P) == { << p[1], p[1], p[2] >> : p \in P }
\* b is == a without being its twin (1 / 1.0 / True), c == both or neither
HeapTuplesOther == {
    << Bin("ULeg", One, Two), Bin("ULeg", OneF, Two), Bin("ULeg", OneB, Two) >>,
    << Bin("ULeg", One, M1), Bin("ULeg", OneF, M1), Bin("ULeg", One, M2) >>,
    << U3("ULegChild", One, Two, M1), U3("ULegChild", One, KF(2, 1), M1), U3("ULegChild", One, Two, M2) >>,
    << Ch("Sum", << x, M1 >>), Ch("Sum", << x, KF(-1, 1) >>), Ch("Sum", << x, M2 >>) >> }

\* constructor arguments the class refuses
FamCtorErr == << CmpN(x, Str("<<"), y), CmpN(x, Str("<"), y) >>

Families == << FamNames, FamNoField, FamTagVar, FamChildrenOnly, FamSum, FamQuot, FamPowShift,
               FamUnary, FamCmp, FamIf, FamCall, FamCallKw, FamSubLook, FamCse, FamSubstDeriv,
               FamUser2, FamUser3, FamNested, FamCtorErr, FamHier, FamHierU, FamHierD,
               FamNaNF, FamNaNU, FamKw, FamKwCse, FamInitF >>

AllSpecs == UNION { { Families[i][k] : k \in 1..Len(Families[i]) } : i \in 1..Len(Families) }

\* a few close pairs per family for the deep histories: (base, ==-twin), (base, one-field
\* variant), (class twins), (colliding pair)
RepPairs == {
    << Ch("Sum", << x, One >>), Ch("Sum", << x, OneF >>) >>,
    << Ch("Sum", << x, M1 >>), Ch("Sum", << x, M2 >>) >>,
    << Ch("Sum", << x, One >>), Ch("Product", << x, One >>) >>,
    << Bin("Lookup", x, CStr("p")), Bin("Lookup", x, CStr("q")) >>,
    << CmpN(x, Str("lt"), y), CmpN(x, Str("<"), y) >>,
    << CmpN(x, Str("<"), y), CmpN(x, Str("<="), y) >>,
    << CallKwN(ff, << x >>, Dct(A1B2)), CallKwN(ff, << x >>, Imm(<< KwE("b", Two), KwE("a", One) >>)) >>,
    << CallKwN(ff, << x >>, Imm(<< KwE("a", M1) >>)), CallKwN(ff, << x >>, Dct(<< KwE("a", M2) >>)) >>,
    << CseN(x, NoneV, NoneV), CseN(x, Str("p"), EvalScope) >>,
    << NaNN(NoneV), NaNN(NoneV) >>,
    << NaNN(Ty("float")), NaNN(NoneV) >>,
    << Var("x"), Un("UVar", Str("x")) >>,
    << Bin("UTagVar", Str("x"), M1), Bin("UTagVar", Str("x"), M2) >>,
    << Bin("URoot", One, Two), Bin("UPlain", OneF, Two) >>,
    << Bin("UPlain", One, M1), Bin("UPlain", One, M2) >>,
    << Bin("ULeg", One, Two), Bin("ULeg", OneB, Two) >>,
    << Bin("ULeg", One, M1), Bin("ULeg", One, M2) >>,
    << U3("UChild", One, Two, Three), U3("UChild", One, Two, KF(3, 1)) >>,
    << U3("UChild", One, Two, M1), U3("UChild", One, Two, M2) >>,
    << U3("ULegChild", One, Two, Three), U3("ULegChild", One, Two, KF(3, 1)) >>,
    << U3("ULegChild", One, Two, M1), U3("ULegChild", One, Two, M2) >>,
    << U3("ULegChild", One, Two, Three), U3("UChild", One, Two, Three) >>,
    << IfN(x, M1, z), IfN(x, M2, z) >>,
    << Bin("Power", x, Two), Bin("Power", x, KF(2, 1)) >>,
    << Kw(One, Two, Three), Kw(One, KI(4), Three) >>,
    << KwCse(x, Str("p"), EvalScope, One), KwCse(x, Str("p"), EvalScope, Two) >>,
    << KwCse(x, Str("p"), EvalScope, One), KwCse(x, Str("p"), NoneV, OneF) >>,
    << InitF(One, Two, Three), InitF(One, KI(4), Three) >>,
    << PowN1, PowN1 >>,
    << Ch("Sum", << x, N1 >>), Ch("Sum", << x, N1 >>) >>,
    << Bin("URoot", x, N1), Bin("URoot", x, N2) >>,
    << U3("ULegChild", x, y, N1), U3("ULegChild", x, y, N1) >> }

RepPairsQuick == {
    << Ch("Sum", << x, One >>), Ch("Sum", << x, OneF >>) >>,
    << Ch("Sum", << x, M1 >>), Ch("Sum", << x, M2 >>) >>,
    << Bin("Lookup", x, CStr("p")), Bin("Lookup", x, CStr("q")) >>,
    << CmpN(x, Str("lt"), y), CmpN(x, Str("<"), y) >>,
    << CallKwN(ff, << x >>, Dct(A1B2)), CallKwN(ff, << x >>, Imm(<< KwE("b", Two), KwE("a", One) >>)) >>,
    << NaNN(NoneV), NaNN(NoneV) >>,
    << Var("x"), Un("UVar", Str("x")) >>,
    << Bin("UTagVar", Str("x"), M1), Bin("UTagVar", Str("x"), M2) >>,
    << Bin("URoot", One, Two), Bin("UPlain", OneF, Two) >>,
    << Bin("UPlain", One, M1), Bin("UPlain", One, M2) >>,
    << Bin("ULeg", One, M1), Bin("ULeg", One, M2) >>,
    << U3("UChild", One, Two, M1), U3("UChild", One, Two, M2) >>,
    << U3("ULegChild", One, Two, Three), U3("ULegChild", One, Two, KF(3, 1)) >>,
    << U3("ULegChild", One, Two, M1), U3("ULegChild", One, Two, M2) >>,
    << KwCse(x, Str("p"), EvalScope, One), KwCse(x, Str("p"), EvalScope, Two) >>,
    << InitF(One, Two, Three), InitF(One, KI(4), Three) >>,
    << PowN1, Ch("Sum", << x, N1 >>) >> }
RepTriplesQuick == {
    << Ch("Sum", << x, One >>), Ch("Sum", << x, OneF >>), Ch("Sum", << x, OneB >>) >>,
    << Bin("URoot", One, Two), Bin("UPlain", One, Two), Bin("ULeg", One, Two) >>,
    << NaNN(NoneV), NaNN(NoneV), NaNN(Ty("float")) >> }

\* triples for transitivity / three-way dict use
RepTriples == {
    << Ch("Sum", << x, One >>), Ch("Sum", << x, OneF >>), Ch("Sum", << x, OneB >>) >>,
    << Ch("Sum", << x, OneC >>), Ch("Sum", << x, OneQ >>), Ch("Sum", << x, OneNF >>) >>,
    << Ch("Sum", << x, M1 >>), Ch("Sum", << x, M2 >>), Ch("Sum", << x, KF(-1, 1) >>) >>,
    << Bin("URoot", One, Two), Bin("UPlain", One, Two), Bin("ULeg", One, Two) >>,
    << Bin("ULeg", One, Two), Bin("ULeg", OneF, Two), Bin("ULeg", OneB, Two) >>,
    << U3("ULegChild", One, Two, M1), U3("ULegChild", One, Two, M2), U3("ULegChild", One, Two, KF(-2, 1)) >>,
    << NaNN(NoneV), NaNN(NoneV), NaNN(Ty("float")) >>,
    << CallKwN(ff, << x >>, Imm(A1B2)), CallKwN(ff, << x >>, Dct(<< KwE("b", Two), KwE("a", One) >>)),
       CallKwN(ff, << x >>, Imm(<< KwE("a", OneF), KwE("b", Two) >>)) >> }

\* round 6, thorough tier: the representative pairs and every near pair of the user-class
\* families as (a, twin of a, c)
HeapFams == << FamUser2, FamUser3, FamTagVar, FamNested, FamHier, FamHierU, FamHierD >>
HeapPairs == HeapPairsQuick \cup RepPairs
             \cup UNION { UNION { { << HeapFams[i][a], HeapFams[i][b] >> :
                                      b \in { b2 \in a..Len(HeapFams[i]) : a = 1 \/ b2 <= a + 2 } }
                                  : a \in 1..Len(HeapFams[i]) }
                         : i \in 1..Len(HeapFams) }
=============================================================================
