CONSTANT KeyMode = "value"
CONSTANT MaxOps = 5
CONSTANT NPool = 5
CONSTANT Bug = "none"
INIT Init
NEXT Next
INVARIANT EveryDerivativeIsOfItsOwnInput
INVARIANT CacheCoherent
INVARIANT Emit
CHECK_DEADLOCK FALSE
