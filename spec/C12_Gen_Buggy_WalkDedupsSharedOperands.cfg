CONSTANTS
  Tier = "neg"
  Mode = "exh"
  Bug = "WalkDedupsSharedOperands"
INIT Init
NEXT Next
INVARIANT TagModelMeetsProperty
CHECK_DEADLOCK FALSE
