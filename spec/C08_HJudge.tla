------------------------------ MODULE C08_HJudge ------------------------------
(***************************************************************************)
(* Stage (3) for the histories of C08_Hist: trace validation.  One record  *)
(*   [id, maps, hist, obs]                                                 *)
(*   maps   the contents the caller gave its dict objects (slot 1, 2, ..)  *)
(*   hist   the events: [op "call", d, kw, e, via] | [op "put", d, en]     *)
(*   obs    per event what the driver saw on the real objects:             *)
(*            res    call only: [r "ok", e tree] | [r "err", v] | [r "unser"]*)
(*            maps   the contents of EVERY dict object after the event     *)
(*                   ([r "ok", m << entries >>] per slot, or [r "unser"])  *)
(*            arg    call only: the expression argument after the call     *)
(*                   ([r "ok", e tree] | [r "unser"])                      *)
(* The judge steps the machine of C08_Hist (design "copy": own is the only *)
(* state) along the events; each event must be enabled in the state        *)
(* reached so far, and after each event                                    *)
(*   hist-value          the result satisfies the substitution lemma for   *)
(*                       own[d] ++ kw in every environment of the box      *)
(*   hist-raised         the call raised                                   *)
(*   hist-map-modified   some dict object does not hold what its owner put *)
(*                       into it (CallerMapsUnchanged)                     *)
(*   hist-arg-modified   the expression argument is not what was passed    *)
(* Verdicts are total: the walk continues after a failing clause, with the *)
(* owner's view of the dicts (so every later call is still judged against  *)
(* its own arguments).                                                     *)
(***************************************************************************)
EXTENDS C08_Env, Json, IOUtils
VARIABLES blk, off

Recs == ndJsonDeserialize(IOEnv.TRACE_FILE)
BS == 64
NB == (Len(Recs) + BS - 1) \div BS
Init == blk \in 0..(NB - 1) /\ off = 0
Next == off < BS - 1 /\ off' = off + 1 /\ UNCHANGED blk
Idx == blk * BS + off + 1

SetMin(S) == CHOOSE m \in S : \A o \in S : m <= o


Line(rec, k, clause, why, slot, env) ==
    PrintT(ToJson([id |-> rec.id, v |-> clause, dev |-> "none", call |-> k, why |-> why,
                   slot |-> slot, env |-> env]))

\* CallerMapsUnchanged after event k; a dict that does not hold what its owner put there is
\* reported at the event that made it so (not again at every later event that leaves it alone)
StillAsBefore(rec, k, s) ==
    k > 1 /\ rec.obs[k - 1].maps[s].r = "ok" /\ SameDict(rec.obs[k].maps[s].m, rec.obs[k - 1].maps[s].m)
MapsClause(rec, k, ob, own) ==
    \A s \in 1..Len(own) :
        IF ob.maps[s].r # "ok" THEN Line(rec, k, "SKIP", "unser", s, 0)
        ELSE SameDict(ob.maps[s].m, own[s]) \/ StillAsBefore(rec, k, s) \/
             Line(rec, k, "hist-map-modified",
                  IF Len(ob.maps[s].m) > Len(own[s]) THEN "entry-added"
                  ELSE IF Len(ob.maps[s].m) < Len(own[s]) THEN "entry-removed" ELSE "entry-changed",
                  s, 0)

CallClauses(rec, k, ev, ob, own) ==
    LET mine == IF ev.d = 0 THEN << >> ELSE own[ev.d]
        eff == mine \o ev.kw
        rhs == LemmaRhsTree(ev.e, eff)
    IN
    /\ MapsClause(rec, k, ob, own)
    /\ (ob.arg.r # "ok" \/ Norm(ob.arg.e) = Norm(ev.e) \/
        Line(rec, k, "hist-arg-modified", ev.e.t, ev.d, 0))
    /\ (ob.res.r # "err" \/ Line(rec, k, "hist-raised", ob.res.v.e, ev.d, 0))
    /\ (ob.res.r # "unser" \/ PrintT(ToJson([id |-> rec.id, v |-> "SKIP", n |-> Len(Envs)])))
    /\ (ob.res.r # "ok" \/
        LET l == Lower(ob.res.e)
            vv == [i \in 1..Len(Envs) |->
                     LET env1 == EnvOf(eff, Envs[i]) IN
                     JudgeVal(Eval(rhs, env1), Eval(l, Envs[i]), rhs, env1)]
            bad == { i \in 1..Len(Envs) : vv[i] \notin {"OK", "SKIP"} }
            skip == { i \in 1..Len(Envs) : vv[i] = "SKIP" }
        IN /\ (bad = {} \/ Line(rec, k, "hist-value", vv[SetMin(bad)], ev.d, SetMin(bad)))
           /\ (skip = {} \/ PrintT(ToJson([id |-> rec.id, v |-> "SKIP", n |-> Cardinality(skip)])))
           /\ (bad # {} \/ Norm(ob.res.e) = Norm(Subst(ev.e, eff)) \/
               Dev_CSEZeroFold(ev.e, eff) \/
               PrintT(ToJson([id |-> rec.id, v |-> "DRIFT", what |-> "hist-tree"]))))

Judge(rec) ==
    LET RECURSIVE Go(_, _)
        Go(k, own) ==
            IF k > Len(rec.hist) THEN TRUE
            ELSE LET ev == rec.hist[k] ob == rec.obs[k] IN
                 IF ev.op = "put"
                 THEN IF HasKey(own[ev.d], ev.en)      \* not a behaviour of the machine
                      THEN Line(rec, k, "SKIP", "put-not-enabled", ev.d, 0)
                      ELSE LET own1 == [own EXCEPT ![ev.d] = Append(@, ev.en)] IN
                           MapsClause(rec, k, ob, own1) /\ Go(k + 1, own1)
                 ELSE IF ~Fits(IF ev.d = 0 THEN << >> ELSE own[ev.d], ev.kw)
                      THEN Line(rec, k, "SKIP", "call-not-enabled", ev.d, 0)
                      ELSE CallClauses(rec, k, ev, ob, own) /\ Go(k + 1, own)
    IN Go(1, rec.maps)

Report == Idx <= Len(Recs) => Judge(Recs[Idx])
=============================================================================
