------------------------------- MODULE C06_Rand -------------------------------
(* Thorough tier for C06: random deep trees of the printable fragment with    *)
(* negative and non-integer constants (TLC simulation mode).                  *)
EXTENDS C06_Model, Json
VARIABLE tree

x == V("x")  y == V("y")  z == V("z")  ff == V("f")  tt == V("t")  oo == V("o")
H(d) == [t |-> "Hole", ty |-> "any", d |-> d]
FStr(s) == K([k |-> "fstr", s |-> s])
Leaves == { x, y, z, KI(2), KI(-1), KI(0), K(FltV(3, 2)), K(FltV(-3, 2)), K(FltV(1, 2)), K(BoolV(TRUE)),
            FStr("1e-05"), FStr("1e+20") }
Skels(d) ==
    LET n == H(d - 1) IN
    { N("Sum", << n, n >>), N("Sum", << n, n, n >>), N("Product", << n, n >>), N("Product", << n, n, n >>),
      B("Quotient", n, n), B("FloorDiv", n, n), B("Remainder", n, n), B("Power", n, n),
      B("LShift", n, n), B("RShift", n, n), U("BitNot", n), U("LogNot", n),
      N("BitOr", << n, n >>), N("BitXor", << n, n >>), N("BitAnd", << n, n >>),
      N("LogOr", << n, n >>), N("LogAnd", << n, n >>), Cmp(n, "<", n), Cmp(n, "==", n), Cmp(n, ">=", n),
      IfE(n, n, n), Call(ff, << n >>), Call(ff, << n, n >>), CallKw(ff, << n >>, << KwArg("k1", n) >>),
      B("Sub", tt, n), B("Sub", tt, N("Tup", << n, n >>)), B("Sub", tt, N("Slice", << n, n >>)),
      B("Sub", tt, N("Slice", << NoneE, n, n >>)), Look(n, "p"), Call(n, << x >>), B("Sub", n, y) }

RECURSIVE FirstHole(_)
FirstHole(e) ==
    IF e.t = "Hole" THEN e
    ELSE LET ks == Kids(e)
             RECURSIVE Go(_)
             Go(i) == IF i > Len(ks) THEN NoneE
                      ELSE LET r == FirstHole(ks[i]) IN IF r.t = "Hole" THEN r ELSE Go(i + 1)
         IN Go(1)
Init == tree = H(4)
Next == /\ NHoles(tree) > 0
        /\ LET h == FirstHole(tree)
               pool == IF h.d = 0 THEN Leaves
                       ELSE IF RandomElement(1..4) = 1 THEN Leaves ELSE Skels(h.d)
           IN tree' = FillFirst(tree, RandomElement(pool))
Complete == NHoles(tree) = 0
Emit == Complete => PrintT(ToJson([e |-> tree]))
=============================================================================
