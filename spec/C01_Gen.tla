------------------------------- MODULE C01_Gen -------------------------------
(***************************************************************************)
(* Stage (1) for C01.  TLC                                                 *)
(*  (a) enumerates object pairs / triples from the catalogue crossed with  *)
(*      operation histories (the state holds the history, so different     *)
(*      orders are different states),                                      *)
(*  (b) runs the C01_Objects model along every history with the A-layer's  *)
(*      prediction as the observation and checks the S/M-layer invariants  *)
(*      and action properties on it (A refines S/M, for the hash function  *)
(*      selected by HashMode; the Bug switches must be refuted),           *)
(*  (c) prints every maximal history as one JSON line for the driver.      *)
(*                                                                         *)
(* Sweep (constant) selects what Init offers:                              *)
(*   "pairs"  every unordered pair (incl. a separately built twin) inside  *)
(*            every family x every history of length PairDepth over the    *)
(*            pair alphabet                                                *)
(*   "near"   the same over the near pairs only (quick tier)               *)
(*   "deep"   representative pairs and triples x every history of length   *)
(*            DeepDepth over the full alphabet                             *)
(*   "small"  a small universe for the pure model check / negative         *)
(*            controls (no emission)                                       *)
(*   "sim"    any family pair / triple, full alphabet (for -simulate)      *)
(*   "hier"   three-level class hierarchies: instances of the ancestors    *)
(*            and two instances of the leaf class x every history of       *)
(*            length HierDepth over hash / == / dict put / dict get on     *)
(*            every object: every order of first use of the classes        *)
(*            ("hsmall": two of them, for model check and controls)        *)
(*   "xtwin"  every catalogue member and its twin, "xnear" the near pairs, *)
(*            "xdeep" representative pairs: one of the two objects arrives *)
(*            by unpickling from another interpreter process (arr says     *)
(*            how each object arrives), pair alphabet                      *)
(*   "self"   ONE object (quick: the NaN-carrying catalogue members; wide: *)
(*            every catalogue member) x every history of length SelfDepth  *)
(*            over the self alphabet: == / != of an object with ITSELF,    *)
(*            hash, dict put / get of itself, copies and mapper results    *)
(*            and the same on those ("selfn": the NaN-carrying members at  *)
(*            depth SelfDepth + 1; "ssmall": three of them, no emission;   *)
(*            "nsmall": two NaN twin pairs, full alphabet, thorough tier;  *)
(*            round 4: the quick tier adds KwSpecsQuick, objects of user   *)
(*            classes with keyword-only / init=False fields)               *)
(*   "ksmall" pairs of such objects differing in such a field only, full   *)
(*            alphabet (model check and negative control, no emission)     *)
(*   "forms"  round 5: FormPairs; the first object is built with its       *)
(*            mappings handed over in a FORM chosen by TLC (every form but *)
(*            the canonical one), the second from the canonical form; x    *)
(*            every history of length FormDepth over the form alphabet     *)
(*            (the caller mutates what it passed, hash, == both ways, dict *)
(*            put of the one / look-up with the other); "fsmall": two such *)
(*            pairs, for the model check and the negative controls.  The   *)
(*            full alphabet (deep, small, sim) has Mutate(1) when object 1 *)
(*            was built from a live container                              *)
(*   "heap"   round 6: object LIFETIMES.  HeapTuples (a, b, c): a and b are *)
(*            built first (b a separately built equal of a); then every    *)
(*            history with HeapDepth events other than New over hash / ==  *)
(*            / dict put / dict get on the live objects, Drop(i) (the      *)
(*            lifetime of a live object ends; its address is free) and     *)
(*            New-again (c - same class as a, one field different: plainly *)
(*            or with a colliding hash (-1 / -2), or == a - is built after *)
(*            a Drop and, the model's allocator says, at the dead object's *)
(*            address), ending with a use of the new object.  "heapd": the *)
(*            same one event longer over dict put of a / look-ups / Drop / *)
(*            New-again; "heapx" (thorough): four of the tuples, one event *)
(*            longer over the whole alphabet.  "hpsmall" / "hdsmall": three such tuples, for    *)
(*            the model check and the negative controls (equality          *)
(*            memoised by address)                                         *)
(***************************************************************************)
EXTENDS C01_Objects, C01_Catalogue, Json
CONSTANTS Sweeps, PairDepth, NearDepth, DeepDepth, HierDepth, XDepth, SelfDepth, FormDepth, HeapDepth, Wide, EmitCases
VARIABLES todo, hist, sweep, arr

vars == << objs, dict, last, cmemo, heap, todo, hist, sweep, arr >>

\* unordered: keep (a, b) with a <= b by position
UPairs == UNION { { << Families[i][a], Families[i][b] >> :
                      a \in 1..Len(Families[i]), b \in 1..Len(Families[i]) }
                : i \in 1..Len(Families) }
UPairsLE == UNION { UNION { { << Families[i][a], Families[i][b] >> : b \in a..Len(Families[i]) }
                            : a \in 1..Len(Families[i]) }
                  : i \in 1..Len(Families) }
\* near pairs: every member with its separately built twin, with the family's base
\* instance and with its next two neighbours (the catalogue lists ==-twins, colliding
\* values and class twins next to each other)
NearPairs == UNION { UNION { { << Families[i][a], Families[i][b] >> :
                                b \in { b2 \in a..Len(Families[i]) : a = 1 \/ b2 <= a + 2 } }
                             : a \in 1..Len(Families[i]) }
                   : i \in 1..Len(Families) }

\* close pairs for the pure model check and the negative controls
SmallPairs == {
    << Ch("Sum", << x, One >>), Ch("Sum", << x, OneF >>) >>,
    << Ch("Sum", << x, M1 >>), Ch("Sum", << x, M2 >>) >>,
    << Ch("Sum", << x, One >>), Ch("Product", << x, One >>) >>,
    << NaNN(NoneV), NaNN(NoneV) >>,
    << U3("ULegChild", One, Two, M1), U3("ULegChild", One, Two, M2) >>,
    << U3("UChild", One, Two, Three), U3("UChild", One, Two, KF(3, 1)) >>,
    << Bin("UPlain", One, M1), Bin("UPlain", One, M2) >>,
    << Bin("URoot", One, M1), Bin("UPlain", One, M1) >>,
    << Bin("ULeg", One, M1), Bin("ULeg", One, M2) >>,
    << Bin("ULeg", One, Two), Bin("ULeg", OneB, Two) >>,
    << Bin("Lookup", x, CStr("p")), Bin("Lookup", x, CStr("q")) >>,
    << CallKwN(ff, << x >>, Dct(A1B2)), CallKwN(ff, << x >>, Imm(<< KwE("b", Two), KwE("a", One) >>)) >> }
\* a value that is not == itself: the same float object directly in a field of two nodes,
\* in the tuple field of two nodes (equal through the identity of the element)
NaNSmallPairs == { << PowN1, PowN1 >>, << Ch("Sum", << x, N1 >>), Ch("Sum", << x, N1 >>) >> }
SelfSmall == { << PowN1 >>, << Un("LogicalNot", PowN1) >>, << U3("ULegChild", x, y, N1) >> }

\* how the objects of a tuple arrive (position by position; beyond its length: built here)
XCombos == { << "pkh", "" >>, << "pkc", "" >>, << "", "pkh" >> }
           \cup (IF Wide THEN { << "pk", "" >> } ELSE {})
XSweeps == {"xtwin", "xnear", "xdeep", "xsmall"}
\* round 6: sweeps whose histories end lifetimes; the last specification of todo is built
\* only after a Drop
HeapSweeps == {"heap", "heapd", "heapx", "hpsmall", "hdsmall"}
Twins(P) == { << p[1], p[1] >> : p \in P }

Init ==
    /\ objs = << >> /\ dict = << >> /\ cmemo = {} /\ heap = Heap0
    /\ last = [ev |-> EvNew(NoneV), chk |-> "OK", dev |-> ""]
    /\ hist = << >>
    /\ sweep \in Sweeps
    /\ todo \in CASE sweep = "pairs" -> UPairsLE
                  [] sweep = "near"  -> NearPairs
                  [] sweep = "deep"  -> RepPairs \cup RepTriples
                  [] sweep = "deepq" -> RepPairsQuick \cup RepTriplesQuick
                  [] sweep = "small" -> SmallPairs
                  [] sweep = "nsmall" -> NaNSmallPairs
                  [] sweep = "sim"   -> UPairs \cup RepTriples \cup HierTuples
                  [] sweep = "hier"  -> IF Wide THEN HierTuples ELSE HierTuplesQuick
                  [] sweep = "hsmall" -> HierSmall
                  [] sweep = "xtwin" -> { << sp, sp >> : sp \in AllSpecs }
                  [] sweep = "xnear" -> NearPairs
                  [] sweep = "xdeep" -> RepPairsQuick \cup (IF Wide THEN Twins(RepPairsQuick) ELSE {})
                  [] sweep = "xsmall" -> SmallPairs \cup Twins(SmallPairs)
                  [] sweep = "self"  -> { << sp >> : sp \in (IF Wide THEN AllSpecs
                                                               ELSE NaNSpecsQuick \cup KwSpecsQuick) }
                  [] sweep = "ksmall" -> KwSmallPairs
                  [] sweep = "forms" -> { << WithForm(p[1], F), p[2] >> :
                                            p \in (IF Wide THEN FormPairs ELSE FormPairsQuick),
                                            F \in MapForms \ {"imm"} }
                  [] sweep = "fsmall" -> { << WithForm(p[1], F), p[2] >> :
                                            p \in FormSmallPairs, F \in MapForms \ {"imm"} }
                  [] sweep = "selfn" -> { << sp >> : sp \in NaNSpecs }
                  [] sweep = "ssmall" -> SelfSmall
                  [] sweep = "heap"  -> IF Wide THEN HeapTuples(HeapPairs) \cup HeapTuplesOther
                                        ELSE HeapTuples(HeapPairsQuick)
                  [] sweep = "heapd" -> HeapTuples(IF Wide THEN HeapPairsQuick \cup RepPairs ELSE HeapPairsQuick)
                  [] sweep = "heapx" -> HeapTuples(HeapDeepPairs)
                  [] sweep \in {"hpsmall", "hdsmall"} -> HeapTuples(HeapSmallPairs)
    /\ arr \in (IF sweep \in XSweeps THEN XCombos
                ELSE IF sweep = "sim" THEN XCombos \cup { << >> } ELSE { << >> })

(***************************************************************************)
(* Alphabets                                                               *)
(***************************************************************************)
N == Len(objs)
NNew == Len(SelectSeq(hist, LAMBDA e : e.op = "New"))
FieldNames(i) == FieldsOf(objs[i].tree.cls)
FNSet(i) == { FieldNames(i)[k] : k \in 1..Len(FieldNames(i)) }
\* fields in which objects i and j (same class) differ structurally
DiffFields(i, j) ==
    IF objs[i].tree.cls # objs[j].tree.cls THEN {}
    ELSE { FieldNames(i)[k] : k \in { k2 \in 1..Len(FieldNames(i)) :
                                       objs[i].tree.f[k2] # objs[j].tree.f[k2] } }

PairAlphabet ==
    IF N < 2 THEN { EvHash(1), EvEq(1, 1), EvPut(1, 1), EvGet(1) }
    ELSE { EvEq(1, 2), EvEq(2, 1), EvHash(2), EvPut(1, Len(hist)), EvGet(2) }

\* plain uses of every object (what first runs the generated functions on a class)
UseAlphabet ==
    LET I == 1..N IN
       { EvHash(i) : i \in I }
  \cup UNION { { EvEq(i, j) : j \in I \ {i} } : i \in I }
  \cup { EvPut(i, Len(hist)) : i \in I }
  \cup { EvGet(i) : i \in I }

\* an object with itself, its copies / mapper results with themselves and with it
SelfAlphabet ==
    LET I == 1..N IN
       { EvHash(i) : i \in I }
  \cup { EvEq(i, i) : i \in I } \cup { EvNe(i, i) : i \in I }
  \cup { EvEq(1, j) : j \in I \ {1} } \cup { EvEq(j, 1) : j \in I \ {1} }
  \cup { EvPut(i, Len(hist)) : i \in I }
  \cup { EvGet(i) : i \in I }
  \cup (IF N < 3 THEN { EvCopy(1, md) : md \in {"copy", "deepcopy", "pickle"} }
                   \cup { EvTouch(1, md) : md \in {"stock", "rebuild"} }
        ELSE {})

\* object i was built (New events come first in a history) from a container the caller
\* can still change
LiveBuilt(i) == i <= NNew /\ i <= Len(hist) /\ FormsIn(hist[i].spec) \cap LiveForms # {}

\* round 5: object 1 built from some form of container, object 2 from the canonical one
FormAlphabet ==
    { EvMutate(1), EvHash(1), EvHash(2), EvEq(1, 2), EvEq(2, 1), EvPut(1, Len(hist)), EvGet(2) }

\* round 6: plain uses of the LIVE objects, the end of a lifetime (while an object is
\* still to be built after it; never of a key of the dict: the dict keeps that alive),
\* and the building of the next object once an address is free
HeapAlphabet ==
    LET L == LiveIdx(Cur) IN
       (IF sweep \in {"heap", "heapx", "hpsmall"}
        THEN { EvHash(i) : i \in L } \cup UNION { { EvEq(i, j) : j \in L \ {i} } : i \in L }
             \cup { EvPut(i, Len(hist)) : i \in L }
        ELSE { EvPut(1, Len(hist)) : i \in L \cap {1} })
  \cup { EvGet(i) : i \in L }
  \cup (IF Len(heap.free) < Len(todo) THEN { EvDrop(i) : i \in { i2 \in L : ~IsKey(Cur, i2) } } ELSE {})
  \cup (IF heap.free # << >> /\ Len(todo) > 0 THEN { EvNew(Head(todo)) } ELSE {})

\* (round 6: over the LIVE objects; in the random walks a lifetime may end anywhere - of any
\* object but the first, which the events below are about, and never of a key of the dict -
\* and the copies / mapper results / replaced objects made later take the freed address)
FullAlphabet ==
    LET I == LiveIdx(Cur) IN
       { EvHash(i) : i \in I }
  \cup (IF LiveBuilt(1) THEN { EvMutate(1) } ELSE {})
  \cup { EvEq(i, j) : i \in I, j \in I }
  \cup { EvNe(i, j) : i \in {1}, j \in I }
  \cup { EvSetAttr(1, 0, fn) : fn \in FNSet(1) }
  \cup (IF 2 \in I THEN { EvSetAttr(1, 2, fn) : fn \in DiffFields(1, 2) } ELSE {})
  \cup { EvDelAttr(1, fn) : fn \in FNSet(1) }
  \cup (IF N < 4 THEN { EvCopy(1, md) : md \in {"copy", "deepcopy", "pickle"} }
                   \cup { EvTouch(1, "rebuild") }
                   \cup (IF 2 \in I THEN { EvReplace(1, 2, fn) : fn \in DiffFields(1, 2) } ELSE {})
        ELSE {})
  \cup { EvTouch(1, md) : md \in {"stock", "cim", "str", "repr", "deps"} }
  \cup { EvPut(i, Len(hist)) : i \in I }
  \cup { EvGet(i) : i \in I }
  \cup (IF sweep = "sim" /\ N < 4
        THEN { EvDrop(i) : i \in { i2 \in I \ {1} : ~IsKey(Cur, i2) } } ELSE {})

Depth == CASE sweep = "pairs" -> PairDepth
           [] sweep = "near"  -> NearDepth
           [] sweep \in {"deep", "deepq"}  -> DeepDepth
           [] sweep \in {"small", "nsmall", "ksmall"} -> DeepDepth
           [] sweep = "sim"   -> 1000
           [] sweep \in {"hier", "hsmall"} -> HierDepth
           [] sweep \in {"xtwin", "xsmall"} -> XDepth
           [] sweep = "xnear" -> 1
           [] sweep = "xdeep" -> PairDepth
           [] sweep \in {"self", "ssmall"} -> SelfDepth
           [] sweep = "selfn" -> SelfDepth + 1
           [] sweep \in {"forms", "fsmall"} -> FormDepth
           [] sweep \in {"heap", "hpsmall"} -> HeapDepth
           [] sweep \in {"heapd", "heapx", "hdsmall"} -> HeapDepth + 1
NOps == Len(hist) - NNew
\* the objects every history starts with are still being built
Building == IF sweep \in HeapSweeps THEN Len(todo) > 1 ELSE Len(todo) > 0

Next ==
    IF Building
    THEN LET md == IF NNew + 1 <= Len(arr) THEN arr[NNew + 1] ELSE ""
              ev == EvNewVia(Head(todo), md)
         IN /\ Step(ev)
            /\ todo' = Tail(todo)
            /\ hist' = Append(hist, ev)
            /\ UNCHANGED << sweep, arr >>
    ELSE /\ NOps < Depth
         /\ N >= 1
         /\ ~Deviated          \* a behaviour ends at a named deviation, as a judged trace does
         /\ \E ev \in (IF sweep \in {"pairs", "near", "xtwin", "xnear", "xdeep"} THEN PairAlphabet
                        ELSE IF sweep \in {"hier", "hsmall"} THEN UseAlphabet
                        ELSE IF sweep \in {"self", "selfn", "ssmall"} THEN SelfAlphabet
                        ELSE IF sweep \in {"forms", "fsmall"} THEN FormAlphabet
                        ELSE IF sweep \in HeapSweeps THEN HeapAlphabet
                        ELSE FullAlphabet) :
               \* (a put the dict model cannot follow, see C01_Objects!PutAmbiguous)
               /\ ~(ev.op = "DictPut" /\ PutAmbiguous(Cur, ev.i))
               /\ Step(ev)
               /\ hist' = Append(hist, ev)
               /\ todo' = IF ev.op = "New" THEN Tail(todo) ELSE todo
         /\ UNCHANGED << sweep, arr >>

Spec == Init /\ [][Next]_vars

Complete == Len(todo) = 0 /\ (NOps = Depth \/ N = 0 \/ Deviated)
            \* a lifetime history ends with a use of the object that was built after the Drop
            /\ (sweep \in HeapSweeps => hist[Len(hist)].op \notin {"New", "Drop"})
Emit == (EmitCases /\ Complete /\ sweep # "sim") =>
            PrintT(ToJson([sweep |-> sweep, hist |-> hist]))
\* In simulation mode TLC evaluates invariants on *every* successor of the state it is
\* at, then moves to one of them.  To get exactly the random walk it took, the history
\* of a state one step beyond the wanted length is printed without its last event (all
\* siblings print the same line; the runner keeps one).  A walk that ends early at a
\* named deviation is printed as it is.
EmitSim == (EmitCases /\ sweep = "sim" /\ Len(todo) = 0) =>
             IF Deviated THEN PrintT(ToJson([sweep |-> sweep, hist |-> hist]))
             ELSE (NOps = DeepDepth + 1) =>
                  PrintT(ToJson([sweep |-> sweep, hist |-> SubSeq(hist, 1, Len(hist) - 1)]))
=============================================================================
