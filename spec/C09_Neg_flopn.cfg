CONSTANT Bug = "flopn"
INIT Init
NEXT Next
INVARIANT NegRefines
CHECK_DEADLOCK FALSE
