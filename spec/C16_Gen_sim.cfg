CONSTANT Tier = "sim"
CONSTANT Bug = "none"
INIT Init
NEXT Next
INVARIANT ImplSound
INVARIANT ImplComplete
INVARIANT MeaningSelfCheck
INVARIANT Emit
CHECK_DEADLOCK FALSE
