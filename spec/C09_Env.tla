------------------------------- MODULE C09_Env -------------------------------
(* The environments of the restricted-evaluation clause (shared by C09_Gen  *)
(* and C09_Judge; the generator prints them, the driver materialises them   *)
(* with harness/envobjs.py).  u is deliberately unbound.                    *)
EXTENDS C09_Analyses

FnV(n) == [k |-> "fn", name |-> n]
ObjV(n) == [k |-> "obj", name |-> n]
TupV(s) == [k |-> "tup", items |-> s]
Common(o) == [f |-> FnV("f"), g |-> FnV("g"),
              t |-> TupV(<< IntV(10), IntV(20), FracV(5, 2) >>), o |-> ObjV(o)]
Envs == <<
  [x |-> IntV(2),     y |-> IntV(-3), z |-> IntV(0),  b |-> BoolV(TRUE)]  @@ Common("o1"),
  [x |-> FracV(1, 2), y |-> IntV(1),  z |-> IntV(-1), b |-> BoolV(FALSE)] @@ Common("o2")
>>
=============================================================================
