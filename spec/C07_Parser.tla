----------------------------- MODULE C07_Parser -----------------------------
(***************************************************************************)
(* A-layer: pymbolic.parser.Parser transcribed as the code has it - the    *)
(* precedence-climbing loop (parse_prefix / parse_postfix) with the code's *)
(* numeric table _PREC_* and, for every operator, the minimum precedence   *)
(* its right operand is parsed with; the comma / finalized-container       *)
(* rules; parse_arglist.  Input: a token sequence (strings, white space    *)
(* already dropped by the lexer).  Output: [ok, e, pos] or an error.       *)
(* Unary and binary minus go through Python's operator overloading         *)
(* (-operand), i.e. through C03_Operators!Neg.                             *)
(***************************************************************************)
EXTENDS C03_Operators

(***************************************************************************)
(* The NAMED DEVIATIONS of this parser from Python's expression grammar     *)
(* (the open findings C07-F1..F14).  Every operator below takes a set fx of *)
(* deviations to REPAIR: fx = {} is the parser as the code has it, fx =      *)
(* Deviations is what the code would be with all of them repaired.  The     *)
(* judge attributes a failing string to the listed findings only if the     *)
(* real parser returned exactly what the unrepaired model predicts AND the   *)
(* fully repaired model reads the string as Python does; the deviations     *)
(* whose repair alone changes the reading of that string are named.         *)
(*   "bitcmp"    comparisons bind tighter than | ^ & (as in C)              *)
(*   "orxor"     | and ^ share one precedence                                *)
(*   "mulrhs"    the right operand of * is parsed at additive precedence    *)
(*   "unarypow"  - + ~ bind tighter than ** on their right                  *)
(*   "notprec"   'not' is a tightly binding prefix operator                 *)
(*   "negtuple"  minus is applied to the parsed operand at parse time       *)
(*               (Python's own -x), which fails for a tuple                 *)
(*   "chain"     a < b < c is read as the nested comparison (a < b) < c      *)
(*               (repaired: a < b and b < c; built through a Chain node that *)
(*               only an unparenthesised comparison leaves open)            *)
(***************************************************************************)
Deviations == {"bitcmp", "orxor", "mulrhs", "unarypow", "notprec", "negtuple", "chain"}
DevSeq == << "bitcmp", "orxor", "mulrhs", "unarypow", "notprec", "negtuple", "chain" >>

P_COMMA == 5     P_SLICE == 10    P_IF == 75       P_LOR == 80      P_LAND == 90
P_BOR == 120     P_BXOR == 120    P_BAND == 130    P_CMP == 200     P_SHIFT == 205
P_PLUS == 210    P_TIMES == 220   P_POWER == 230   P_UNARY == 240   P_CALL == 250

\* ---- lexical classes ---------------------------------------------------------
IsIntTok(t) == \E n \in 0..30 : t = ToString(n)
IntTokVal(t) == CHOOSE n \in 0..30 : t = ToString(n)
FloatTable == << << "0.5", 1, 2 >>, << "1.5", 3, 2 >>, << "2.5", 5, 2 >>, << "0.25", 1, 4 >>,
                 << "0.0", 0, 1 >>, << "1.0", 1, 1 >>, << "2.0", 2, 1 >>, << "3.0", 3, 1 >>,
                 \* other spellings of float literals (all with exactly representable values):
                 \* no digits after / before the point, exponents with and without sign, capital E
                 << "2.", 2, 1 >>, << ".5", 1, 2 >>, << "1e3", 1000, 1 >>, << "1e+3", 1000, 1 >>,
                 << "1E+3", 1000, 1 >>, << "2e+2", 200, 1 >>, << "12e+0", 12, 1 >>, << "25e-2", 1, 4 >>,
                 << "5e-1", 1, 2 >>, << "2.5e+1", 25, 1 >>, << ".5e+1", 5, 1 >>, << "2.e1", 20, 1 >>,
                 << "1.5E1", 15, 1 >>, << "0e0", 0, 1 >> >>
IsFloatTok(t) == (\E i \in 1..Len(FloatTable) : FloatTable[i][1] = t) \/ t \in {"1e-05", "1e+20"}
FloatTokConst(t) ==
    IF t \in {"1e-05", "1e+20"} THEN K([k |-> "fstr", s |-> t])
    ELSE LET i == CHOOSE i \in 1..Len(FloatTable) : FloatTable[i][1] = t
         IN K(FltV(FloatTable[i][2], FloatTable[i][3]))
Idents == {"a", "b", "c", "d", "x", "y", "z", "w", "f", "g", "t", "o", "p", "q", "u", "m", "k1", "k2", "zz",
           "Y", "N", "a0",
           \* names that begin with a keyword or literal word, contain digits / underscores
           "not_x", "not1", "or_1", "and2", "if_", "else_9", "note", "iffy", "orb", "Truex", "Nonesuch",
           "_y", "x_1", "a_b",
           "min", "max", "CSE", "abs", "math", "log"}
CmpToks == {"==", "!=", "<", "<=", ">", ">="}

Ok(e, pos) == [ok |-> TRUE, e |-> e, pos |-> pos]
Fail(err) == [ok |-> FALSE, err |-> err]
ParseError == Fail("ParseError")

\* containers under construction: "Tup" is a plain (appendable) tuple, "TupF" / "ListF" are
\* finalized by a closing delimiter
IsOpenTup(e) == e.t = "Tup"
Finalize(e) == IF e.t = "Tup" THEN [t |-> "TupF", c |-> e.c] ELSE e
\* a comparison chain under construction (only with "chain" repaired): operands and operators
ChainDone(e) ==
    IF e.t # "Chain" THEN e
    ELSE IF Len(e.ops) = 1 THEN Cmp(e.c[1], e.ops[1], e.c[2])
    ELSE N("LogAnd", [i \in 1..Len(e.ops) |-> Cmp(e.c[i], e.ops[i], e.c[i + 1])])
Unfinalize(e) == IF e.t = "TupF" THEN [t |-> "Tup", c |-> e.c] ELSE ChainDone(e)
ToList(e) == IF e.t = "Tup" THEN [t |-> "ListF", c |-> e.c] ELSE [t |-> "ListF", c |-> << e >>]

\* -operand through Python's unary minus: tuples and lists have none
PyNeg(e) == IF e.t \in {"Tup", "TupF", "ListF", "None"} THEN Raise("TypeError") ELSE Neg(e)

JoinToSlice(left, right) ==
    IF right.t = "Slice" THEN N("Slice", << left >> \o right.c) ELSE N("Slice", << left, right >>)

\* precedences that depend on the repaired deviations (Python: comparisons < | < ^ < &)
PCmp(fx)  == IF "bitcmp" \in fx THEN 110 ELSE P_CMP
PBxor(fx) == IF "orxor" \in fx THEN 125 ELSE P_BXOR
\* minus: the code negates the parsed operand with Python's own unary minus; repaired, a tuple
\* operand becomes an (ill-typed) product that raises when it is evaluated, as in Python
NegF(fx, e) == IF "negtuple" \in fx /\ e.t \in {"Tup", "TupF", "ListF"}
               THEN N("Product", << KI(-1), Unfinalize(e) >>) ELSE PyNeg(e)

RECURSIVE PExpr(_, _, _, _), PPrefix(_, _, _), PLoop(_, _, _, _, _), PArgs(_, _, _, _, _, _)

AtEnd(toks, pos) == pos > Len(toks)
Tok(toks, pos) == IF pos > Len(toks) THEN "<end>" ELSE toks[pos]

\* parse_expression
PExpr(fx, toks, pos, minp) ==
    LET pre == PPrefix(fx, toks, pos) IN
    IF ~pre.ok THEN pre ELSE PLoop(fx, toks, pre.pos, minp, pre.e)

\* the postfix loop of parse_expression
PLoop(fx, toks, pos, minp, left0) ==
    IF AtEnd(toks, pos) THEN Ok(Unfinalize(left0), pos)  \* a finalized tuple becomes a plain one
    ELSE
    LET tk == toks[pos]
        \* an open comparison chain is closed by anything but another comparison operator
        left == IF tk \in CmpToks THEN left0 ELSE ChainDone(left0)
        bin(cons(_, _), prec, rprec) ==     \* generic "left op right" with right parsed at rprec
            IF prec > minp THEN
                LET r == PExpr(fx, toks, pos + 1, rprec) IN
                IF ~r.ok THEN r ELSE
                LET built == cons(ChainDone(left), ChainDone(r.e)) IN
                IF IsRaise(built) THEN Fail(built.e) ELSE PLoop(fx, toks, r.pos, minp, built)
            ELSE Ok(Unfinalize(left), pos)
        stop == Ok(Unfinalize(left), pos)
        SumCons(l, r) == IF l.t = "Sum" THEN N("Sum", l.c \o << r >>) ELSE N("Sum", << l, r >>)
        SubCons(l, r) == LET nr == NegF(fx, r) IN IF IsRaise(nr) THEN nr ELSE SumCons(l, nr)
        MulCons(l, r) == IF l.t = "Product" THEN N("Product", l.c \o << r >>) ELSE N("Product", << l, r >>)
    IN
    CASE tk = "(" ->
            IF P_CALL > minp THEN
                LET a == PArgs(fx, toks, pos + 1, << >>, << >>, FALSE) IN
                IF ~a.ok THEN a
                ELSE PLoop(fx, toks, a.pos, minp,
                           IF Len(a.kw) > 0 THEN CallKw(left, a.args, a.kw) ELSE Call(left, a.args))
            ELSE stop
      [] tk = "[" ->
            IF P_CALL > minp THEN
                IF AtEnd(toks, pos + 1) THEN ParseError
                ELSE LET r == PExpr(fx, toks, pos + 1, 0) IN
                     IF ~r.ok THEN r
                     ELSE IF Tok(toks, r.pos) # "]" THEN ParseError
                     ELSE PLoop(fx, toks, r.pos + 1, minp, B("Sub", left, Unfinalize(r.e)))
            ELSE stop
      [] tk = "if" ->
            IF P_IF > minp THEN
                IF AtEnd(toks, pos + 1) THEN ParseError
                ELSE LET c == PExpr(fx, toks, pos + 1, P_IF) IN
                     IF ~c.ok THEN c
                     ELSE IF Tok(toks, c.pos) # "else" THEN ParseError
                     ELSE LET el == PExpr(fx, toks, c.pos + 1, P_IF - 1) IN   \* ends at a comma or slice colon
                          IF ~el.ok THEN el
                          ELSE PLoop(fx, toks, el.pos, minp, IfE(Unfinalize(c.e), left, Unfinalize(el.e)))
            ELSE stop
      [] tk = "." ->
            IF P_CALL > minp THEN
                IF Tok(toks, pos + 1) \in Idents THEN PLoop(fx, toks, pos + 2, minp, Look(left, toks[pos + 1]))
                ELSE ParseError
            ELSE stop
      [] tk = "+"  -> bin(SumCons, P_PLUS, P_PLUS)
      [] tk = "-"  -> bin(SubCons, P_PLUS, P_PLUS)
      [] tk = "*"  -> bin(MulCons, P_TIMES, IF "mulrhs" \in fx THEN P_TIMES ELSE P_PLUS)   \* additive level (sic)
      [] tk = "//" -> bin(LAMBDA l, r : B("FloorDiv", l, r), P_TIMES, P_TIMES)
      [] tk = "/"  -> bin(LAMBDA l, r : B("Quotient", l, r), P_TIMES, P_TIMES)
      [] tk = "%"  -> bin(LAMBDA l, r : B("Remainder", l, r), P_TIMES, P_TIMES)
      [] tk = "**" -> bin(LAMBDA l, r : B("Power", l, r), P_POWER, P_TIMES)
      [] tk = "and" -> bin(LAMBDA l, r : N("LogAnd", << l, r >>), P_LAND, P_LAND)
      [] tk = "or"  -> bin(LAMBDA l, r : N("LogOr", << l, r >>), P_LOR, P_LOR)
      [] tk = "|"  -> bin(LAMBDA l, r : N("BitOr", << l, r >>), P_BOR, P_BOR)
      [] tk = "^"  -> bin(LAMBDA l, r : N("BitXor", << l, r >>), PBxor(fx), PBxor(fx))
      [] tk = "&"  -> bin(LAMBDA l, r : N("BitAnd", << l, r >>), P_BAND, P_BAND)
      [] tk = ">>" -> bin(LAMBDA l, r : B("RShift", l, r), P_SHIFT, P_SHIFT)
      [] tk = "<<" -> bin(LAMBDA l, r : B("LShift", l, r), P_SHIFT, P_SHIFT)
      [] tk \in CmpToks ->
            IF "chain" \notin fx THEN bin(LAMBDA l, r : Cmp(l, tk, r), PCmp(fx), PCmp(fx))
            ELSE IF PCmp(fx) > minp THEN
                LET r == PExpr(fx, toks, pos + 1, PCmp(fx)) IN
                IF ~r.ok THEN r
                ELSE PLoop(fx, toks, r.pos, minp,
                           IF left.t = "Chain"
                           THEN [t |-> "Chain", c |-> Append(left.c, ChainDone(r.e)), ops |-> Append(left.ops, tk)]
                           ELSE [t |-> "Chain", c |-> << left, ChainDone(r.e) >>, ops |-> << tk >>])
            ELSE stop
      [] tk = ":" ->
            IF P_SLICE >= minp THEN
                LET r == IF AtEnd(toks, pos + 1) THEN ParseError ELSE PExpr(fx, toks, pos + 1, P_SLICE) IN
                IF r.ok THEN PLoop(fx, toks, r.pos, minp, JoinToSlice(left, Unfinalize(r.e)))
                ELSE IF r.err = "ParseError" THEN PLoop(fx, toks, pos + 1, minp, N("Slice", << left, NoneE >>))
                ELSE r
            ELSE stop
      [] tk = "," ->
            IF P_COMMA > minp THEN
                IF AtEnd(toks, pos + 1) \/ Tok(toks, pos + 1) = ")" THEN
                    PLoop(fx, toks, pos + 1, minp, IF IsOpenTup(left) THEN left ELSE N("Tup", << left >>))
                ELSE LET r == PExpr(fx, toks, pos + 1, P_COMMA) IN
                     IF ~r.ok THEN r
                     ELSE PLoop(fx, toks, r.pos, minp,
                                IF IsOpenTup(left) THEN N("Tup", left.c \o << r.e >>)
                                ELSE N("Tup", << left, r.e >>))
            ELSE stop
      [] OTHER -> stop

\* parse_prefix
PPrefix(fx, toks, pos) ==
    IF AtEnd(toks, pos) THEN ParseError
    ELSE
    LET tk == toks[pos]
        unaryAt(cons(_), prec) ==
                       LET r == PExpr(fx, toks, pos + 1, prec) IN
                       IF ~r.ok THEN r
                       ELSE LET b == cons(Unfinalize(r.e)) IN
                            IF IsRaise(b) THEN Fail(b.e) ELSE Ok(b, r.pos)
        \* repaired: ** binds tighter than a prefix operator on its left (operand one level below **)
        unary(cons(_)) == unaryAt(cons, IF "unarypow" \in fx THEN P_TIMES ELSE P_UNARY)
        unaryOLD(cons(_)) == LET r == PExpr(fx, toks, pos + 1, P_UNARY) IN
                       IF ~r.ok THEN r
                       ELSE LET b == cons(Unfinalize(r.e)) IN
                            IF IsRaise(b) THEN Fail(b.e) ELSE Ok(b, r.pos)
    IN
    CASE tk = ":" ->
            LET r == IF AtEnd(toks, pos + 1) THEN ParseError ELSE PExpr(fx, toks, pos + 1, P_SLICE) IN
            IF r.ok THEN Ok(JoinToSlice(NoneE, Unfinalize(r.e)), r.pos)
            ELSE IF r.err = "ParseError" THEN Ok(N("Slice", << NoneE >>), pos + 1)
            ELSE r
      [] tk = "+"   -> unary(LAMBDA x : x)
      [] tk = "-"   -> unary(LAMBDA x : NegF(fx, x))
      \* repaired: 'not' binds looser than comparisons, tighter than 'and'
      [] tk = "not" -> unaryAt(LAMBDA x : U("LogNot", x), IF "notprec" \in fx THEN P_LAND ELSE P_UNARY)
      [] tk = "~"   -> unary(LAMBDA x : U("BitNot", x))
      [] tk = "(" ->
            IF Tok(toks, pos + 1) = ")" THEN Ok([t |-> "TupF", c |-> << >>], pos + 2)
            ELSE LET r == PExpr(fx, toks, pos + 1, 0) IN
                 IF ~r.ok THEN r
                 ELSE IF Tok(toks, r.pos) # ")" THEN ParseError
                 ELSE Ok(Finalize(ChainDone(r.e)), r.pos + 1)
      [] tk = "[" ->
            IF Tok(toks, pos + 1) = "]" THEN Ok([t |-> "ListF", c |-> << >>], pos + 2)
            ELSE LET r == PExpr(fx, toks, pos + 1, 0) IN
                 IF ~r.ok THEN r
                 ELSE IF Tok(toks, r.pos) # "]" THEN ParseError
                 ELSE Ok(ToList(r.e), r.pos + 1)
      [] IsIntTok(tk)   -> Ok(KI(IntTokVal(tk)), pos + 1)
      [] IsFloatTok(tk) -> Ok(FloatTokConst(tk), pos + 1)
      [] tk = "True"    -> Ok(K(BoolV(TRUE)), pos + 1)
      [] tk = "False"   -> Ok(K(BoolV(FALSE)), pos + 1)
      [] tk \in Idents  -> Ok(V(tk), pos + 1)
      [] OTHER -> ParseError

\* parse_arglist: returns [ok, args, kw, pos]
PArgs(fx, toks, pos, args, kw, commaAllowed) ==
    IF AtEnd(toks, pos) THEN ParseError
    ELSE
    LET sawComma == toks[pos] = ","
        p1 == IF sawComma THEN pos + 1 ELSE pos
    IN
    IF sawComma /\ ~commaAllowed THEN ParseError
    ELSE IF AtEnd(toks, p1) THEN ParseError
    ELSE IF toks[p1] = ")" THEN [ok |-> TRUE, args |-> args, kw |-> kw, pos |-> p1 + 1]
    ELSE IF ~sawComma /\ commaAllowed THEN ParseError
    ELSE IF toks[p1] \in Idents /\ Tok(toks, p1 + 1) = "=" THEN
        LET r == PExpr(fx, toks, p1 + 2, P_COMMA) IN
        IF ~r.ok THEN r
        ELSE LET others == SelectSeq(kw, LAMBDA q : q.name # toks[p1]) IN
             \* a dict: a repeated keyword overwrites, keeping its first position
             PArgs(fx, toks, r.pos, args,
                   IF Len(others) = Len(kw) THEN Append(kw, KwArg(toks[p1], Unfinalize(r.e)))
                   ELSE [i \in 1..Len(kw) |-> IF kw[i].name = toks[p1]
                                               THEN KwArg(toks[p1], Unfinalize(r.e)) ELSE kw[i]],
                   TRUE)
    ELSE IF Len(kw) > 0 THEN ParseError
    ELSE LET r == PExpr(fx, toks, p1, P_COMMA) IN
         IF ~r.ok THEN r ELSE PArgs(fx, toks, r.pos, Append(args, Unfinalize(r.e)), kw, TRUE)

\* Parser.__call__: the whole input must be consumed
RECURSIVE Cleanup(_)
Cleanup(e) ==       \* what Python's == / the serialiser see: finalized containers are containers
    LET e0 == ChainDone(e)
        e1 == IF e0.t = "TupF" THEN [t |-> "Tup", c |-> e0.c]
              ELSE IF e0.t = "ListF" THEN [t |-> "List", c |-> e0.c] ELSE e0
    IN WithKids(e1, [i \in 1..Len(Kids(e1)) |-> Cleanup(Kids(e1)[i])])
ParseF(fx, toks) ==
    LET r == PExpr(fx, toks, 1, 0) IN
    IF ~r.ok THEN r
    ELSE IF ~AtEnd(toks, r.pos) THEN ParseError
    ELSE Ok(Cleanup(r.e), r.pos)
Parse(toks) == ParseF({}, toks)        \* the parser as the code has it
ParseRepaired(toks) == ParseF(Deviations, toks)
\* the deviations whose repair alone changes how this string is read
ActiveDevs(toks) == SelectSeq(DevSeq, LAMBDA d : ParseF({d}, toks) # ParseF({}, toks))
=============================================================================
