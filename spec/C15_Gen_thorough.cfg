CONSTANT Tier = "thorough"
INIT Init
NEXT Next
INVARIANT CramerOK
INVARIANT Emit
CHECK_DEADLOCK FALSE
