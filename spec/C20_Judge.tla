------------------------------ MODULE C20_Judge ------------------------------
(***************************************************************************)
(* Stage (3) for C20: trace validation.  Every record of the shard is a    *)
(* behaviour recorded from the real pymbolic.imperative:                   *)
(*   k = "hist": init stream + events (fuse / dis / daf with operand X,    *)
(*               side, filter and the logged outputs R, m, sg, B2, and the *)
(*               two operand lists read again after the call, A1, B1) +    *)
(*               the dot export of the final program                       *)
(*   k = "rw"  : one statement with the reported read / written sets       *)
(*   k = "dot" : one stream with the edges found in the dot text           *)
(* For "hist" records TLC steps the state machine of C20_Fusion: one TLC   *)
(* step per recorded event, the model action being taken with the logged   *)
(* fresh names (FuseAct / DafAct must be enabled and must produce the      *)
(* logged program), the model's invariants being evaluated in every state. *)
(* The step relation is total: an event the model cannot take is recorded  *)
(* with the name of the first clause of the property it contradicts, the   *)
(* model is resynchronised to the logged program and validation goes on,   *)
(* so every event of every record gets a verdict.  Report prints one JSON  *)
(* line per verdict that is not plainly OK.                                *)
(***************************************************************************)
EXTENDS C20_Fusion, Json, IOUtils
VARIABLES blk, off, l, verdict

Recs == ndJsonDeserialize(IOEnv.TRACE_FILE)
BS == 32
NB == (Len(Recs) + BS - 1) \div BS
Idx == blk * BS + off + 1
Rec == Recs[Idx]

NEv(rec) == IF rec.k = "hist" THEN Len(rec.ev) ELSE 0
Start(rec) == IF rec.k = "hist" THEN rec.init ELSE << >>

EdgeSet(es) == {<< es[j][1], es[j][2] >> : j \in 1..Len(es)}

\* operands of an event in the model state reached so far
OpA(ev) == IF ev.side = "R" THEN ev.X ELSE cur
OpB(ev) == IF ev.side = "L" THEN ev.X ELSE cur

InputsOK(ev) == /\ WellFormed(OpA(ev)) /\ WellFormed(OpB(ev))
                /\ StreamOK(OpA(ev)) /\ StreamOK(OpB(ev))

\* the frame observation: the two operand lists as the driver read them again AFTER the call
\* (o.A1, o.B1) against the operands the call was given
Frame(ev) == FrameClause(OpA(ev), OpB(ev), ev.out.A1, ev.out.B1)

\* the clause of the property (C20_Imperative) the logged outputs contradict, or "OK"
Clause(ev) ==
    LET SA == OpA(ev)  SB == OpB(ev)  o == ev.out IN
    IF ~InputsOK(ev) THEN "SKIP"
    ELSE IF o.r = "err" THEN ev.op \o "-raised"
    ELSE IF o.r # "ok" THEN ev.op \o "-unserialisable-output"
    ELSE IF ~PairsOK(o.m) \/ ~PairsOK(o.sg) THEN "SKIP"
    ELSE LET c == CASE ev.op = "fuse" -> FuseClause(SA, SB, o.R, MapOf(o.m))
                    [] ev.op = "dis"  -> DisClause(SA, SB, ev.flt, o.B2, MapOf(o.sg))
                    [] ev.op = "daf"  ->
                         LET sg == MapOf(o.sg)
                             SB2 == RenameStream(SB, sg)
                             d == DisClause(SA, SB, ev.flt, SB2, sg)
                         IN  IF d # "OK" THEN d ELSE FuseClause(SA, SB2, o.R, MapOf(o.m))
             f == Frame(ev)
         IN  \* the outputs first (as before), then: were the operands left as they were?
             IF c # "OK" THEN c ELSE IF f # "OK" THEN ev.op \o "-" \o f ELSE "OK"

\* can the state machine take this event with the logged choices and reach the logged program?
ModelTakes(ev) ==
    LET SA == OpA(ev)  SB == OpB(ev)  o == ev.out IN
    /\ InputsOK(ev) /\ o.r = "ok" /\ PairsOK(o.m) /\ PairsOK(o.sg)
    /\ Frame(ev) = "OK"
    /\ CASE ev.op = "fuse" -> /\ MapAdmissible(SA, SB, MapOf(o.m))
                              /\ StreamEq(Fused(SA, SB, MapOf(o.m)), o.R)
         [] ev.op = "dis"  -> /\ RenamingAdmissible(SA, SB, ev.flt, MapOf(o.sg))
                              /\ StreamEq(Disambiguated(SB, MapOf(o.sg)), o.B2)
         [] ev.op = "daf"  -> /\ RenamingAdmissible(SA, SB, ev.flt, MapOf(o.sg))
                              /\ MapAdmissible(SA, Disambiguated(SB, MapOf(o.sg)), MapOf(o.m))
                              /\ StreamEq(Fused(SA, Disambiguated(SB, MapOf(o.sg)), MapOf(o.m)), o.R)

Init == /\ blk \in 0..(NB - 1) /\ off = 0 /\ l = 0 /\ verdict = "OK"
        /\ cur = Start(Recs[blk * BS + 1]) /\ last = NoStep

\* --- one recorded event -------------------------------------------------------
StepModel(ev, takes) ==      \* the model's own action, bound to the logged fresh names
    /\ takes
    /\ CASE ev.op = "fuse" -> FuseAct(OpA(ev), OpB(ev), MapOf(ev.out.m))
         [] ev.op = "daf"  -> DafAct(OpA(ev), OpB(ev), ev.flt, MapOf(ev.out.sg), MapOf(ev.out.m))
         [] ev.op = "dis"  -> /\ cur' = cur    \* observation only
                              /\ last' = [NoStep EXCEPT !.op = "dis", !.SA = OpA(ev), !.SB = OpB(ev),
                                                        !.flt = ev.flt, !.sg = MapOf(ev.out.sg)]
    /\ verdict' = "OK"

Stuck(ev, takes) ==          \* the model cannot follow: name the clause, resynchronise
    /\ ~takes
    /\ verdict' = (LET c == Clause(ev) IN IF c = "OK" THEN "spec-inconsistent" ELSE c)
    /\ cur' = (IF ev.op \in {"fuse", "daf"} /\ ev.out.r = "ok" THEN ev.out.R ELSE cur)
    /\ last' = [NoStep EXCEPT !.op = "stuck", !.SA = OpA(ev), !.SB = OpB(ev), !.flt = ev.flt,
                              !.sg = (IF ev.out.r = "ok" /\ PairsOK(ev.out.sg)
                                      THEN MapOf(ev.out.sg) ELSE << >>)]

NextRecord ==
    /\ l >= NEv(Rec) /\ off < BS - 1 /\ Idx + 1 <= Len(Recs)
    /\ off' = off + 1 /\ l' = 0 /\ verdict' = "OK"
    /\ cur' = Start(Recs[Idx + 1]) /\ last' = NoStep
    /\ UNCHANGED blk

Next ==
    \/ /\ l < NEv(Rec)
       /\ l' = l + 1 /\ UNCHANGED << blk, off >>
       /\ LET ev == Rec.ev[l + 1]
              takes == ModelTakes(ev)          \* evaluated once (LET values are cached)
          IN  IF takes THEN StepModel(ev, takes) ELSE Stuck(ev, takes)
    \/ NextRecord

\* --- reporting (always true) -----------------------------------------------------
Line(ev, v, why, names, pos) ==
    PrintT(ToJson([id |-> Rec.id, ev |-> ev, v |-> v, why |-> why, names |-> names, pos |-> pos]))

BrokenInvariant ==
    IF ~Inv_IdsDistinct THEN "inv-IdsDistinct"
    ELSE IF ~Inv_DepsClosed THEN "inv-DepsClosed"
    ELSE IF ~Inv_Acyclic THEN "inv-Acyclic"
    ELSE IF ~(Step_FuseClauses /\ Step_DafClauses /\ Step_DisClauses /\ Step_PrefixKept /\ Step_DepIso
              /\ Step_NoSharedIdent) THEN "inv-Step"
    ELSE "OK"

\* attribution (the verdict is already there): a failing expression clause where the logged
\* statements and the expected ones are equal for Python's == and differ only in the kinds of
\* constants (C20_Imperative: the trees, and hence the clauses, are strict about kinds)
KindsOnly(ev, v) ==
    LET o == ev.out  nA == Len(last.SA)  exp == RenameStream(last.SB, last.sg) IN
    CASE v \in {"dis-lhs", "dis-rhs", "dis-cond"} /\ ev.op = "dis" -> KindOnly(o.B2, exp)
      [] v = "fuse-body-changed" /\ Len(o.R) = nA + Len(last.SB) ->
            KindOnly(SubSeq(o.R, nA + 1, Len(o.R)), IF ev.op = "daf" THEN exp ELSE last.SB)
      [] OTHER -> FALSE

ReportEvent ==
    l > 0 =>
      /\ verdict = "OK" =>
            (BrokenInvariant = "OK" \/ Line(l, BrokenInvariant, "", {}, {}))
      /\ verdict # "OK" =>
            LET names == DisCulprits(last.SA, last.SB, last.flt, last.sg, verdict) IN
            Line(l, verdict, IF names # {} THEN WhyOf(last.SA, last.SB, names)
                             ELSE IF KindsOnly(Rec.ev[l], verdict) THEN "constant-kind-only" ELSE "",
                 names, {})

ReportFinalDot ==
    (Rec.k = "hist" /\ l = NEv(Rec) /\ Rec.dot.r # "none") =>
        LET v == IF ~WellFormed(cur) THEN "SKIP"
                 ELSE IF Rec.dot.r # "ok" THEN "dot-raised"
                 ELSE DotClause(cur, EdgeSet(Rec.dot.edges))
        IN  v = "OK" \/ Line(l + 1, v, "", {}, {})

ReportRW ==
    Rec.k = "rw" =>
        LET s == Rec.s
            v == IF ~StmtOK(s) THEN "SKIP"
                 ELSE IF Rec.out.r # "ok" THEN "rw-raised"
                 ELSE RWClause(s, SeqToSet(Rec.out.reads), SeqToSet(Rec.out.writes))
        IN  v = "OK" \/ Line(0, v, "", IF v = "reads-missing" THEN ReadsMust(s) \ SeqToSet(Rec.out.reads) ELSE {},
                             IF v = "reads-missing"
                             THEN RWMissingPos(s, SeqToSet(Rec.out.reads)) \cap {"lhs-index", "rhs", "cond"}
                             ELSE {})

ReportDot ==
    Rec.k = "dot" =>
        LET E == DepEdges(Rec.S)
            C == TC(E)
            v1 == DotClauseE(E, C, EdgeSet(Rec.out.edges))
            v == IF ~WellFormed(Rec.S) THEN "SKIP"
                 ELSE IF Rec.out.r # "ok" THEN "dot-raised"
                 ELSE IF v1 # "OK" THEN v1
                 ELSE DotClauseE(E, C, EdgeSet(Rec.out.edges2))
        IN  v = "OK" \/ Line(0, v, "", {}, {})

Report == ReportEvent /\ ReportFinalDot /\ ReportRW /\ ReportDot
=============================================================================
