CONSTANT Tier = "quick"
CONSTANT Mode = "exh"
CONSTANT Bug = "recursive"
INIT Init
NEXT Next
INVARIANT Lemma
CHECK_DEADLOCK FALSE
