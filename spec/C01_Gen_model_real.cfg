CONSTANTS
  HashMode = "real"
  Bug = "none"
  Sweeps = {"small", "hsmall", "xsmall", "ssmall", "ksmall", "fsmall", "hpsmall", "hdsmall"}
  PairDepth = 2
  NearDepth = 2
  DeepDepth = 3
  HierDepth = 3
  XDepth = 1
  SelfDepth = 3
  FormDepth = 3
  HeapDepth = 3
  Wide = TRUE
  EmitCases = FALSE
INIT Init
NEXT Next
INVARIANT StepAllowed
INVARIANT EqIsPyEq
INVARIANT HashRespectsEq
INVARIANT DictFindsEqual
INVARIANT NeverStale
INVARIANT NoSkipInModel
PROPERTY Immutable
PROPERTY HashStable
CHECK_DEADLOCK FALSE
