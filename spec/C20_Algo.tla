------------------------------- MODULE C20_Algo -------------------------------
(***************************************************************************)
(* C20, A-layer: transcriptions of what pymbolic/imperative does, with the *)
(* code's case analysis.  They never decide a verdict on the               *)
(* implementation.  C20_Gen lets TLC check "algorithm refines meaning" on  *)
(* every generated input (hard invariant for the repaired algorithm, a     *)
(* predicted failure class for the algorithm with the named deviation),    *)
(* and the harness reports as drift every case where the real code and     *)
(* the transcription disagree about pass/fail.                             *)
(*                                                                         *)
(* Named deviation  Dev_ReadsIgnoreLhs : Assignment.get_read_variables     *)
(* computes get_vars(self.rhs) | get_vars(self.lhs) but get_vars ignores   *)
(* its argument and always scans self.rhs.                                 *)
(***************************************************************************)
EXTENDS C20_Imperative

\* --- pytools.UniqueNameGenerator, simplified: base, base_0, base_1, ... ---
\* (the real generator also parses a trailing _<n>; names are never compared
\*  with the implementation's, only checked for freshness)
FreshFor(base, taken) ==
    IF base \notin taken THEN base
    ELSE LET RECURSIVE Go(_)
             Go(k) == LET nm == base \o "_" \o ToString(k) IN
                      IF nm \notin taken THEN nm ELSE Go(k + 1)
         IN Go(0)

\* --- fuse_statement_streams_with_unique_ids --------------------------------
RECURSIVE FuseNames(_, _, _, _)
FuseNames(SB, k, taken, acc) ==
    IF k > Len(SB) THEN acc
    ELSE LET nm == FreshFor(SB[k].id, taken) IN
         FuseNames(SB, k + 1, taken \cup {nm}, Append(acc, << SB[k].id, nm >>))
FuseImplMap(SA, SB) == MapOf(FuseNames(SB, 1, Ids(SA), << >>))
FuseImplResult(SA, SB) ==
    LET m == FuseImplMap(SA, SB)
        pass1 == [i \in 1..Len(SB) |-> [SB[i] EXCEPT !.id = m[@]]]
        pass2 == [i \in 1..Len(SB) |->
                    [pass1[i] EXCEPT !.deps = [k \in 1..Len(@) |-> m[@[k]]]]]
    IN  SA \o pass2

\* --- Statement.get_read_variables / get_written_variables ------------------
\* the dependency mapper with include_subscripts=False, include_lookups=False,
\* include_calls="descend_args" is VarsArg
ReadsImpl(s, dev) ==
    CASE s.kind = "Nop" -> {}
      [] s.kind = "Assign" ->
            VarsArg(s.rhs) \cup (IF dev THEN VarsArg(s.rhs) ELSE VarsArg(s.lhs))
      [] s.kind = "CondAssign" ->      \* MRO: ConditionalStatement, then Assignment
            VarsArg(s.rhs) \cup (IF dev THEN VarsArg(s.rhs) ELSE VarsArg(s.lhs))
            \cup VarsArg(s.cond)
WritesImpl(s) ==
    CASE s.kind = "Nop" -> {}
      [] s.lhs.t = "Var" -> {s.lhs.name}
      [] s.lhs.t = "Sub" -> {s.lhs.a.name}

\* --- analysis.get_all_used_identifiers, transform.disambiguate_identifiers --
UsedImpl(S, dev) == UNION {ReadsImpl(S[i], dev) \cup WritesImpl(S[i]) : i \in 1..Len(S)}
RECURSIVE AssignFresh(_, _, _)
AssignFresh(todo, taken, acc) ==
    IF todo = {} THEN acc
    ELSE LET k == CHOOSE k \in todo : TRUE
             nm == FreshFor(k, taken)
         IN  AssignFresh(todo \ {k}, taken \cup {nm}, acc \cup {<< k, nm >>})
DisImplMap(SA, SB, flt, dev) ==
    LET ida == UsedImpl(SA, dev)  idb == UsedImpl(SB, dev)
        ps == AssignFresh({x \in ida \cap idb : Pass(flt, x)}, ida \cup idb, {})
    IN  [k \in {p[1] : p \in ps} |-> (CHOOSE p \in ps : p[1] = k)[2]]
\* SubstitutionMapper renames every Variable node, map_expressions covers lhs, rhs, condition
DisImplResult(SA, SB, flt, dev) == RenameStream(SB, DisImplMap(SA, SB, flt, dev))

\* --- NOT what the code does: the model of a design error (negative control) ---
\* One memoising renamer for the whole stream (a single mapper instance used for every lhs,
\* rhs and condition in list order), its memo keyed by Python equality of the node plus the
\* type of the OUTERMOST node only: constants themselves are told apart by kind, compound
\* nodes that contain constants of different kinds are not (2*i == 2.0*i, hash included).
\* A later expression is then answered with the rewritten form of an earlier look-alike.
\* C20_Gen: cfg C20_Gen_bug_CachedMapper must violate Ctl_CachedRefines (the strict clauses
\* catch it), cfg C20_Gen_blind_LooseEq must pass (clauses with Python's == cannot see it).
CKey(e) == IF e.t = "Const" THEN e ELSE EraseKinds(e)
RECURSIVE CMapE(_, _, _), CMapKids(_, _, _)
CMapE(e, sg, memo) ==
    LET key == CKey(e)
        hit == SelectSeq(memo, LAMBDA p : p[1] = key)
    IN  IF Len(hit) > 0 THEN [e |-> hit[1][2], memo |-> memo]
        ELSE LET r == IF Len(Kids(e)) = 0 THEN [e |-> RenameE(e, sg), memo |-> memo]
                      ELSE LET ks == CMapKids(Kids(e), sg, memo) IN
                           [e |-> WithKids(e, ks.es), memo |-> ks.memo]
             IN  [e |-> r.e, memo |-> Append(r.memo, << key, r.e >>)]
CMapKids(ks, sg, memo) ==
    IF Len(ks) = 0 THEN [es |-> << >>, memo |-> memo]
    ELSE LET h == CMapE(Head(ks), sg, memo)
             t == CMapKids(Tail(ks), sg, h.memo)
         IN  [es |-> << h.e >> \o t.es, memo |-> t.memo]
RECURSIVE CMapStream(_, _, _, _)
CMapStream(S, k, sg, memo) ==
    IF k > Len(S) THEN << >>
    ELSE LET s == S[k] IN
         IF s.kind = "Nop" THEN << s >> \o CMapStream(S, k + 1, sg, memo)
         ELSE LET l == CMapE(s.lhs, sg, memo)
                  r == CMapE(s.rhs, sg, l.memo)
                  c == IF s.kind = "CondAssign" THEN CMapE(s.cond, sg, r.memo)
                       ELSE [e |-> s.cond, memo |-> r.memo]
              IN  << [s EXCEPT !.lhs = l.e, !.rhs = r.e, !.cond = c.e] >>
                  \o CMapStream(S, k + 1, sg, c.memo)
DisImplCachedResult(SA, SB, flt) == CMapStream(SB, 1, DisImplMap(SA, SB, flt, FALSE), << >>)

\* --- utils.get_dot_dependency_graph: closure, then in-place reduction -------
\* dep_graph is a dict keyed by the statements that have dependencies, in list order
RECURSIVE ReduceInPlace(_, _, _)
ReduceInPlace(keys, k, g) ==
    IF k > Len(keys) THEN g
    ELSE LET s1 == keys[k]
             snap == g[s1]
             gone == UNION {(IF s2 \in DOMAIN g THEN g[s2] ELSE {}) : s2 \in snap}
         IN  ReduceInPlace(keys, k + 1, [g EXCEPT ![s1] = snap \ gone])
DotImplEdges(S) ==
    LET idx  == SelectSeq([j \in 1..Len(S) |-> j], LAMBDA j : Len(S[j].deps) > 0)
        keys == [j \in 1..Len(idx) |-> S[idx[j]].id]
        C    == TC(DepEdges(S))
        g0   == [s1 \in SeqToSet(keys) |-> {p[2] : p \in {q \in C : q[1] = s1}}]
        g    == ReduceInPlace(keys, 1, g0)
    IN  UNION {{<< s1, s2 >> : s2 \in g[s1]} : s1 \in DOMAIN g}
=============================================================================
