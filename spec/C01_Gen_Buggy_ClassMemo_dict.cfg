CONSTANTS
  HashMode = "real"
  Bug = "ClassMemo"
  Sweeps = {"hsmall"}
  PairDepth = 2
  NearDepth = 2
  DeepDepth = 1
  HierDepth = 3
  XDepth = 1
  SelfDepth = 2
  FormDepth = 2
  HeapDepth = 3
  Wide = FALSE
  EmitCases = FALSE
INIT Init
NEXT Next
INVARIANT DictFindsEqual

CHECK_DEADLOCK FALSE
