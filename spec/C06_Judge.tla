------------------------------ MODULE C06_Judge ------------------------------
(***************************************************************************)
(* Stage (3) for C06: the recorded round trip  e -> str(e) -> parse ->     *)
(* str  is judged against the statement: the text parses, the reparsed     *)
(* tree equals the original once nested sums and products are flattened,   *)
(* the second printed form is identical to the first, and both trees have  *)
(* the same value in every environment of the box.                         *)
(***************************************************************************)
EXTENDS C03_Env, Json, IOUtils
VARIABLES blk, off

Recs == ndJsonDeserialize(IOEnv.TRACE_FILE)
BS == 64
NB == (Len(Recs) + BS - 1) \div BS
Init == blk \in 0..(NB - 1) /\ off = 0
Next == off < BS - 1 /\ off' = off + 1 /\ UNCHANGED blk
Idx == blk * BS + off + 1

\* flatten nested sums/products; constants compared by value (Python ==)
RECURSIVE Norm(_)
NormKids(e) == [i \in 1..Len(Kids(e)) |-> Norm(Kids(e)[i])]
Splice(kind, ks) ==
    LET RECURSIVE Go(_)
        Go(i) == IF i > Len(ks) THEN << >>
                 ELSE (IF ks[i].t = kind THEN ks[i].c ELSE << ks[i] >>) \o Go(i + 1)
    IN Go(1)
Norm(e) ==
    IF e.t = "Const" THEN
        (IF IsNum(e.v) THEN [t |-> "Const", v |-> [k |-> "num", n |-> e.v.n, d |-> e.v.d]] ELSE e)
    ELSE IF e.t \in {"Sum", "Product"} THEN [t |-> e.t, c |-> Splice(e.t, NormKids(e))]
    ELSE WithKids(e, NormKids(e))

ValueClause(e, e2) ==
    \A i \in 1..Len(Envs) :
        LET a == Eval(e, Envs[i]) b == Eval(e2, Envs[i]) IN
        IsUnrep(a) \/ IsUnrep(b) \/ (IsErr(a) /\ IsErr(b)) \/ (IsNum(a) /\ IsNum(b) /\ ValEq(a, b))
        \/ (~IsNum(a) /\ ~IsErr(a) /\ ~IsNum(b) /\ ~IsErr(b) /\ ValEq(a, b))

Clauses(rec) ==
    IF rec.p.r = "err" THEN << "parse-error" >>
    ELSE IF rec.p.r # "ok" THEN << "SKIP" >>
    ELSE (IF Norm(rec.p.e) # Norm(rec.e) THEN << "tree" >> ELSE << >>)
      \o (IF rec.s2 # rec.s1 THEN << "text" >> ELSE << >>)
      \o (IF ~ValueClause(rec.e, rec.p.e) THEN << "value" >> ELSE << >>)

Report ==
    Idx <= Len(Recs) =>
      LET rec == Recs[Idx] cl == Clauses(rec) IN
      cl = << >> \/ PrintT(ToJson([id |-> rec.id, cl |-> cl]))
=============================================================================
