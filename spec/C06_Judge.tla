------------------------------ MODULE C06_Judge ------------------------------
(***************************************************************************)
(* Stage (3) for C06: the recorded round trip  e -> str(e) -> parse ->     *)
(* str  is judged against the statement: the text parses, the reparsed     *)
(* tree equals the original once nested sums and products are flattened,   *)
(* the second printed form is identical to the first, and both trees have  *)
(* the same value in every environment of the box.                         *)
(***************************************************************************)
EXTENDS C06_Model, Json, IOUtils
VARIABLES blk, off

Recs == ndJsonDeserialize(IOEnv.TRACE_FILE)
BS == 64
NB == (Len(Recs) + BS - 1) \div BS
Init == blk \in 0..(NB - 1) /\ off = 0
Next == off < BS - 1 /\ off' = off + 1 /\ UNCHANGED blk
Idx == blk * BS + off + 1

Clauses(rec) == RoundTripClauses(rec.e, rec.p, rec.s2 = rec.s1)

\* drift: the code's observable intermediates against the transcription's prediction
Drift(rec) ==
    LET toks == Stringify(rec.e) IN
    IF ~Printable(toks) \/ rec.p.r = "noprint" THEN << >>
    ELSE (IF rec.toks # toks THEN << "printed-tokens" >> ELSE << >>)
      \o (LET p == Parse(rec.toks) IN
          IF rec.p.r = "ok" /\ p.ok THEN (IF p.e # rec.p.e THEN << "parsed-tree" >> ELSE << >>)
          ELSE IF rec.p.r = "err" /\ ~p.ok THEN << >>
          ELSE IF rec.p.r = "unser" THEN << >> ELSE << "parse-outcome" >>)

Report ==
    Idx <= Len(Recs) =>
      LET rec == Recs[Idx] cl == Clauses(rec) dr == Drift(rec) IN
      /\ (cl = << >> \/ PrintT(ToJson([id |-> rec.id, cl |-> cl])))
      /\ (dr = << >> \/ PrintT(ToJson([id |-> rec.id, drift |-> dr])))
=============================================================================
