------------------------------ MODULE C08_Subst ------------------------------
(***************************************************************************)
(* M-layer for C08: what "substituting simultaneously" means, written from *)
(* the statement of the property and not from pymbolic's source.           *)
(*                                                                         *)
(* A substitution map sg is a sequence of entries                          *)
(*    [kf |-> "name", name |-> "x",  val |-> tree]    key given as a name   *)
(*    [kf |-> "expr", key  |-> tree, val |-> tree]    key given as a        *)
(*                        Variable, Subscript or Lookup node               *)
(* (a Python dict: keys pairwise different, order without meaning).        *)
(*                                                                         *)
(*   Hit(node, sg)     the entry that applies to a node (0: none): a key    *)
(*                     given as an expression is found by pymbolic's ==     *)
(*                     (Norm: constants compare by numeric value), and     *)
(*                     takes precedence over a key given as a name          *)
(*   Subst(e, sg)      simultaneous, non-recursive, outermost-first         *)
(*   Touched(e, sg)    the subtree contains something to replace            *)
(*   MustSame(e, sg)   the maximal positions that contain nothing to        *)
(*                     replace and are not below a node replaced wholesale  *)
(*   Rename / EnvOf    the right-hand side of the substitution lemma:       *)
(*        Eval(Subst(e, sg), env) = Eval(Rename(e, sg), EnvOf(sg, env))     *)
(*     every replaced *name* keeps its Variable node and is re-bound in the *)
(*     environment to the value of its replacement in the ORIGINAL          *)
(*     environment; every replaced Subscript / Lookup node is renamed to a  *)
(*     fresh variable bound likewise.  Where the aggregate is a variable    *)
(*     bound to a tuple and only ever read through the key node, the       *)
(*     stronger aggregate-update form AggLemma holds as well.              *)
(*   Lower(e)          slices have no evaluator; a Slice is an injective    *)
(*                     constructor of its parts over all environments, so   *)
(*                     it is compared as the tagged tuple of its parts      *)
(***************************************************************************)
EXTENDS Eval

NameEntry(n, v) == [kf |-> "name", name |-> n, val |-> v]
ExprEntry(k, v) == [kf |-> "expr", key |-> k, val |-> v]

\* ---- pymbolic's == on trees: same classes, constants by numeric value ----
NormVal(v) == IF IsNum(v) THEN [k |-> "num", n |-> v.n, d |-> v.d] ELSE v
RECURSIVE Norm(_)
Norm(e) == IF e.t = "Const" THEN [t |-> "Const", v |-> NormVal(e.v)]
           ELSE WithKids(e, [i \in 1..Len(Kids(e)) |-> Norm(Kids(e)[i])])
PyEqT(a, b) == Norm(a) = Norm(b)

SetMax(S) == CHOOSE m \in S : \A o \in S : o <= m

\* ---- which entry applies to a node ----------------------------------------
KeyKinds == {"Var", "Sub", "Look"}
ExprHits(node, sg) == { i \in 1..Len(sg) : sg[i].kf = "expr" /\ sg[i].key.t = node.t
                                              /\ PyEqT(sg[i].key, node) }
NameHits(n, sg) == { i \in 1..Len(sg) : sg[i].kf = "name" /\ sg[i].name = n }
Hit(node, sg) ==
    IF node.t \in KeyKinds /\ ExprHits(node, sg) # {} THEN SetMax(ExprHits(node, sg))
    ELSE IF node.t = "Var" /\ NameHits(node.name, sg) # {} THEN SetMax(NameHits(node.name, sg))
    ELSE 0

\* ---- simultaneous substitution -----------------------------------------------
RECURSIVE Subst(_, _)
Subst(e, sg) ==
    LET h == Hit(e, sg) IN
    IF h # 0 THEN sg[h].val           \* inserted as is: not substituted again
    ELSE WithKids(e, [i \in 1..Len(Kids(e)) |-> Subst(Kids(e)[i], sg)])

RECURSIVE Touched(_, _)
Touched(e, sg) == Hit(e, sg) # 0 \/ \E i \in 1..Len(Kids(e)) : Touched(Kids(e)[i], sg)

\* ---- positions -------------------------------------------------------------
RECURSIVE Paths(_), At(_, _)
Paths(e) == { << >> } \cup
            UNION { { << i >> \o p : p \in Paths(Kids(e)[i]) } : i \in 1..Len(Kids(e)) }
At(e, p) == IF Len(p) = 0 THEN e ELSE At(Kids(e)[p[1]], Tail(p))
Prefixes(p) == { SubSeq(p, 1, n) : n \in 0..Len(p) }
ProperPrefixes(p) == { SubSeq(p, 1, n) : n \in 0..(Len(p) - 1) }

\* every proper ancestor is traversed (touched, but not replaced wholesale) and
\* the subtree itself contains nothing to replace
RECURSIVE MustSameFrom(_, _, _)
MustSameFrom(e, sg, p) ==
    IF ~Touched(e, sg) THEN { p }
    ELSE IF Hit(e, sg) # 0 THEN {}
    ELSE UNION { MustSameFrom(Kids(e)[i], sg, Append(p, i)) : i \in 1..Len(Kids(e)) }
MustSame(e, sg) == MustSameFrom(e, sg, << >>)

\* ---- the substitution lemma ---------------------------------------------------
FreshName(i) == IF i = 1 THEN "_k1" ELSE IF i = 2 THEN "_k2" ELSE IF i = 3 THEN "_k3" ELSE "_k4"
RECURSIVE Rename(_, _)
Rename(e, sg) ==
    LET h == Hit(e, sg) IN
    IF h # 0 /\ e.t = "Var" THEN e
    ELSE IF h # 0 THEN V(FreshName(h))
    ELSE WithKids(e, [i \in 1..Len(Kids(e)) |-> Rename(Kids(e)[i], sg)])

BoundNames(sg) ==
    { sg[i].name : i \in { j \in 1..Len(sg) : sg[j].kf = "name" } } \cup
    { sg[i].key.name : i \in { j \in 1..Len(sg) : sg[j].kf = "expr" /\ sg[j].key.t = "Var" } }
FreshIdx(sg) == { i \in 1..Len(sg) : sg[i].kf = "expr" /\ sg[i].key.t \in {"Sub", "Look"} }
EnvOf(sg, env) ==
    [ n \in DOMAIN env \cup BoundNames(sg) \cup { FreshName(i) : i \in FreshIdx(sg) } |->
        IF n \in BoundNames(sg) THEN Eval(sg[Hit(V(n), sg)].val, env)
        ELSE IF \E i \in FreshIdx(sg) : FreshName(i) = n
             THEN Eval(sg[CHOOSE i \in FreshIdx(sg) : FreshName(i) = n].val, env)
        ELSE env[n] ]

\* ---- a dict as an argument object --------------------------------------------------
\* the set of its (key, value) pairs up to pymbolic's ==; a key the dict already has
NormEntry(en) == [kf |-> en.kf, key |-> (IF en.kf = "name" THEN V(en.name) ELSE Norm(en.key)),
                  val |-> Norm(en.val)]
EntrySet(m) == { NormEntry(m[i]) : i \in 1..Len(m) }
SameDict(seen, m) == Len(seen) = Len(m) /\ EntrySet(seen) = EntrySet(m)

\* a key the dict already has (a caller does not write the same key twice in one call:
\* which of the two would win is not part of the statement)
HasKey(m, en) ==
    IF en.kf = "name" THEN en.name \in BoundNames(m)
    ELSE ExprHits(en.key, m) # {} \/ (en.key.t = "Var" /\ en.key.name \in BoundNames(m))
Fits(m, kw) == \A i \in 1..Len(kw) : ~HasKey(m, kw[i])

\* ---- slices -------------------------------------------------------------------
IdxHasSlice(b) == b.t = "Slice" \/ (b.t = "Tup" /\ \E i \in 1..Len(b.c) : b.c[i].t = "Slice")
RECURSIVE Lower(_)
Lower(e) ==
    IF e.t = "None" THEN KI(-77)
    ELSE IF e.t = "Slice" THEN N("Tup", << KI(-78) >> \o [i \in 1..Len(e.c) |-> Lower(e.c[i])])
    ELSE IF e.t = "Sub" /\ IdxHasSlice(e.b) THEN N("Tup", << KI(-79), Lower(e.a), Lower(e.b) >>)
    ELSE WithKids(e, [i \in 1..Len(Kids(e)) |-> Lower(Kids(e)[i])])

LemmaLhs(res, env) == Eval(Lower(res), env)
LemmaRhsTree(e, sg) == Lower(Rename(e, sg))
LemmaRhs(e, sg, env) == Eval(LemmaRhsTree(e, sg), EnvOf(sg, env))

\* ---- aggregate-update form for a key  t[j]  (t a variable bound to a tuple) ----
RECURSIVE OnlyUnderKey(_, _, _)
OnlyUnderKey(e, tn, key) ==
    IF PyEqT(e, key) THEN TRUE
    ELSE IF e.t = "Var" THEN e.name # tn
    ELSE \A i \in 1..Len(Kids(e)) : OnlyUnderKey(Kids(e)[i], tn, key)

Without(sg, i) == SubSeq(sg, 1, i - 1) \o SubSeq(sg, i + 1, Len(sg))
AggApplicable(e, sg, i, env) ==
    /\ sg[i].kf = "expr" /\ sg[i].key.t = "Sub"
    /\ sg[i].key.a.t = "Var" /\ sg[i].key.b.t = "Const" /\ sg[i].key.b.v.k = "int"
    /\ LET tn == sg[i].key.a.name j == sg[i].key.b.v.n v == Eval(sg[i].val, env) IN
       /\ tn \in DOMAIN env /\ env[tn].k = "tup"
       /\ j >= 0 /\ j < Len(env[tn].items)
       /\ tn \notin BoundNames(Without(sg, i))
       /\ ~IsErr(v) /\ ~IsUnrep(v)
       /\ OnlyUnderKey(e, tn, sg[i].key)
AggRhs(e, sg, i, env) ==
    LET tn == sg[i].key.a.name j == sg[i].key.b.v.n
        rest == Without(sg, i)
        env1 == EnvOf(rest, env)
        upd == [env[tn] EXCEPT !.items = [@ EXCEPT ![j + 1] = Eval(sg[i].val, env)]]
        env2 == [n \in DOMAIN env1 |-> IF n = tn THEN upd ELSE env1[n]]
    IN Eval(Lower(Rename(e, rest)), env2)
=============================================================================
