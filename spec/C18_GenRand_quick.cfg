CONSTANT Tier = "quick"
CONSTANT Bug = "none"
INIT Init
NEXT Next
INVARIANT ModelHolds
INVARIANT Emit
CHECK_DEADLOCK FALSE
