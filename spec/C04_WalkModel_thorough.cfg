CONSTANTS
  Bug = "none"
  MaxN = 6
  MaxNAll = 3
  MaxF = 2
INIT Init
NEXT Next
CONSTRAINT Bounded
INVARIANT StackIsPath
INVARIANT PendingSane
INVARIANT Sound
INVARIANT FoldAgrees
INVARIANT MutEquiv
INVARIANT AllSeqs
CHECK_DEADLOCK FALSE
