------------------------------- MODULE C10_Neg -------------------------------
(***************************************************************************)
(* Negative controls of the refinement check of C10: over a small set of   *)
(* expressions "DiffRules refines DEval" is a hard invariant.  It holds    *)
(* for the faithful transcription (Bug = "none") and must be reported      *)
(* violated for every seeded transcription error (C10_Neg_<bug>.cfg).      *)
(* (The two named deviations of the real code are not in the set.)         *)
(* Every expression is taken in each of its sharing variants (which        *)
(* repeated subtrees are one object): the faithful transcription does not  *)
(* look at object identity, the seeded "product_identity" does.            *)
(***************************************************************************)
EXTENDS C10_Diff
VARIABLES tree, share

x == V("x")  y == V("y")
Fn(nm, u) == MCall(nm, << u >>)
Trees == {
  B("Quotient", x, y), B("Quotient", y, x), B("Quotient", x, N("Sum", << x, KI(1) >>)),
  B("Power", x, KI(3)), B("Power", x, y), B("Power", y, x), B("Power", x, x),
  Fn("sin", x), Fn("cos", N("Product", << KI(2), x >>)), Fn("tan", x), Fn("tanh", x), Fn("log", x),
  Fn("fabs", x), MCall("copysign", << KI(1), x >>), IfE(Cmp(x, "<", KI(0)), N("Product", << KI(-1), x >>), x),
  CSE0(Fn("exp", N("Product", << x, x >>))), N("Product", << x, y, x >>),
  N("Product", << N("Sum", << x, y >>), N("Sum", << x, y >>) >>),
  N("Sum", << x, Fn("sinh", x), Fn("f", x) >>), Call(V("f"), << x >>),
  \* round 4: node kinds without a rule (refused by the faithful rules; "leaf_fallback_zero" answers 0)
  N("Product", << x, CallKw(V("f"), << x >>, << KwArg("k1", KI(1)) >>) >>),
  B("Quotient", y, CallKw(V("f"), << KI(2) >>, << KwArg("k2", x) >>)),
  N("Sum", << x, V("<NaN>") >>), N("Product", << x, Look(x, "p") >>),
  \* ... where 0 happens to be the true derivative the seeded rule is not wrong
  N("Sum", << x, Look(V("o1"), "p") >>) }

Init == tree \in Trees /\ share \in ShareVariants(tree, x, TRUE)
Next == UNCHANGED << tree, share >>
Refines ==
    \A k \in 1..Len(NSs) :
        LET pred == PredictedX(tree, x, Cx(NSs[k], share, NoCache)) IN
        JudgeOut(tree, x, NSs[k], pred).v \in {"OK", "SKIP"}
=============================================================================
