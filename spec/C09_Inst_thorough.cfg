CONSTANT Tier = "thorough"
CONSTANT Buggy = "none"
INIT Init
NEXT Next
INVARIANT InstInvHolds
INVARIANT Emit
CHECK_DEADLOCK FALSE
