------------------------------- MODULE C17_Gen -------------------------------
(***************************************************************************)
(* Stage (1) for C17.  TLC                                                 *)
(*  (a) enumerates schedules: an instantiation (two catalogue entries, a   *)
(*      pickle protocol, one interpreter configuration per process) and a  *)
(*      history of Build / Hash / Pickle / Unpickle / Eq / DictGet /       *)
(*      ContGet /                                                          *)
(*      Digest commands issued to the processes - every history up to the  *)
(*      instantiation's depth, one representative per class of histories   *)
(*      that differ only in the order of independent commands of different *)
(*      processes (the real processes share nothing but the pickles) -     *)
(*      followed by a closing audit (for every unpickled object: build     *)
(*      the same thing from source there and compare, hash, look up,       *)
(*      digest, call);                                                     *)
(*  (b) executes every schedule on the S-layer machine C17_Pickle with an  *)
(*      implementation model answering the calls (Impl* below: what        *)
(*      "state is the field tuple only" means) and checks the invariants   *)
(*      of C17_Pickle in every state; the Buggy_* switches make the        *)
(*      implementation model wrong in the ways the property guards         *)
(*      against and MUST make TLC report a violated invariant;             *)
(*  (c) prints every complete schedule as one JSON line for the driver.    *)
(***************************************************************************)
EXTENDS C17_Pickle, Json

CONSTANTS Tier,                    \* "quick" | "thorough" | "sim" | "neg" | "neg2"
          Buggy_PickleCarriesHash, \* pickles carry the cached hash, unpickling restores it
          Buggy_DigestUsesProcess, \* the persistent key depends on who computes it
          Buggy_CompiledLosesVars, \* a compiled expression forgets its listed variables
          \* (round 2)
          Buggy_SetstateByPosition, \* unpickling restores the field values under the names of the
                                    \* positional parameters instead of the field names
          Buggy_ArgsBySetOrder,     \* unlisted arguments of a compiled expression that uses a context
                                    \* name come in the process's own (hash seed) order
          Buggy_DigestSkipsShared,  \* the persistent key walks an object met before only once
          \* (round 5)
          \* (round 7)
          Buggy_OptionsCrossed,     \* the decorator reads the wrong one of its options: it installs its cached
                                    \* hash iff init=True - a class that writes its own __init__ is left with
                                    \* Expression.__hash__, which cannot cache where dataclasses are frozen
          Buggy_LegacyHashAssigns,  \* Expression.__hash__ caches by plain attribute assignment: it raises on an
                                    \* instance of a frozen dataclass (every process without -O)
          Buggy_VarsByName          \* the pickle of a compiled expression carries the NAMES of its listed
                                    \* variables; the consumer re-makes them as plain variables, which are not
                                    \* the leaves of an expression written over a leaf subclass
VARIABLES hist, inst, phase, plan

vars == << heap, hfun, msgs, digs, obs, hist, inst, phase, plan >>

(***************************************************************************)
(* Interpreter configurations and instantiations                           *)
(***************************************************************************)
\* seed "S" is derived from VERIF_SEED by the driver
Cfgs == << [seed |-> "0", opt |-> 0], [seed |-> "0", opt |-> 1],
           [seed |-> "1", opt |-> 0], [seed |-> "1", opt |-> 1],
           [seed |-> "4242", opt |-> 0], [seed |-> "4242", opt |-> 1],
           [seed |-> "S", opt |-> 0], [seed |-> "S", opt |-> 1] >>
\* (producer, consumer, third process) configurations: seeds and -O both differ,
\* only the seed differs, only -O differs
CfgTuples == << << 1, 4, 5 >>, << 3, 2, 8 >>, << 5, 8, 1 >>, << 7, 6, 3 >>, << 4, 7, 2 >>,
                << 8, 3, 6 >>, << 1, 3, 5 >>, << 6, 2, 4 >>, << 1, 2, 3 >>, << 6, 5, 1 >>,
                << 2, 5, 7 >>, << 4, 1, 8 >> >>
NCT == Len(CfgTuples)
Protos == 0..5

Twins == { << i, i >> : i \in CatIds }
Variants == { << 3, 4 >>, << 4, 5 >>, << 3, 6 >>, << 22, 23 >>, << 22, 24 >>, << 16, 17 >>,
              << 26, 27 >>, << 41, 42 >>, << 41, 43 >>, << 50, 51 >>, << 59, 60 >>, << 28, 29 >>,
              << 5, 3 >>, << 23, 22 >>, << 42, 41 >>, << 1, 2 >>, << 48, 55 >>, << 33, 34 >>,
              << 63, 67 >>, << 11, 71 >>, << 71, 11 >>, << 72, 73 >>, << 73, 72 >>,
              << 3, 76 >>, << 76, 3 >>, << 74, 75 >>, << 17, 113 >>, << 113, 17 >>, << 115, 116 >>, << 116, 115 >>,
              \* (round 2) spelt out / defaults omitted; tree / DAG / parsed
              << 79, 80 >>, << 80, 79 >>, << 78, 81 >>, << 78, 90 >>,
              << 98, 97 >>, << 97, 98 >>, << 98, 99 >>, << 99, 98 >>, << 101, 100 >>, << 100, 101 >>,
              << 101, 102 >>, << 104, 103 >>, << 103, 104 >>, << 106, 105 >>, << 105, 106 >>,
              << 108, 107 >>, << 107, 108 >>, << 109, 110 >>,
              \* (round 5) other leaf class / listed by name, as objects / listed, unlisted
              << 117, 118 >>, << 120, 121 >>, << 123, 124 >>, << 124, 123 >>, << 125, 127 >>, << 129, 128 >>,
              \* (round 7) other field value below a hand-written __init__ / other leaf class
              << 136, 138 >>, << 140, 147 >>, << 155, 162 >> }
\* entries whose histories are enumerated deeper: a stock node with strings, a
\* user dataclass node, a legacy node, a legacy subclass of a dataclass node,
\* a node that does not cache its hash, a compiled expression
Deep == {3, 22, 41, 48, 50, 46, 56, 68, 70, 74, 78, 84, 91, 98, 117, 125, 132, 136, 142, 148, 155}

\* quick tier: histories one step deeper for one or two stock nodes per mechanism
\* (all stock nodes share the generated pickling code) and for everything that
\* is not a stock dataclass node
\* (of the round-2 entries: one per class / per way of building)
Rep == {1, 3, 7, 16, 19, 22, 25, 26, 28, 32, 34, 38, 39, 40} \cup 41..77
       \cup {78, 79, 84, 91, 94, 98, 101, 104}
       \cup {117, 119, 123, 125, 126, 131, 132, 134}
       \cup {136, 142, 155}
\* (round 7) one entry per way a user class can be declared (init x where its hash comes from,
\* every kind of base under a hand-written __init__); each goes through EVERY configuration
\* tuple (which of producer / consumer runs under -O, which hash seeds), not only the spread ones
\* (the default declaration, init and hash left on, is what the rest of the catalogue is made of)
OptionReps == {136, 139, 141, 142, 144, 146, 148, 157, 159}
ASSUME \A init \in BOOLEAN : \A src \in {"gen", "own", "inherit", "legacy"} :
          << init, src >> = << TRUE, "gen" >> \/ \E i \in OptionReps : \E cls \in UserClassesIn(Cat[i].e) \cap DataclassUser :
             UserDecl(cls).init = init /\ HashSource(cls) = src
ASSUME \A b \in {"Expression", "plain", "stock", "user"} :
          \E i \in OptionReps : \E cls \in UserClassesIn(Cat[i].e) \cap DataclassUser :
             ~UserDecl(cls).init /\ UserDecl(cls).base = b
ASSUME \A b \in {"Expression", "plain"} :
          \E i \in OptionReps : \E cls \in UserClassesIn(Cat[i].e) \cap DataclassUser :
             HashSource(cls) = "legacy" /\ UserDecl(cls).base = b

Mk(pr, proto, ct, np, d, wrap) ==
    [ta |-> pr[1], tb |-> pr[2], proto |-> proto, cfg |-> CfgTuples[ct], np |-> np, d |-> d,
     wrap |-> wrap]

\* a deterministic spread of protocols / configuration tuples over the pairs
Spread(pr, k) == (pr[1] * 7 + pr[2] * 3 + k)
Ct(n) == (n % NCT) + 1
\* entries that can be dict keys / set elements
Keyable == { i \in CatIds : IsHashable(i) /\ ~IsCompiled(i) }
Tw(i) == << i, i >>

Insts ==
    CASE Tier = "quick" ->
           { Mk(Tw(i), Spread(Tw(i), 0) % 6, Ct(Spread(Tw(i), 0)), 2, IF i \in Rep THEN 5 ELSE 4, "") :
                i \in CatIds }
      \cup { Mk(pr, Spread(pr, 1) % 6, Ct(Spread(pr, 2)), 2, 4, "") : pr \in Variants }
      \cup { Mk(pr, (Spread(pr, 0) + 3) % 6, Ct(Spread(pr, 5)), 2, 3, "") : pr \in Twins }
      \cup { Mk(Tw(i), (i + 1) % 6, Ct(i + 5), 2, 6, "") : i \in {3, 48} }
      \cup { Mk(Tw(i), (i + 2) % 6, Ct(i + 7), 3, 5, "") : i \in {3, 48} }
      \cup { Mk(Tw(i), (i + 4) % 6, Ct(i + 3), 2, 4, IF i % 2 = 0 THEN "dict" ELSE "set") : i \in Keyable }
      \cup { Mk(Tw(i), (i + 5) % 6, Ct(i + 8), 2, 5, w) : i \in {3, 50}, w \in {"dict", "set"} }
      \cup { Mk(Tw(i), (i + ct) % 6, ct, 2, 4, "") : i \in OptionReps, ct \in 1..NCT }
      [] Tier = "thorough" ->
           { Mk(pr, proto, Ct(Spread(pr, proto)), 2, 5, "") : pr \in Twins, proto \in Protos }
      \cup { Mk(pr, proto, Ct(Spread(pr, proto)), 2, 5, "") : pr \in Variants, proto \in {0, 2, 5} }
      \cup { Mk(Tw(i), proto, Ct(i + 5 * proto), 2, 6, "") : i \in Deep, proto \in {1, 3, 4} }
      \cup { Mk(Tw(i), (i + 1) % 6, Ct(i + 1), 2, 7, "") : i \in {3, 48} }
      \cup { Mk(Tw(i), (i + k) % 6, Ct(i + 7 * k), 3, 5, "") : i \in Deep, k \in {0, 3} }
      \cup { Mk(Tw(3), 4, 2, 3, 6, "") }
      \cup { Mk(Tw(i), proto, Ct(i + proto), 2, 4, w) : i \in Keyable, proto \in {0, 3, 5}, w \in {"dict", "set"} }
      \cup { Mk(Tw(i), (i + 2) % 6, Ct(i + 4), 2, 6, w) : i \in {3, 41, 50}, w \in {"dict", "set"} }
      \cup { Mk(Tw(i), (i + ct) % 6, ct, 2, 5, "") : i \in OptionReps, ct \in 1..NCT }
      \cup { Mk(Tw(i), (i + ct + 3) % 6, ct, 2, 4, w) : i \in OptionReps, ct \in 1..NCT, w \in {"dict", "set"} }
      [] Tier = "sim" ->
           UNION { { Mk(pr, proto, ct, 3, 14, w) :
                       proto \in Protos, ct \in 1..NCT,
                       w \in (IF pr[1] \in Keyable THEN Wraps ELSE {""}) } : pr \in Twins \cup Variants }
      [] Tier = "neg" -> { Mk(Tw(3), 2, 1, 2, 4, ""), Mk(Tw(3), 2, 1, 2, 4, "dict"), Mk(Tw(59), 4, 2, 2, 3, ""),
                          Mk(Tw(136), 3, 1, 2, 3, ""), Mk(Tw(155), 4, 2, 2, 3, "") }
      [] Tier = "neg2" -> { Mk(Tw(78), 2, 1, 2, 3, ""), Mk(Tw(91), 4, 2, 2, 3, ""), Mk(<< 98, 97 >>, 2, 1, 2, 4, ""),
                           Mk(Tw(126), 3, 3, 2, 3, "") }

(***************************************************************************)
(* Commands (what the driver will be asked to do) - one record shape       *)
(***************************************************************************)
Cmd(a, p, x, y, s, args) == [a |-> a, p |-> p, x |-> x, y |-> y, s |-> s, args |-> args]
CBuild(p, t)      == Cmd("Build", p, t, 0, "", << >>)
CHash(p, o)       == Cmd("Hash", p, o, 0, "", << >>)
CPickle(p, o, pr, w) == Cmd("Pickle", p, o, pr, w, << >>)
CUnpickle(p, m)   == Cmd("Unpickle", p, m, 0, "", << >>)
CEq(p, o1, o2)    == Cmd("Eq", p, o1, o2, "", << >>)
CDictGet(p, k, o) == Cmd("DictGet", p, k, o, "", << >>)
CContGet(p, u, o) == Cmd("ContGet", p, u, o, "", << >>)
CDigest(p, o, kd) == Cmd("Digest", p, o, 0, kd, << >>)
CCall(p, o, args) == Cmd("Call", p, o, 0, "", args)

(***************************************************************************)
(* The implementation model that answers the calls                         *)
(***************************************************************************)
\* process-local hash names: disjoint ranges, so a hash that crossed a process
\* boundary is never right by accident
ModelHash(p, k) == p * 1000 + k
\* does hash() leave the value in the object's _hash_value slot?  (tuples and the
\* user node with its own __hash__ do not cache)
Caches(t) == LET e == Cat[t].e IN
             ~(e.t = "Tup" \/ (e.t = "User" /\ e.cls \in DataclassUser /\ HashSource(e.cls) = "own"))
\* (round 7) dataclass nodes are frozen in a process started without -O.  The legacy
\* Expression.__hash__ has to cache without assigning an attribute; one that assigns
\* (Buggy_LegacyHashAssigns) raises there for every object that contains an instance of a class
\* whose hash ends at it (hash, ==, dict and set lookups all hash): the hash=False classes without
\* an own hash, and under Buggy_OptionsCrossed also the ones that write their own __init__
\* (Buggy_OptionsCrossed alone only changes WHICH hash such a class gets - no promise breaks).
Frozen(p) == Cfgs[inst.cfg[p]].opt = 0
ImplCannotHashTree(p, t) ==
    /\ Buggy_LegacyHashAssigns /\ Frozen(p)
    /\ \E cls \in UserClassesIn(Cat[t].e) \cap DataclassUser : ~HashProvided(cls, Buggy_OptionsCrossed)
ImplCannotHash(p, o) == ImplCannotHashTree(p, heap[p][o].tree)
\* an unpickled object whose field values sit under the wrong names is another object
Mangled(p, o) == /\ Buggy_SetstateByPosition /\ heap[p][o].origin = "unpickled"
                 /\ UserClassesIn(Cat[heap[p][o].tree].e) \cap ReorderedUser # {}
ImplH(p, o) == IF heap[p][o].cached # 0 THEN heap[p][o].cached
               ELSE ModelHash(p, Canon(heap[p][o].tree)) + (IF Mangled(p, o) THEN 500 ELSE 0)
SlotAfter(p, o) == IF Caches(heap[p][o].tree) THEN ImplH(p, o) ELSE 0
\* Python's dict / set lookup and the generated __eq__: same hash, then ==
ImplSame(p, o1, o2) == ImplH(p, o1) = ImplH(p, o2)
                       /\ ObjPyEq(heap[p][o1].tree, heap[p][o2].tree)
                       /\ Mangled(p, o1) = Mangled(p, o2)
ImplDigest(p, o, kind) ==
    LET s == StructFor(kind, heap[p][o].tree) IN
    IF Buggy_DigestUsesProcess THEN 100 * p + s
    ELSE IF Buggy_DigestSkipsShared /\ kind = "phw" /\ Cat[heap[p][o].tree].mode = "shared" THEN 50 + s
    ELSE s
\* the listed variables of entry t that the expression writes as instances of a leaf subclass
ListedSubLeaves(t) == {u \in VarLeaves(Cat[t].e) : IsSubLeaf(u) /\ LeafName(u) \in SeqToSet(Cat[t].vars)}
\* re-making the compiled function from (expression, NAMES of the listed variables): a listed
\* name that the expression gives to a subclass leaf names another variable, the leaf is then
\* collected a second time among the unlisted ones - no function has one argument name twice
ImplRecompiles(t) == ~(Buggy_VarsByName /\ IsCompiled(t) /\ ListedSubLeaves(t) # {})
ImplCall(p, o, args) ==
    LET t == heap[p][o].tree IN
    IF Buggy_CompiledLosesVars /\ heap[p][o].origin = "unpickled" /\ Len(Cat[t].vars) > 1
    THEN CompiledValue(t, << args[2], args[1] >> \o SubSeq(args, 3, Len(args)))
    \* "the process's own order": processes with an even number see the unlisted ones reversed
    ELSE IF Buggy_ArgsBySetOrder /\ UsesCtx(t) /\ Len(Cat[t].rest) >= 2 /\ p % 2 = 0
    THEN LET n == Len(args)  nl == Len(Cat[t].vars) IN
         CompiledValue(t, [k \in 1..n |-> IF k <= nl THEN args[k] ELSE args[n + nl + 1 - k]])
    ELSE CompiledValue(t, args)

Do(c) ==
    IF /\ c.a \in {"Hash", "Eq", "DictGet", "ContGet"}
       /\ (ImplCannotHash(c.p, c.x) \/ (c.a # "Hash" /\ ImplCannotHash(c.p, c.y)))
    THEN Raised(c.p, c.a) ELSE
    CASE c.a = "Build"    -> Build(c.p, c.x, TRUE, 0)
      [] c.a = "Hash"     -> Hash(c.p, c.x, ImplH(c.p, c.x), SlotAfter(c.p, c.x))
      \* (making {o: 1} / frozenset({o}) hashes o, and so does re-making it from the pickle)
      [] c.a = "Pickle"   -> Pickle(c.p, c.x, c.y, c.s, ~(c.s # "" /\ ImplCannotHash(c.p, c.x)),
                                    IF Buggy_PickleCarriesHash THEN heap[c.p][c.x].cached ELSE 0)
      \* a carried hash is restored; rebuilding a container hashes its new key
      [] c.a = "Unpickle" -> Unpickle(c.p, c.x, ImplRecompiles(msgs[c.x].tree)
                                                 /\ ~(msgs[c.x].wrap # "" /\ ImplCannotHashTree(c.p, msgs[c.x].tree)),
                                      IF msgs[c.x].carried # 0 THEN msgs[c.x].carried
                                      ELSE IF msgs[c.x].wrap # "" /\ Caches(msgs[c.x].tree)
                                           THEN ModelHash(c.p, Canon(msgs[c.x].tree)) ELSE 0)
      [] c.a = "Eq"       -> Eq(c.p, c.x, c.y, ImplSame(c.p, c.x, c.y),
                                SlotAfter(c.p, c.x), SlotAfter(c.p, c.y))
      [] c.a = "DictGet"  -> DictGet(c.p, c.x, c.y, ImplSame(c.p, c.x, c.y), ImplSame(c.p, c.x, c.y),
                                     SlotAfter(c.p, c.x), SlotAfter(c.p, c.y))
      [] c.a = "ContGet"  -> ContGet(c.p, c.x, c.y, ImplSame(c.p, c.x, c.y),
                                     SlotAfter(c.p, c.x), SlotAfter(c.p, c.y))
      [] c.a = "Digest"   -> Digest(c.p, c.x, c.s, ImplDigest(c.p, c.x, c.s))
      [] c.a = "Call"     -> CallC(c.p, c.x, c.args, ImplCall(c.p, c.x, c.args))

(***************************************************************************)
(* Which commands may extend a history                                     *)
(***************************************************************************)
Active == 1..inst.np
ITrees == {inst.ta, inst.tb}
Objs(p) == DOMAIN heap[p]
BuiltAlready(p, t) == \E o \in Objs(p) : heap[p][o].tree = t /\ heap[p][o].origin = "built"
\* message m was already unpickled by p (p's unpickle commands so far)
Unpickled(p, m) == \E i \in 1..Len(hist) : hist[i].a = "Unpickle" /\ hist[i].p = p /\ hist[i].x = m
NPickles == Len(msgs)
MaxMsgs == IF Tier = "sim" THEN 6 ELSE 3
Involves(p, o1, o2) == heap[p][o1].origin = "unpickled" \/ heap[p][o2].origin = "unpickled"

LocalCmds(p) ==
         { CBuild(p, t) : t \in {u \in ITrees : ~BuiltAlready(p, u)} }
    \cup { CHash(p, o) : o \in {u \in Objs(p) : IsHashable(heap[p][u].tree)} }
    \cup { CPickle(p, o, inst.proto, inst.wrap) : o \in {u \in Objs(p) : NPickles < MaxMsgs} }
    \cup { CUnpickle(p, m) : m \in {k \in DOMAIN msgs : msgs[k].src # p /\ ~Unpickled(p, k)} }
    \cup { CEq(p, pr[1], pr[2]) :
             pr \in {q \in Objs(p) \X Objs(p) : q[1] # q[2] /\ Involves(p, q[1], q[2])} }
    \cup { CDictGet(p, pr[1], pr[2]) :
             pr \in {q \in Objs(p) \X Objs(p) : q[1] # q[2] /\ Involves(p, q[1], q[2])
                                              /\ IsHashable(heap[p][q[1]].tree)} }
    \cup { CContGet(p, pr[1], pr[2]) :
             pr \in {q \in Objs(p) \X Objs(p) : q[1] # q[2] /\ heap[p][q[1]].wrap # ""} }
    \cup (IF Tier = "sim"
          THEN { CDigest(p, o, k) : o \in Objs(p), k \in DigestKinds } ELSE {})

\* One representative per class of histories equal up to swapping adjacent
\* independent commands of different processes: a command of a process with a
\* smaller number than the previous command's may only follow if it depends on
\* it (it unpickles the message that command has just produced).
Canonical(c) ==
    IF hist = << >> THEN c = CBuild(1, inst.ta)
    ELSE LET l == hist[Len(hist)] IN
         c.p >= l.p \/ (c.a = "Unpickle" /\ l.a = "Pickle" /\ c.x = Len(msgs))

Cands == { c \in UNION { LocalCmds(p) : p \in Active } : Canonical(c) }

(***************************************************************************)
(* The closing audit                                                       *)
(***************************************************************************)
Args1 == << 1, 2, 3, 5, -4, 7 >>   Args2 == << 3, -2, 5, -1, 2, 4 >>
ArgsFor(t, a) == SubSeq(a, 1, Len(ArgNames(t)))

\* for the unpickled object o of process q (r: index its reference copy will get)
AuditOne(q, o, r) ==
    LET t == heap[q][o].tree IN
    << CBuild(q, t) >>
    \o (IF IsHashable(t)
        THEN (IF heap[q][o].wrap # "" THEN << CContGet(q, o, r) >> ELSE << >>)
             \o << CHash(q, r), CHash(q, o), CEq(q, o, r), CEq(q, r, o),
                   CDictGet(q, r, o), CDictGet(q, o, r) >>
        ELSE << CEq(q, o, r), CEq(q, r, o) >>)
    \o << CDigest(q, o, "phw"), CDigest(q, r, "phw"), CDigest(q, o, "kb"), CDigest(q, r, "kb") >>
    \o (IF IsCompiled(t)
        THEN << CCall(q, o, ArgsFor(t, Args1)), CCall(q, r, ArgsFor(t, Args1)),
                CCall(q, o, ArgsFor(t, Args2)) >>
        ELSE << >>)
AuditBuilt(p, o) ==
    LET t == heap[p][o].tree IN
    << CDigest(p, o, "phw"), CDigest(p, o, "kb") >>
    \o (IF IsCompiled(t) THEN << CCall(p, o, ArgsFor(t, Args1)) >> ELSE << >>)

AuditProc(p) ==
    LET n == Len(heap[p])
        RECURSIVE Go(_, _)
        Go(o, r) == IF o > n THEN << >>
                    ELSE IF heap[p][o].origin = "unpickled"
                         THEN AuditOne(p, o, r) \o Go(o + 1, r + 1)
                         ELSE AuditBuilt(p, o) \o Go(o + 1, r)
    IN Go(1, n + 1)
AuditPlan ==
    LET RECURSIVE Go(_)
        Go(p) == IF p > inst.np THEN << >> ELSE AuditProc(p) \o Go(p + 1)
    IN Go(1)

(***************************************************************************)
(* Behaviours                                                              *)
(***************************************************************************)
Init == /\ MInit
        /\ inst \in Insts
        /\ hist = << >> /\ phase = "run" /\ plan = << >>

HasUnpickle == \E i \in 1..Len(hist) : hist[i].a = "Unpickle"

Run ==
    /\ phase = "run"
    /\ IF Len(hist) < inst.d /\ Cands # {}
       THEN \E c \in Cands :
              /\ Do(c) /\ hist' = Append(hist, c) /\ UNCHANGED << inst, phase, plan >>
       ELSE \* a history in which no pickle reached another process is the business
            \* of C01; it is not completed
            /\ HasUnpickle
            /\ phase' = "audit" /\ plan' = AuditPlan
            /\ UNCHANGED << heap, hfun, msgs, digs, obs, hist, inst >>
Audit ==
    /\ phase = "audit"
    /\ IF plan = << >>
       THEN phase' = "done" /\ UNCHANGED << heap, hfun, msgs, digs, obs, hist, inst, plan >>
       ELSE /\ Do(Head(plan)) /\ hist' = Append(hist, Head(plan)) /\ plan' = Tail(plan)
            /\ UNCHANGED << inst, phase >>
Next == Run \/ Audit

\* the property, on the model
Inv_NoForeignHash       == NoForeignHash
Inv_UnpickledFindsLocal == UnpickledFindsLocal
Inv_DigestIsStructural  == DigestIsStructural
Inv_NothingRaised       == NothingRaised
\* the conjuncts of UnpickledFindsLocal one by one (negative controls name them)
Inv_HashIsLocal         == HashIsLocal
Inv_EqIsPyEq            == EqIsPyEq
Inv_LookupFinds         == LookupFinds
Inv_CompiledComputes    == CompiledComputes

Emit == phase = "done" =>
          PrintT(ToJson([ta |-> inst.ta, tb |-> inst.tb, proto |-> inst.proto, wrap |-> inst.wrap,
                         cfg |-> inst.cfg, np |-> inst.np, evs |-> hist]))

ASSUME PrintT(ToJson([cat |-> Cat, cfgs |-> Cfgs]))
\* (the negative-control runs skip this: it is the same catalogue)
ASSUME Tier \in {"neg", "neg2"} \/ CatalogueSane
=============================================================================
