------------------------------- MODULE C03_Gen -------------------------------
(***************************************************************************)
(* Stage (1) for C03: TLC enumerates operator programs (every operator x   *)
(* left kind x right kind at depth 1, nested pairs of operators at depth   *)
(* 2), checks on the model whether the transcribed operator methods        *)
(* (Build) preserve the plain computation (Plain) in every environment,    *)
(* reports each design-level failure class, and prints every program for   *)
(* the driver.                                                             *)
(***************************************************************************)
EXTENDS C03_Operators, C03_Env, Json
CONSTANT Tier
VARIABLE prog

x == V("x")  y == V("y")  z == V("z")  ff == V("f")  tt == V("t")  oo == V("o")

ExprKinds == {
  x, N("Sum", << y, z >>), N("Product", << y, z >>), B("Quotient", y, z),
  B("Power", y, KI(2)), Call(ff, << y >>), B("Sub", tt, KI(0)),
  N("Sum", << KI(0) >>), N("Product", << KI(0), y >>), B("Quotient", KI(0), y),
  B("FloorDiv", y, KI(2)), Cmp(y, "<", z),
  \* nodes with an EMPTY child sequence / of the non-arithmetic kinds are operands like any other
  \* (nothing but a known zero may be treated as one)
  Call(ff, << >>), CallKw(V("g"), << >>, << KwArg("k1", y) >>), Look(oo, "p") }
NumKinds0 == { KI(0), KI(1), KI(-1), KI(2), K(FltV(0, 1)), K(FltV(1, 1)),
              K(BoolV(TRUE)), K(BoolV(FALSE)), K(FltV(3, 2)), K(FltV(1, 2)) }
ExprSmall == { x, N("Sum", << y, z >>), N("Product", << y, z >>), B("Quotient", y, z),
               N("Product", << KI(0), y >>) }
NumSmall == { KI(0), KI(1), KI(-1), KI(2), K(BoolV(TRUE)), K(FltV(1, 2)) }

HoleP(ty) == [t |-> "hole", ty |-> ty]
RECURSIVE PNHoles(_), PFirstTy(_), PFill(_, _)
PSeqSum(s) == LET RECURSIVE Go(_) Go(i) == IF i > Len(s) THEN 0 ELSE s[i] + Go(i + 1) IN Go(1)
PKidsH(p) == IF p.t = "hole" THEN << >> ELSE PKids(p)
PNHoles(p) == IF p.t = "hole" THEN 1
              ELSE PSeqSum([i \in 1..Len(PKidsH(p)) |-> PNHoles(PKidsH(p)[i])])
PFirstTy(p) == IF p.t = "hole" THEN p.ty
               ELSE LET ks == PKidsH(p)
                        RECURSIVE Go(_)
                        Go(i) == IF i > Len(ks) THEN ""
                                 ELSE LET r == PFirstTy(ks[i]) IN IF r # "" THEN r ELSE Go(i + 1)
                    IN Go(1)
PWithKids(p, ks) ==
    CASE p.t \in {"bin", "cmp", "log", "ord", "aug"} -> [p EXCEPT !.l = ks[1], !.r = ks[2]]
      [] p.t = "un" -> [p EXCEPT !.a = ks[1]]
      [] p.t = "call" -> [p EXCEPT !.f = ks[1], !.args = SubSeq(ks, 2, 1 + Len(p.args)),
                            !.kw = [i \in 1..Len(p.kw) |->
                                      [p.kw[i] EXCEPT !.e = ks[1 + Len(p.args) + i]]]]
      [] p.t = "idx" -> [p EXCEPT !.a = ks[1], !.i = ks[2]]
      [] p.t \in {"attr", "attra"} -> [p EXCEPT !.a = ks[1]]
      [] OTHER -> p
PFill(p, s) ==
    IF p.t = "hole" THEN s
    ELSE LET ks == PKidsH(p)
             RECURSIVE Go(_, _)
             Go(i, done) == IF i > Len(ks) THEN << >>
                            ELSE IF ~done /\ PNHoles(ks[i]) > 0
                                 THEN << PFill(ks[i], s) >> \o Go(i + 1, TRUE)
                                 ELSE << ks[i] >> \o Go(i + 1, done)
         IN PWithKids(p, Go(1, FALSE))

E == HoleP("expr")   Nm == HoleP("num")   A == HoleP("any")
Es == HoleP("exprS") Ns == HoleP("numS")  As == HoleP("anyS")
LeafSet(S) == { Leaf(e) : e \in S }
PoolFor(ty) ==
    CASE ty = "expr"  -> LeafSet(ExprKinds)
      [] ty = "num"   -> LeafSet(NumKinds0)
      [] ty = "any"   -> LeafSet(ExprKinds \cup NumKinds0)
      [] ty = "exprS" -> LeafSet(ExprSmall)
      [] ty = "numS"  -> LeafSet(NumSmall)
      [] ty = "anyS"  -> LeafSet(ExprSmall \cup NumSmall)

UnOps == {"-", "+", "~", "not_"}
\* depth 1: every operator with (expr, any) and (num, expr) operands
Depth1 ==
       { BinP(op, E, A) : op \in BinOps } \cup { BinP(op, Nm, E) : op \in BinOps }
  \cup { UnP(op, E) : op \in UnOps }
  \* augmented assignment (a op= r), observed through the assigned name and through another
  \* name of the left object: every operator over the reduced kinds, + and * over all kinds
  \cup { AugP(op, Es, As, obs) : op \in BinOps, obs \in {"target", "alias"} }
  \cup { AugP(op, Ns, Es, obs) : op \in BinOps, obs \in {"target", "alias"} }
  \cup { AugP(op, E, A, "alias") : op \in {"+", "*"} }
  \cup { CmpP(op, E, A) : op \in CmpOps } \cup { LogP(op, E, A) : op \in {"and", "or"} }
  \cup { OrdP(op, E, A) : op \in {"<", "<=", ">", ">="} }
  \cup { OrdP(op, Nm, E) : op \in {"<", ">="} }
  \cup { CallP(E, << >>, << >>), CallP(E, << A >>, << >>), CallP(Leaf(ff), << As, As >>, << >>),
         CallP(Leaf(ff), << As >>, << KwArg("k1", As) >>),
         CallP(Leaf(V("g")), << >>, << KwArg("k2", As), KwArg("k1", As) >>),
         IdxP(E, A), IdxP(Leaf(tt), Nm), IdxP(Leaf(tt), Leaf(N("Tup", << >>))),
         IdxP(Leaf(tt), Leaf(N("Tup", << KI(1) >>))),
         IdxP(Leaf(V("m")), Leaf(N("Tup", << KI(1) >>))), IdxP(Leaf(V("m")), Leaf(KI(1))),
         IdxP(Leaf(V("m")), Leaf(N("Tup", << KI(0), KI(1) >>))), IdxP(Leaf(V("m")), Leaf(N("Tup", << >>))),
         IdxP(Leaf(V("m")), Leaf(KI(2))),
         AttrP(E, "p"), AttrP(Leaf(oo), "p"), AttrP(Leaf(oo), "q"),
         \* the attribute spelling, also for names that pymbolic's own objects use
         AttraP(E, "p"), AttraP(Leaf(oo), "q"), AttraP(Leaf(oo), "aggregate"), AttraP(Leaf(oo), "name"),
         AttrP(Leaf(oo), "aggregate"), BinP("+", AttraP(Leaf(oo), "aggregate"), A),
         \* names that begin with underscores, through both spellings
         AttraP(Leaf(oo), "_u"), AttraP(Leaf(oo), "__w__"), AttrP(Leaf(oo), "_u"), AttrP(Leaf(oo), "__w__"),
         AttraP(E, "_u"), BinP("*", AttraP(Leaf(oo), "_u"), A), UnP("-", AttraP(Leaf(oo), "__w__")) }
\* depth 2: op2(op1(a, b), c) and op2(c, op1(a, b)) over the reduced kinds
Inner == { BinP(op, Es, As) : op \in BinOps } \cup { BinP(op, Ns, Es) : op \in BinOps }
         \cup { UnP("-", Es) }
Depth2 ==
       { BinP(op2, i, As) : op2 \in BinOps, i \in Inner }
  \cup { BinP(op2, As, i) : op2 \in BinOps, i \in Inner }
  \cup { UnP(op, i) : op \in {"-", "~"}, i \in Inner }
Depth2Q == \* quick tier: a reduced inner operator set
       { BinP(op2, i, As) : op2 \in {"+", "-", "*", "/", "**"}, i \in Inner }
  \cup { BinP(op2, As, i) : op2 \in {"+", "-", "*", "//", "%"}, i \in Inner }
Roots == Depth1 \cup (IF Tier = "quick" THEN Depth2Q ELSE Depth2)

Init == prog \in Roots
Next == /\ PNHoles(prog) > 0
        /\ \E s \in PoolFor(PFirstTy(prog)) : prog' = PFill(prog, s)
Complete == PNHoles(prog) = 0

\* design-level result: does the transcribed implementation preserve the plain
\* computation?  Failures are *reported* (one line per failing program), the
\* implementation-level verdict is the judge's.
ModelVerdict == Judge(prog, BuiltOf(Build(prog)), Envs)
Emit == Complete =>
    /\ PrintT(ToJson([p |-> prog]))
    /\ (ModelVerdict.v \in {"OK", "SKIP", "REFUSED"}
        \/ PrintT(ToJson([design |-> ModelVerdict.v, dp |-> prog])))

ASSUME PrintT(ToJson([envs |-> Envs]))
=============================================================================
