------------------------------ MODULE C19_Entry ------------------------------
(***************************************************************************)
(* C19, the entry-point layer of part (b).  The extended Euclidean routine *)
(* and the gcd / lcm built on it are reachable through several doors       *)
(* (C19_Arith, section (b')).  A case names the doors (c.eps, the first    *)
(* one is "alg" = pymbolic.algorithm), the driver goes through each of     *)
(* them with the same operands in the same order, and every door's         *)
(* observation [ep, ee, g, l] is judged with the same clauses as the       *)
(* routine itself: Bezout with the operands as the CALLER gave them, g is  *)
(* a gcd, lcm consistent.                                                  *)
(*                                                                         *)
(* Attribution (TagEntry, C19_PolyRing): a clause that pymbolic.algorithm  *)
(* fails too is the routine's; a clause that only a door fails names the   *)
(* door (field ep = "<function>@<entry>").                                 *)
(***************************************************************************)
EXTENDS C19_Arith, C19_PolyRing

OneV3(v) == IF v = "OK" THEN << >> ELSE IF v = "SKIP" THEN << F("SKIP", "") >> ELSE << F(v, "") >>
EntriesOK(c, o) == Len(c.eps) > 0 /\ Len(o.es) = Len(c.eps) /\ \A i \in 1..Len(c.eps) : o.es[i].ep = c.eps[i]

EntryFns == << "ee", "gcd", "lcm" >>
\* the clauses of function fn through the door observed as oe
IntFn(c, oe, fn) ==
    CASE fn = "ee" -> OneV3(JudgeEE(c, oe.ee)) [] fn = "gcd" -> OneV3(JudgeGcd(c, oe.g)) [] fn = "lcm" -> OneV3(JudgeLcm(c, oe.l))
BigFn(c, oe, fn) ==
    LET \* a refusal carries the exception class, a wrong lcm whether it lies beyond the integers
        \* a float holds exactly
        one(v, ob) == IF v = "OK" THEN << >> ELSE IF v = "SKIP" THEN << F("SKIP", "") >>
                      ELSE << F(v, IF v \in {"ee-raised", "gcd-raised", "lcm-raised"} THEN ob.e
                                   ELSE IF v = "lcm-wrong" /\ BigOK(c) /\ BeyondFloat(c) THEN "beyond-2^53" ELSE "") >>
    IN CASE fn = "ee" -> one(JudgeBigEE(c, oe.ee), oe.ee) [] fn = "gcd" -> one(JudgeBigGcd(c, oe.g), oe.g)
         [] fn = "lcm" -> one(JudgeBigLcm(c, oe.l), oe.l)

AllEntries(c, o, Fn(_, _, _)) ==
    IF ~EntriesOK(c, o) THEN << F("SKIP", "entries") >>
    ELSE FlatSeq([i \in 1..Len(c.eps) |->
            FlatSeq([j \in 1..3 |->
                LET fn == EntryFns[j] cls == Fn(c, o.es[i], fn) IN
                IF c.eps[i] = "alg" THEN cls
                ELSE TagEntry(cls, IF c.eps[1] = "alg" THEN Fn(c, o.es[1], fn) ELSE << >>,
                              fn \o "@" \o c.eps[i])])])

\* case [q, r, eps], observation [es |-> one [ep, ee, g, l] per entry]
EuclidClauses(c, o) == AllEntries(c, o, IntFn)
\* case [k, a, sm, sw, ps, eps] (C19_Arith, section (b''))
EuclidBigClauses(c, o) == AllEntries(c, o, BigFn)

\* drift notes for the integer pairs (never a verdict): the exact triple the A-layer predicts
\* for the door, doors returning different (valid or not) triples, sign / type of the lcm
EuclidDrift(c, o) ==
    IF ~EntriesOK(c, o) THEN ""
    ELSE LET Trip(oe) == << oe.ee.v[1].n, oe.ee.v[2].n, oe.ee.v[3].n >> IN
         IF \E i \in 1..Len(c.eps) : c.eps[i] \in Entries /\ IntRes(o.es[i].ee, 3)
                                      /\ Trip(o.es[i]) # EntryEE(c.eps[i], c.q, c.r)
         THEN "impl-differs"
         ELSE IF \E i \in 1..Len(c.eps) : IntRes(o.es[i].ee, 3) /\ IntRes(o.es[1].ee, 3) /\ Trip(o.es[i]) # Trip(o.es[1])
         THEN "entries-differ"
         ELSE IF \E i \in 1..Len(c.eps) : IntRes(o.es[i].l, 1) /\ o.es[i].l.v[1].k = "flt" THEN "lcm-float"
         ELSE IF \E i \in 1..Len(c.eps) : IntRes(o.es[i].l, 1) /\ o.es[i].l.v[1].n < 0 THEN "lcm-negative" ELSE ""

\* the observation the A-layer predicts for a door (used by C19_Gen: the judge accepts it)
IntVal(n) == [k |-> "int", n |-> n, d |-> 1]
OkVals(s) == [r |-> "ok", v |-> [i \in 1..Len(s) |-> IntVal(s[i])], e |-> ""]
PredictedEntryB(e, q, r, fw) ==
    LET l == EntryLcmB(e, q, r, fw) IN
    [ep |-> e, ee |-> OkVals(EntryEEB(e, q, r, fw)), g |-> OkVals(<< EntryEEB(e, q, r, fw)[1] >>),
     l |-> IF l[1] = 0 THEN [r |-> "err", v |-> << >>, e |-> "ZeroDivisionError"] ELSE OkVals(<< l[2] >>)]
PredictedObs(c, fw) == [es |-> [i \in 1..Len(c.eps) |-> PredictedEntryB(c.eps[i], c.q, c.r, fw)]]
=============================================================================
