CONSTANT Tier = "random"
INIT Init
NEXT Next
INVARIANT PowRefines
INVARIANT EuclidRefines
INVARIANT ManyRefines
INVARIANT FFTRefines
INVARIANT FFTInverse
INVARIANT Emit
CHECK_DEADLOCK FALSE
