------------------------------- MODULE C07_Rand -------------------------------
(* Thorough tier for C07: random longer token strings with random             *)
(* parenthesisation, derived from the shared grammar in TLC simulation mode.  *)
(* "?E<d>" is an expression still to be derived with depth budget d.          *)
EXTENDS C07_Model, Json
VARIABLE toks

NT(d) == "?E" \o ToString(d)
IsNT(t) == t \in { NT(d) : d \in 0..4 }
Budget(t) == CHOOSE d \in 0..4 : t = NT(d)
Atoms == { << "a" >>, << "b" >>, << "c" >>, << "d" >>, << "2" >>, << "3" >>, << "1.5" >>, << "True" >> }
BinAll == {"+", "-", "*", "/", "//", "%", "**", "<<", ">>", "&", "|", "^",
           "==", "!=", "<", "<=", ">", ">=", "and", "or"}
Prods(d) ==
    LET e == NT(d - 1) IN
    { << e, op, e >> : op \in BinAll }
    \cup { << "(", e, ")" >>, << "(", e, ")", "**", e >>, << "-", e >>, << "~", e >>, << "not", e >>, << "+", e >>,
           << e, "if", e, "else", e >>, << "f", "(", e, ",", e, ")" >>, << "f", "(", e, ",", "k1", "=", e, ")" >>,
           << "t", "[", e, "]" >>, << "(", e, ",", e, ")" >>, << "o", ".", "p" >>, << "g", "(", e, ")" >> }

HasNT(s) == \E i \in 1..Len(s) : IsNT(s[i])
FirstNT(s) == CHOOSE i \in 1..Len(s) : IsNT(s[i]) /\ \A j \in 1..(i - 1) : ~IsNT(s[j])
Init == toks = << NT(3) >>
Next == /\ HasNT(toks) /\ Len(toks) < 40
        /\ LET i == FirstNT(toks)
               d == Budget(toks[i])
               pool == IF d = 0 \/ Len(toks) > 24 THEN Atoms
                       ELSE IF RandomElement(1..3) = 1 THEN Atoms ELSE Prods(d)
               r == RandomElement(pool)
           IN toks' = SubSeq(toks, 1, i - 1) \o r \o SubSeq(toks, i + 1, Len(toks))
Complete == ~HasNT(toks)
\* (see C07_Gen.EvMask: Python is asked for the value only where the reference value is inside the
\* model's exact bounds)
EvMask(ts) == LET rv == RefValues(ts) IN
              IF rv = << >> THEN [i \in 1..Len(Envs) |-> TRUE]
              ELSE [i \in 1..Len(Envs) |-> ~IsUnrep(rv[i])]
Emit == Complete => PrintT(ToJson([toks |-> toks, garbled |-> FALSE, ev |-> EvMask(toks)]))
=============================================================================
