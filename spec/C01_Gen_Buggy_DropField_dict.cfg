CONSTANTS
  HashMode = "collide"
  Bug = "DropField"
  Sweeps = {"small"}
  PairDepth = 2
  NearDepth = 2
  DeepDepth = 2
  HierDepth = 2
  XDepth = 1
  SelfDepth = 2
  FormDepth = 2
  HeapDepth = 3
  Wide = FALSE
  EmitCases = FALSE
INIT Init
NEXT Next
INVARIANT DictFindsEqual

CHECK_DEADLOCK FALSE
