------------------------------ MODULE C05_MemoAbs ------------------------------
(***************************************************************************)
(* The memo machine of C05 stripped to its core, for ARBITRARY key sets    *)
(* and an UNINTERPRETED meaning F of the cache-free mapper, with a TLAPS   *)
(* proof (supplementary evidence, DESIGN 3.4) that the look-aside          *)
(* discipline                                                              *)
(*      miss:  compute F(k), store it, count the computation               *)
(*      hit:   answer from the table, compute nothing                      *)
(* keeps the table sound (every stored answer is F of its key, hence every *)
(* answer ever returned is what the cache-free mapper returns) and         *)
(* computes every key at most once.  This is the unbounded counterpart of  *)
(* what TLC checks on C05_Gen for the bounded pool; it is about the        *)
(* DESIGN (keys identify what F depends on), the binding to the code is    *)
(* the trace validation of C05_Judge.                                      *)
(*                                                                         *)
(* The table is (cached, val): cached is the set of keys present, val the  *)
(* stored answers.  tlapm: `tlapm C05_MemoAbs.tla` proves all obligations. *)
(***************************************************************************)
EXTENDS Naturals, TLAPS
CONSTANTS Keys, Results, F(_)
ASSUME FType == \A k \in Keys : F(k) \in Results
VARIABLES cached, val, count, last
vars == << cached, val, count, last >>

TypeOK == /\ cached \in SUBSET Keys
          /\ val \in [Keys -> Results]
          /\ count \in [Keys -> Nat]

Init == /\ cached = {}
        /\ val \in [Keys -> Results]
        /\ count = [k \in Keys |-> 0]
        /\ last = << >>

\* a call (top-level or recursive) for key k: the answer is recorded in `last`
Miss(k) == /\ k \notin cached
           /\ cached' = cached \cup {k}
           /\ val' = [val EXCEPT ![k] = F(k)]
           /\ count' = [count EXCEPT ![k] = @ + 1]
           /\ last' = << k, F(k) >>
Hit(k) == /\ k \in cached
          /\ last' = << k, val[k] >>
          /\ UNCHANGED << cached, val, count >>
Next == \E k \in Keys : Miss(k) \/ Hit(k)
Spec == Init /\ [][Next]_vars

CacheSound == \A k \in cached : val[k] = F(k)
Counted    == \A k \in Keys : count[k] = IF k \in cached THEN 1 ELSE 0
AtMostOnce == \A k \in Keys : count[k] <= 1
Inv == TypeOK /\ CacheSound /\ Counted

\* transparency of a step: whatever a call answers is what F says
AnswersF == [][ \A k \in Keys : (Miss(k) \/ Hit(k)) => last'[2] = F(last'[1]) ]_vars

LEMMA InitInv == Init => Inv
  BY DEF Init, Inv, TypeOK, CacheSound, Counted

LEMMA NextInv == Inv /\ [Next]_vars => Inv'
<1> SUFFICES ASSUME Inv, [Next]_vars PROVE Inv'
  OBVIOUS
<1>1. CASE UNCHANGED vars
  BY <1>1 DEF Inv, TypeOK, CacheSound, Counted, vars
<1>2. ASSUME NEW k \in Keys, Miss(k) PROVE Inv'
  <2>1. TypeOK'
    BY <1>2, FType DEF Inv, TypeOK, Miss
  <2>2. CacheSound'
    BY <1>2, FType DEF Inv, TypeOK, CacheSound, Miss
  <2>3. Counted'
    BY <1>2 DEF Inv, TypeOK, Counted, Miss
  <2>4. QED BY <2>1, <2>2, <2>3 DEF Inv
<1>3. ASSUME NEW k \in Keys, Hit(k) PROVE Inv'
  BY <1>3 DEF Inv, TypeOK, CacheSound, Counted, Hit
<1>4. QED BY <1>1, <1>2, <1>3 DEF Next

THEOREM Safety == Spec => [](Inv /\ AtMostOnce)
<1>1. Inv => AtMostOnce
  BY DEF Inv, Counted, AtMostOnce, TypeOK
<1>2. Spec => []Inv
  BY InitInv, NextInv, PTL DEF Spec
<1>3. QED BY <1>1, <1>2, PTL

THEOREM Transparency == Inv /\ [Next]_vars => \A k \in Keys : (Miss(k) \/ Hit(k)) => last'[2] = F(last'[1])
  BY DEF Inv, CacheSound, Miss, Hit
=============================================================================
