------------------------------- MODULE C11_Impl -------------------------------
(***************************************************************************)
(* A-layer for C11: primitives.flattened_sum / flattened_product (the      *)
(* queue algorithms, with their early exits) and FlattenMapper on top of   *)
(* IdentityMapper, transcribed as the code has them.  Checked against the  *)
(* M-layer (value preservation by normal form, IsFlat) on the model in     *)
(* C11_Gen; compared with what the real flatten() returns as drift.        *)
(***************************************************************************)
EXTENDS C11_Rewrites, C03_Operators

\* primitives.flattened_sum: zero terms dropped, the children of a nested sum go to the
\* END of the work queue
FlattenedSum(terms) ==
    LET RECURSIVE Go(_, _)
        Go(queue, done) ==
            IF Len(queue) = 0 THEN
                (IF Len(done) = 0 THEN KI(0) ELSE IF Len(done) = 1 THEN done[1] ELSE N("Sum", done))
            ELSE LET item == Head(queue) rest == Tail(queue) IN
                 IF is_zero(item) THEN Go(rest, done)
                 ELSE IF item.t = "Sum" THEN Go(rest \o item.c, done)
                 ELSE Go(rest, Append(done, item))
    IN Go(terms, << >>)

\* primitives.flattened_product: a zero factor ends it with 0, the number 1 is dropped
FlattenedProduct(terms) ==
    LET RECURSIVE Go(_, _)
        Go(queue, done) ==
            IF Len(queue) = 0 THEN
                (IF Len(done) = 0 THEN KI(1) ELSE IF Len(done) = 1 THEN done[1] ELSE N("Product", done))
            ELSE LET item == Head(queue) rest == Tail(queue) IN
                 IF is_zero(item) THEN KI(0)
                 ELSE IF MinusOneIsZero(item) THEN Go(rest, done)
                 ELSE IF item.t = "Product" THEN Go(rest \o item.c, done)
                 ELSE Go(rest, Append(done, item))
    IN Go(terms, << >>)

\* FlattenMapper(IdentityMapper): sums and products through the helpers, a common
\* subexpression whose mapped child is falsy collapses to 0, everything else is rebuilt
RECURSIVE FlattenImpl(_)
FlattenImpl(e) ==
    LET ks == [i \in 1..Len(Kids(e)) |-> FlattenImpl(Kids(e)[i])] IN
    CASE e.t = "Sum" -> FlattenedSum(ks)
      [] e.t = "Product" -> FlattenedProduct(ks)
      [] e.t = "CSE" -> IF is_zero(ks[1]) THEN KI(0) ELSE WithKids(e, ks)
      [] OTHER -> WithKids(e, ks)

\* the statement's clauses on the transcription's result
FlattenOnModel(e) ==
    LET out == FlattenImpl(e)
        vp == ValuePreserved(e, out)
    IN IF vp \notin {"OK", "SKIP"} THEN vp
       ELSE IF ~IsFlat(out) THEN "not-flat" ELSE "OK"
=============================================================================
