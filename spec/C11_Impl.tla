------------------------------- MODULE C11_Impl -------------------------------
(***************************************************************************)
(* A-layer for C11: primitives.flattened_sum / flattened_product (the      *)
(* queue algorithms, with their early exits) and FlattenMapper on top of   *)
(* IdentityMapper, transcribed as the code has them.  Checked against the  *)
(* M-layer (value preservation by normal form, IsFlat) on the model in     *)
(* C11_Gen; compared with what the real flatten() returns as drift.        *)
(***************************************************************************)
EXTENDS C11_Rewrites, C03_Operators

\* primitives.flattened_sum: zero terms dropped, the children of a nested sum go to the
\* END of the work queue
FlattenedSum(terms) ==
    LET RECURSIVE Go(_, _)
        Go(queue, done) ==
            IF Len(queue) = 0 THEN
                (IF Len(done) = 0 THEN KI(0) ELSE IF Len(done) = 1 THEN done[1] ELSE N("Sum", done))
            ELSE LET item == Head(queue) rest == Tail(queue) IN
                 IF is_zero(item) THEN Go(rest, done)
                 ELSE IF item.t = "Sum" THEN Go(rest \o item.c, done)
                 ELSE Go(rest, Append(done, item))
    IN Go(terms, << >>)

\* primitives.flattened_product: a zero factor ends it with 0, the number 1 is dropped
FlattenedProduct(terms) ==
    LET RECURSIVE Go(_, _)
        Go(queue, done) ==
            IF Len(queue) = 0 THEN
                (IF Len(done) = 0 THEN KI(1) ELSE IF Len(done) = 1 THEN done[1] ELSE N("Product", done))
            ELSE LET item == Head(queue) rest == Tail(queue) IN
                 IF is_zero(item) THEN KI(0)
                 ELSE IF MinusOneIsZero(item) THEN Go(rest, done)
                 ELSE IF item.t = "Product" THEN Go(rest \o item.c, done)
                 ELSE Go(rest, Append(done, item))
    IN Go(terms, << >>)

\* FlattenMapper(IdentityMapper): sums and products through the helpers, a common
\* subexpression whose mapped child is falsy collapses to 0 (IdentityMapper's own handler),
\* everything else is rebuilt
RECURSIVE FlattenImpl(_)
FlattenImpl(e) ==
    LET ks == [i \in 1..Len(Kids(e)) |-> FlattenImpl(Kids(e)[i])] IN
    CASE e.t = "Sum" -> FlattenedSum(ks)
      [] e.t = "Product" -> FlattenedProduct(ks)
      [] e.t = "CSE" -> IF is_zero(ks[1]) THEN KI(0) ELSE WithKids(e, ks)
      [] OTHER -> WithKids(e, ks)

(***************************************************************************)
(* ConstantFoldingMapperBase.fold and the two folders on top of            *)
(* IdentityMapper (constant_folder.py).  A child of the folded node is      *)
(* mapped first; if the MAPPED child is again of the folded class its       *)
(* children go to the FRONT of the queue (and are mapped once more when     *)
(* they are popped); a variable-free child is evaluated (pymbolic.evaluate  *)
(* with no variables) and joins the constants, which are combined in order  *)
(* with Python's own + / * and put in front of the other operands;          *)
(* flattened_sum / flattened_product build the result.  An arithmetic error *)
(* of a variable-free child (1/0) is not caught by the code: "Raise".       *)
(***************************************************************************)
NoEnv == [nothing |-> IntV(0)]
RECURSIVE FoldRec(_, _), FoldGo(_, _, _, _, _)
FoldGo(queue, consts, noncs, klass, comm) ==
    IF Len(queue) = 0 THEN
        LET args == IF Len(consts) = 0 THEN noncs
                    ELSE LET RECURSIVE Red(_, _)
                             Red(acc, i) == IF i > Len(consts) THEN acc
                                            ELSE Red(PyBin(IF klass = "Sum" THEN "+" ELSE "*", acc, consts[i]), i + 1)
                         IN << K(Red(consts[1], 2)) >> \o noncs
        IN IF \E i \in 1..Len(args) : args[i].t = "Const" /\ (IsUnrep(args[i].v) \/ IsErr(args[i].v))
           THEN Raise("unrep")
           ELSE IF klass = "Sum" THEN FlattenedSum(args) ELSE FlattenedProduct(args)
    ELSE LET child == FoldRec(Head(queue), comm) rest == Tail(queue) IN
         IF IsRaise(child) THEN child
         ELSE IF child.t = klass THEN FoldGo(child.c \o rest, consts, noncs, klass, comm)
         ELSE IF ~HasVar(child) THEN
              LET v == Eval(child, NoEnv) IN
              IF IsUnrep(v) THEN Raise("unrep")
              ELSE IF IsErr(v) THEN (IF v.e = "ValueError" THEN FoldGo(rest, consts, Append(noncs, child), klass, comm)
                                     ELSE Raise(v.e))
              ELSE FoldGo(rest, Append(consts, v), noncs, klass, comm)
         ELSE FoldGo(rest, consts, Append(noncs, child), klass, comm)
FoldRec(e, comm) ==
    IF e.t = "Sum" \/ (comm /\ e.t = "Product") THEN FoldGo(e.c, << >>, << >>, e.t, comm)
    ELSE LET ks == [i \in 1..Len(Kids(e)) |-> FoldRec(Kids(e)[i], comm)] IN
         IF \E i \in 1..Len(ks) : IsRaise(ks[i])
         THEN ks[CHOOSE i \in 1..Len(ks) : IsRaise(ks[i]) /\ \A j \in 1..(i - 1) : ~IsRaise(ks[j])]
         \* IdentityMapper.map_common_subexpression: a wrapper whose mapped child is zero becomes 0
         ELSE IF e.t = "CSE" /\ is_zero(ks[1]) THEN KI(0)
         ELSE WithKids(e, ks)
FoldImpl(e, comm) == FoldRec(e, comm)

\* the statement's clauses on the transcription's result ("OK", "SKIP" or the failing clause)
FoldOnModel(e, comm) ==
    LET out == FoldImpl(e, comm) IN
    IF IsRaise(out) THEN (IF out.e = "unrep" THEN "SKIP" ELSE "raises-" \o out.e)
    ELSE LET vp == ValuePreserved(e, out) IN
         IF vp \notin {"OK", "SKIP"} THEN vp
         ELSE IF ~AtMostOneConstant(out, IF comm THEN {"Sum", "Product"} ELSE {"Sum"})
              THEN "several-constants" ELSE "OK"

\* the statement's clauses on the transcription's result
FlattenOnModel(e) ==
    LET out == FlattenImpl(e)
        vp == ValuePreserved(e, out)
    IN IF vp \notin {"OK", "SKIP"} THEN vp
       ELSE IF ~IsFlat(out) THEN "not-flat" ELSE "OK"
=============================================================================
