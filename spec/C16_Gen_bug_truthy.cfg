CONSTANT Tier = "quick"
CONSTANT Bug = "truthy"
INIT Init
NEXT Next
INVARIANT ImplSound
INVARIANT ImplComplete
INVARIANT MeaningSelfCheck
CHECK_DEADLOCK FALSE
