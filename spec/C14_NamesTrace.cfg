CONSTANT Tier = "quick"
CONSTANT Buggy = ""
INIT TraceInit
NEXT TraceNext
INVARIANT Report
CHECK_DEADLOCK FALSE
