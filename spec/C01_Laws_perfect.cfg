CONSTANTS
  HashMode = "perfect"
  Bug = "none"
INIT Init
NEXT Next
CHECK_DEADLOCK FALSE
