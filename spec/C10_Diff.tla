------------------------------ MODULE C10_Diff ------------------------------
(***************************************************************************)
(* C10 - symbolic differentiation yields the true derivative.              *)
(*                                                                         *)
(* M-layer (written from calculus, not from pymbolic):                     *)
(*   DEval(e, env, v) = [val, der]  forward-mode dual numbers over exact   *)
(*   rationals: the value of e at the point env and its partial derivative *)
(*   with respect to the variable v (a Var or a Sub node).  Either         *)
(*   component may be an error value (not defined at this point: division  *)
(*   by zero, log of a non-positive number, kink of fabs, jump of          *)
(*   copysign, switching point of an If) or Unrep (outside the exact       *)
(*   32-bit model).  Elementary functions take their values in the exact   *)
(*   identity-respecting model of Eval.tla (MathApply); their derivatives  *)
(*   are the calculus table D[sin]=cos, D[cos]=-sin, D[tan]=1+tan^2,       *)
(*   D[log]=1/u, D[exp]=exp, D[sinh]=cosh, D[cosh]=sinh, D[tanh]=1-tanh^2, *)
(*   D[expm1]=exp, D[fabs]=sign.                                           *)
(*   MustRefuse(e, ns): the expression contains a function that is not     *)
(*   smooth enough for the setting ns, or not known.                       *)
(*                                                                         *)
(* A-layer: DiffRules(e, v, ns) - pymbolic/mapper/differentiator.py as the *)
(* code has it: zero-derivative short cuts, flattened_sum/product          *)
(* assembly, the overloaded operators of primitives.py (C10_Ops.tla), the  *)
(* function table, CSE preservation.  Known                                *)
(* deviations from the meaning are named Dev_*.  The constant Bug switches *)
(* in seeded transcription errors (negative controls of the refinement     *)
(* check).                                                                 *)
(*                                                                         *)
(* Round 2.  The input of differentiate() is a graph of Python OBJECTS,    *)
(* not a tree of values: a subtree that occurs several times may be one    *)
(* shared object or several equal objects (Repeated, ShareVariants - the   *)
(* generator marks which, the driver builds accordingly), and a mapper     *)
(* instance that is used again carries its CSE cache from call to call     *)
(* (C10_Hist.tla).  The meaning (DEval) depends on neither; the rules run  *)
(* in a context Cx = [ns, sh, cse]: sh = the subtrees that are one shared  *)
(* object, cse = what the mapper's cache answers for a CSE node.           *)
(***************************************************************************)
EXTENDS C10_Ops
CONSTANT Bug

(***************************************************************************)
(* Points of evaluation ("the box").  Everything is a Fraction except in   *)
(* the last point (plain ints, where Python's own int arithmetic applies). *)
(***************************************************************************)
MathObj == [k |-> "obj", name |-> "math"]
LogFn   == [k |-> "fn", name |-> "log"]
TupV(s) == [k |-> "tup", items |-> s]
\* (round 4) f: the table function of Eval.tla (FnApply: affine in its positional and keyword
\* arguments), o1: an object with constant numeric attributes
Pt(xv, yv, zv, a0v, a1v) ==
    [x |-> xv, y |-> yv, z |-> zv, a |-> TupV(<< a0v, a1v >>), math |-> MathObj, log |-> LogFn,
     f |-> [k |-> "fn", name |-> "f"], o1 |-> [k |-> "obj", name |-> "o1"]]
Envs == <<
  Pt(FracV(1, 2),  FracV(2, 1),  FracV(-1, 1), FracV(2, 1),  FracV(1, 2)),
  Pt(FracV(2, 1),  FracV(1, 2),  FracV(3, 1),  FracV(-1, 1), FracV(2, 1)),
  Pt(FracV(-1, 1), FracV(3, 1),  FracV(1, 2),  FracV(1, 2),  FracV(-1, 1)),
  Pt(FracV(0, 1),  FracV(-1, 1), FracV(2, 1),  FracV(0, 1),  FracV(3, 1)),
  Pt(FracV(-1, 2), FracV(-2, 1), FracV(1, 1),  FracV(3, 1),  FracV(-1, 2)),
  Pt(IntV(3),      IntV(2),      IntV(-2),     IntV(1),      IntV(2))
>>

NSs == << "none", "continuous", "discontinuous" >>

(***************************************************************************)
(* Shapes                                                                  *)
(***************************************************************************)
MF(nm) == Look(V("math"), nm)
MCall(nm, args) == Call(MF(nm), args)
\* "" unless f is exactly math.<name>
MathName(f) == IF f.t = "Look" /\ f.a.t = "Var" /\ f.a.name = "math" THEN f.name ELSE ""
Smooth1 == {"sin", "cos", "tan", "log", "exp", "sinh", "cosh", "tanh", "expm1"}

\* << F(1), ..., F(n) >> as an explicit tuple: every element is evaluated exactly once (a function
\* constructor [i \in 1..n |-> F(i)] is re-evaluated by TLC at every application)
MapSeq(n, F(_)) == LET RECURSIVE Go(_)
                       Go(i) == IF i > n THEN << >> ELSE << F(i) >> \o Go(i + 1)
                   IN Go(1)

SameTree(e, v) == e.t = v.t /\ e = v
\* the children differentiation looks at (not the function of a call)
DKids(e) == IF e.t = "Call" THEN e.c
            ELSE IF e.t = "CallKw" THEN e.c \o [i \in 1..Len(e.kw) |-> e.kw[i].e]
            ELSE Kids(e)

\* Round 4.  Node kinds the statement does not list as differentiable ("foreign" kinds): a call
\* with keyword arguments (CallKw), an attribute lookup that is not the function of a call (Look),
\* and the leaves that denote no number at all - primitives.FunctionSymbol() and primitives.NaN(),
\* carried across the JSON boundary as variables with the reserved names below (Expr.tla has no
\* shape for them; harness/c10.py builds the real objects).
OpaqueNames == { "<FunctionSymbol>", "<NaN>" }
IsOpaque(e) == e.t = "Var" /\ e.name \in OpaqueNames
RECURSIVE Occurs(_, _)
Occurs(v, e) == SameTree(e, v) \/ \E i \in 1..Len(DKids(e)) : Occurs(v, DKids(e)[i])

(***************************************************************************)
(* M-layer                                                                 *)
(***************************************************************************)
Zero == FracV(0, 1)
One  == FracV(1, 1)
Two  == FracV(2, 1)
Undef == Err("undefined")          \* the derivative does not exist here
DN(val, der) == [val |-> val, der |-> der]
OutOfModel == DN(Unrep, Unrep)

\* a number as an exact rational; errors and Unrep stay; objects are not numbers
Rat(v) == IF IsNum(v) THEN (IF v.k = "bool" THEN Unrep ELSE ToFrac(v))
          ELSE IF IsErr(v) \/ IsUnrep(v) THEN v ELSE Unrep

Add2(a, b) == PyBin("+", a, b)
Sub2(a, b) == PyBin("-", a, b)
Mul2(a, b) == PyBin("*", a, b)
Div2(a, b) == PyBin("/", a, b)
Pow2v(a, b) == PyBin("**", a, b)

\* value of an elementary function in the model; errors / Unrep of the argument stay
Ap(nm, u) == IF IsNum(u) THEN MathApply(nm, << u >>) ELSE u
SignOf(u) == IF u.n < 0 THEN FracV(-1, 1) ELSE IF u.n = 0 THEN Zero ELSE One

\* the calculus table: derivative of the function nm at the argument value u
DTab(nm, u) ==
    CASE nm = "sin"   -> Ap("cos", u)
      [] nm = "cos"   -> Sub2(Zero, Ap("sin", u))
      [] nm = "tan"   -> Add2(One, Mul2(Ap("tan", u), Ap("tan", u)))
      [] nm = "log"   -> Div2(One, u)
      [] nm = "exp"   -> Ap("exp", u)
      [] nm = "sinh"  -> Ap("cosh", u)
      [] nm = "cosh"  -> Ap("sinh", u)
      [] nm = "tanh"  -> Sub2(One, Mul2(Ap("tanh", u), Ap("tanh", u)))
      [] nm = "expm1" -> Ap("exp", u)

RECURSIVE DEval(_, _, _)
DSeq(es, env, v) == LET F(i) == DEval(es[i], env, v) IN MapSeq(Len(es), F)

DEval(e, env, v) ==
    IF SameTree(e, v) THEN DN(Rat(Eval(e, env)), One)
    ELSE CASE e.t = "Const" -> DN(Rat(e.v), Zero)
      [] e.t = "Var" -> DN(Rat(Eval(e, env)), Zero)
      \* a[c] with a constant index is an independent variable of its own
      [] e.t = "Sub" -> IF e.a.t = "Var" /\ e.b.t = "Const" /\ ~SameTree(e.a, v)
                        THEN DN(Rat(Eval(e, env)), Zero) ELSE OutOfModel
      [] e.t = "Sum" ->
            LET ds == DSeq(e.c, env, v)
                RECURSIVE Go(_, _)
                Go(i, acc) == IF i > Len(ds) THEN acc
                              ELSE Go(i + 1, DN(Add2(acc.val, ds[i].val), Add2(acc.der, ds[i].der)))
            IN Go(1, DN(Zero, Zero))
      [] e.t = "Product" ->                         \* Leibniz
            LET ds == DSeq(e.c, env, v)
                RECURSIVE Go(_, _)
                Go(i, acc) == IF i > Len(ds) THEN acc
                              ELSE Go(i + 1, DN(Mul2(acc.val, ds[i].val),
                                                Add2(Mul2(acc.der, ds[i].val), Mul2(acc.val, ds[i].der))))
            IN Go(1, DN(One, Zero))
      [] e.t = "Quotient" ->                        \* (f/g)' = (f'g - g'f) / g^2
            LET F == DEval(e.a, env, v) G == DEval(e.b, env, v) IN
            DN(Div2(F.val, G.val),
               Div2(Sub2(Mul2(F.der, G.val), Mul2(G.der, F.val)), Mul2(G.val, G.val)))
      [] e.t = "Power" ->
            LET F == DEval(e.a, env, v) G == DEval(e.b, env, v)
                val == Pow2v(F.val, G.val)
                \* g f^(g-1) f'
                powrule == Mul2(Mul2(G.val, Pow2v(F.val, Sub2(G.val, One))), F.der)
            IN IF ~Occurs(v, e.b) THEN DN(val, powrule)       \* exponent independent of v: power rule
               \* variable exponent: f^g = exp(g ln f) needs f > 0;
               \* (f^g)' = ln(f) f^g g' + g f^(g-1) f'
               ELSE IF ~IsNum(F.val) THEN DN(val, F.val)
               ELSE IF F.val.n <= 0 THEN DN(val, Undef)
               ELSE DN(val, Add2(Mul2(Mul2(Ap("log", F.val), val), G.der), powrule))
      [] e.t = "Call" ->
            LET nm == MathName(e.f) IN
            IF nm \in Smooth1 /\ Len(e.c) = 1 THEN
                LET Ua == DEval(e.c[1], env, v) IN
                IF nm = "log" /\ IsNum(Ua.val) /\ Ua.val.n <= 0 THEN DN(Err("ValueError"), Undef)
                ELSE DN(Ap(nm, Ua.val), Mul2(DTab(nm, Ua.val), Ua.der))         \* chain rule
            ELSE IF nm = "fabs" /\ Len(e.c) = 1 THEN
                LET Ua == DEval(e.c[1], env, v) IN
                IF ~IsNum(Ua.val) THEN DN(Ua.val, Ua.val)
                ELSE IF Ua.val.n = 0 THEN DN(Zero, Undef)                       \* the kink
                ELSE DN(Ap("fabs", Ua.val), Mul2(SignOf(Ua.val), Ua.der))
            ELSE IF nm = "copysign" /\ Len(e.c) = 2 THEN
                \* copysign(a, b) = |a| sgn(b): d = sgn(a) sgn(b) a' away from a = 0 and b = 0
                LET P == DEval(e.c[1], env, v) Q == DEval(e.c[2], env, v) IN
                IF ~IsNum(P.val) THEN DN(P.val, P.val)
                ELSE IF ~IsNum(Q.val) THEN DN(Q.val, Q.val)
                ELSE IF ~IsNum(Q.der) THEN DN(Q.der, Q.der)
                ELSE IF P.val.n = 0 \/ Q.val.n = 0 THEN DN(MathApply("copysign", << P.val, Q.val >>), Undef)
                ELSE DN(MathApply("copysign", << P.val, Q.val >>),
                        Mul2(Mul2(SignOf(P.val), SignOf(Q.val)), P.der))
            ELSE OutOfModel
      [] e.t = "If" ->
            LET c == Eval(e.i, env) IN
            IF IsUnrep(c) \/ IsErr(c) THEN DN(c, c)
            ELSE LET br == DEval(IF Truthy(c) THEN e.th ELSE e.el, env, v)
                     \* at a switching point of a comparison the pieces meet: no derivative claimed
                     onEdge == e.i.t = "Cmp" /\
                               LET l == Eval(e.i.a, env) r == Eval(e.i.b, env) IN
                               ~(IsNum(l) /\ IsNum(r)) \/ NumCmp3(l, r) = 0
                 IN IF onEdge THEN DN(br.val, Undef) ELSE br
      [] e.t = "CSE" -> DEval(e.a, env, v)
      \* (round 4) a call with keyword arguments denotes what Eval says: an elementary function of
      \* the table takes no keywords (with none it is the plain call); a table function of the
      \* environment is  base + sum w_i a_i + sum w_k v_k  (FnApply), so its partial derivative is
      \* sum w_i a_i' + sum w_k v_k'
      [] e.t = "CallKw" ->
            LET fv == Eval(e.f, env) IN
            IF fv.k # "fn" THEN OutOfModel
            ELSE IF fv.name \in MathFns THEN
                (IF Len(e.kw) = 0 THEN DEval(Call(e.f, e.c), env, v) ELSE DN(Err("TypeError"), Undef))
            ELSE LET ps == DSeq(e.c, env, v)
                     KF(i) == DEval(e.kw[i].e, env, v)
                     ks == MapSeq(Len(e.kw), KF)
                     val == Rat(Eval(e, env))
                     W(n) == FracV(n, 1)
                     RECURSIVE GoP(_, _), GoK(_, _)
                     GoP(i, acc) == IF i > Len(ps) \/ i > 3 THEN acc
                                    ELSE GoP(i + 1, Add2(acc, Mul2(W(FnPosW(fv.name)[i]), ps[i].der)))
                     GoK(i, acc) == IF i > Len(ks) THEN acc
                                    ELSE GoK(i + 1, Add2(acc, Mul2(W(FnKwW(fv.name, e.kw[i].name)), ks[i].der)))
                 IN DN(val, GoK(1, GoP(1, Zero)))
      \* an attribute of an object of the environment is a constant; nothing else has attributes
      [] e.t = "Look" -> IF Occurs(v, e) THEN DN(Rat(Eval(e, env)), Undef)
                         ELSE DN(Rat(Eval(e, env)), Zero)
      [] OTHER -> OutOfModel

Defined(d) == IsNum(d.val) /\ IsNum(d.der)

\* refusal is required: a function that is not smooth enough for ns, or unknown, is
\* differentiated (conditions of If nodes are not differentiated)
RECURSIVE MustRefuse(_, _)
MustRefuse(e, ns) ==
    CASE e.t = "Call" ->
            LET nm == MathName(e.f) IN
            \/ ~(\/ nm \in Smooth1 /\ Len(e.c) = 1
                 \/ nm = "fabs" /\ Len(e.c) = 1 /\ ns # "none"
                 \/ nm = "copysign" /\ Len(e.c) = 2 /\ ns = "discontinuous")
            \/ \E i \in 1..Len(e.c) : MustRefuse(e.c[i], ns)
      [] e.t = "If" -> ns # "discontinuous" \/ MustRefuse(e.th, ns) \/ MustRefuse(e.el, ns)
      [] e.t \in {"Sum", "Product"} -> \E i \in 1..Len(e.c) : MustRefuse(e.c[i], ns)
      [] e.t \in {"Quotient", "Power"} -> MustRefuse(e.a, ns) \/ MustRefuse(e.b, ns)
      [] e.t = "CSE" -> MustRefuse(e.a, ns)
      [] e.t = "CallKw" -> \E i \in 1..Len(DKids(e)) : MustRefuse(DKids(e)[i], ns)
      [] OTHER -> FALSE

\* (round 4) a foreign node kind is differentiated (conditions of If nodes and the function of a
\* call are not).  The statement does not promise a derivative for such an input, only that it is
\* "never differentiated to something wrong": a refusal is always accepted; a returned tree is
\* judged against the meaning the model gives the input, and where it gives none (NowhereDefined)
\* a refusal is the only accepted outcome.
RECURSIVE Foreign(_)
Foreign(e) ==
    CASE e.t \in {"CallKw", "Look"} -> TRUE
      [] e.t = "Var" -> IsOpaque(e)
      [] e.t = "If" -> Foreign(e.th) \/ Foreign(e.el)
      [] e.t \in {"Const", "Sub"} -> FALSE
      [] OTHER -> \E i \in 1..Len(DKids(e)) : Foreign(DKids(e)[i])

\* inside the fragment the statement speaks about
RECURSIVE InFragment(_)
InFragment(e) ==
    CASE e.t = "Const" -> IsNum(e.v) /\ e.v.k # "bool"
      [] e.t = "Var" -> TRUE
      [] e.t = "Sub" -> e.a.t = "Var" /\ e.b.t = "Const"
      [] e.t \in {"Sum", "Product"} -> Len(e.c) > 0 /\ \A i \in 1..Len(e.c) : InFragment(e.c[i])
      [] e.t \in {"Quotient", "Power"} -> InFragment(e.a) /\ InFragment(e.b)
      [] e.t = "Call" -> Len(e.c) > 0 /\ \A i \in 1..Len(e.c) : InFragment(e.c[i])
      [] e.t = "If" -> InFragment(e.th) /\ InFragment(e.el)
      [] e.t = "CSE" -> InFragment(e.a)
      [] e.t = "CallKw" -> Len(DKids(e)) > 0 /\ \A i \in 1..Len(DKids(e)) : InFragment(DKids(e)[i])
      [] e.t = "Look" -> InFragment(e.a)
      [] OTHER -> FALSE

(***************************************************************************)
(* A-layer: differentiator.py                                              *)
(***************************************************************************)
Op(op, l, r) == IF IsRaise(l) THEN l ELSE IF IsRaise(r) THEN r ELSE BuildBin(op, l, r)
NegOf(a) == IF IsRaise(a) THEN a ELSE Neg(a)
Truth(a) == ExprBool(a)                       \* "if not df"

\* primitives.flattened_sum: zero terms dropped, nested sums spliced at the END of the queue
FlattenedSum(terms) ==
    LET RECURSIVE Go(_, _)
        Go(queue, done) ==
            IF Len(queue) = 0 THEN done
            ELSE LET item == Head(queue) rest == Tail(queue) IN
                 IF is_zero(item) THEN Go(rest, done)
                 ELSE IF item.t = "Sum" THEN Go(rest \o item.c, done)
                 ELSE Go(rest, Append(done, item))
        done == Go(terms, << >>)
    IN IF Len(done) = 0 THEN KI(0) ELSE IF Len(done) = 1 THEN done[1] ELSE N("Sum", done)

\* primitives.flattened_product: a zero factor gives 0, unit factors are dropped
FlattenedProduct(terms) ==
    LET RECURSIVE Go(_, _)
        Go(queue, done) ==
            IF Len(queue) = 0 THEN
                (IF Len(done) = 0 THEN KI(1) ELSE IF Len(done) = 1 THEN done[1] ELSE N("Product", done))
            ELSE LET item == Head(queue) rest == Tail(queue) IN
                 IF is_zero(item) THEN KI(0)
                 ELSE LET m1 == BuildBin("-", item, KI(1)) IN
                      IF ~IsRaise(m1) /\ is_zero(m1) THEN Go(rest, done)
                      ELSE IF item.t = "Product" THEN Go(rest \o item.c, done)
                      ELSE Go(rest, Append(done, item))
    IN Go(terms, << >>)

\* named deviation: "if not dg" is a syntactic test; the derivative of an exponent that does not
\* depend on the variable but is wrapped (CommonSubexpression, If) is CSE(0) / If(c, 0, 0), which is
\* truthy, so the general rule with its log(f) term is emitted for a constant exponent
RECURSIVE HasWrapper(_)
HasWrapper(e) == e.t \in {"CSE", "If"} \/ \E i \in 1..Len(DKids(e)) : HasWrapper(DKids(e)[i])
Dev_WrappedConstantExponent(e, v) == e.t = "Power" /\ ~Occurs(v, e.b) /\ HasWrapper(e.b)

\* named deviation: primitives.quotient(1, c) builds a pymbolic.rational.Rational for an
\* integer constant c # 1, and Rational * 0 crashes inside rational.py
Dev_LogOfIntegerConstant(par) ==
    par.t = "Const" /\ par.v.k = "int" /\ par.v.n # 1

\* map_math_functions_by_name(i, func, pars, allowed_nonsmoothness); i = 1.. (Python's i + 1)
FunctionMap(i, func, pars, ns) ==
    LET nm == MathName(func) np == Len(pars) IN
    IF nm = "sin" /\ np = 1 THEN (IF Bug = "table_sin" THEN MCall("sin", pars) ELSE MCall("cos", pars))
    ELSE IF nm = "cos" /\ np = 1 THEN (IF Bug = "table_cos_sign" THEN MCall("sin", pars)
                                       ELSE NegOf(MCall("sin", pars)))
    ELSE IF nm = "tan" /\ np = 1 THEN Op("+", Op("**", MCall("tan", pars), KI(2)), KI(1))
    ELSE IF nm = "log" /\ np = 1 THEN B("Quotient", KI(1), pars[1])   \* primitives.Quotient(1, pars[0])
    ELSE IF nm = "exp" /\ np = 1 THEN MCall("exp", pars)
    ELSE IF nm = "sinh" /\ np = 1 THEN MCall("cosh", pars)
    ELSE IF nm = "cosh" /\ np = 1 THEN MCall("sinh", pars)
    ELSE IF nm = "tanh" /\ np = 1 THEN Op("-", KI(1), Op("**", MCall("tanh", pars), KI(2)))
    ELSE IF nm = "expm1" /\ np = 1 THEN MCall("exp", pars)
    ELSE IF nm = "fabs" /\ np = 1 THEN
        (IF ns \in {"continuous", "discontinuous"} \/ Bug = "fabs_always"
         THEN MCall("copysign", << KI(1), pars[1] >>)        \* pymbolic.functions.sign
         ELSE Raise("ValueError"))
    ELSE IF nm = "copysign" /\ np = 2 THEN
        (IF ns # "discontinuous" THEN Raise("ValueError")
         ELSE IF i = 2 THEN KI(0)
         ELSE Op("*", MCall("copysign", << KI(1), pars[1] >>), MCall("copysign", << KI(1), pars[2] >>)))
    ELSE Raise("RuntimeError")

\* the context the rules run in: the non-smoothness setting, the subtrees that are ONE shared
\* object wherever they occur (the others are equal but distinct objects), and the answers of the
\* mapper's CSE cache (a function from CSE nodes to derivative trees; empty for a fresh mapper)
NoCache == [s \in {} |-> 0]
Cx(ns, sh, cse) == [ns |-> ns, sh |-> sh, cse |-> cse]
\* two factors of one product are the same Python object
SameObject(a, b, cx) == a = b /\ a \in cx.sh

RECURSIVE RecX(_, _, _)
RecX(e, v, cx) ==
    LET ns == cx.ns
        Rc(ee, vv, nn) == RecX(ee, vv, cx) IN
    CASE e.t = "Const" -> KI(0)
      \* no mapper method of DifferentiationMapper: the class-hierarchy fall-back of the base Mapper
      \* raises.  Seeded design error "leaf_fallback_zero": the fall-back answers 0 ("a leaf")
      [] e.t \in {"CallKw", "Look"} \/ IsOpaque(e) ->
            IF Bug = "leaf_fallback_zero" THEN KI(0) ELSE Raise("NotImplementedError")
      [] e.t \in {"Var", "Sub"} -> IF SameTree(e, v) THEN KI(1) ELSE KI(0)
      [] e.t = "Call" ->
            LET F(i) == LET fm == FunctionMap(i, e.f, e.c, ns) IN
                        IF IsRaise(fm) THEN fm ELSE Op("*", fm, Rc(e.c[i], v, ns))
                ts == MapSeq(Len(e.c), F)
            IN FirstRaise(ts, FlattenedSum(ts))
      [] e.t = "Sum" ->
            LET F(i) == Rc(e.c[i], v, ns)
                ds == MapSeq(Len(e.c), F)
            IN FirstRaise(ds, FlattenedSum(ds))
      [] e.t = "Product" ->
            LET n == Len(e.c)
                F(i) == Rc(e.c[i], v, ns)
                ds == MapSeq(n, F)
                \* seeded design error "product_identity": the factor to differentiate is found by
                \* object identity, so every occurrence of a shared factor is differentiated
                Fac(i, j) == IF j = i \/ (Bug = "product_identity" /\ SameObject(e.c[j], e.c[i], cx))
                             THEN ds[j] ELSE e.c[j]
                G(i) == IF IsRaise(ds[i]) THEN ds[i]
                        ELSE LET H(j) == Fac(i, j) IN FlattenedProduct(MapSeq(n, H))
                ts == MapSeq(n, G)
            IN FirstRaise(ts, FlattenedSum(ts))
      [] e.t = "Quotient" ->
            LET f == e.a g == e.b df == Rc(f, v, ns) dg == Rc(g, v, ns) IN
            IF IsRaise(df) THEN df ELSE IF IsRaise(dg) THEN dg
            ELSE IF ~Truth(df) /\ ~Truth(dg) THEN KI(0)
            ELSE IF ~Truth(df) THEN
                Op("/", Op("*", (IF Bug = "quot_shortcut_sign" THEN f ELSE NegOf(f)), dg), Op("**", g, KI(2)))
            ELSE IF ~Truth(dg) THEN Op("/", df, g)
            ELSE Op("/", Op(IF Bug = "quot_sign" THEN "+" ELSE "-", Op("*", df, g), Op("*", dg, f)),
                         Op("**", g, KI(2)))
      [] e.t = "Power" ->
            LET f == e.a g == e.b df == Rc(f, v, ns) dg == Rc(g, v, ns)
                lg == Call(V("log"), << f >>)
                t1 == Op("*", Op("*", lg, Op("**", f, g)), dg)
                t2 == Op("*", Op("*", g, Op("**", f, IF Bug = "pow_exp" THEN g ELSE Op("-", g, KI(1)))), df)
            IN IF IsRaise(df) THEN df ELSE IF IsRaise(dg) THEN dg
               ELSE IF ~Truth(df) /\ ~Truth(dg) THEN KI(0)
               ELSE IF ~Truth(df) THEN t1
               ELSE IF ~Truth(dg) THEN t2
               ELSE Op("+", t1, t2)
      [] e.t = "If" ->
            IF ns # "discontinuous" THEN Raise("ValueError")
            ELSE LET a == Rc(e.th, v, ns) b == Rc(e.el, v, ns) IN
                 IF IsRaise(a) THEN a ELSE IF IsRaise(b) THEN b ELSE IfE(e.i, a, b)
      [] e.t = "CSE" ->
            \* CSECachingMapperMixin.map_common_subexpression: the cache answers, else uncached
            IF e \in DOMAIN cx.cse THEN cx.cse[e] ELSE
            LET d == Rc(IF Bug = "cse_drop_chain" /\ e.a.t = "Call" THEN e.a.c[1] ELSE e.a, v, ns) IN
            IF IsRaise(d) THEN d ELSE CSE(d, e.prefix, e.scope)
      [] OTHER -> Raise("ValueError")               \* map_foreign / no mapper method

\* a fresh mapper, nothing shared
Rec(e, v, ns) == RecX(e, v, Cx(ns, {}, NoCache))
DiffRules(e, v, ns) == Rec(e, v, ns)
AsOut(r) == IF IsRaise(r) THEN [r |-> "err", v |-> Err(r.e)] ELSE [r |-> "ok", e |-> r]
PredictedX(e, v, cx) == AsOut(RecX(e, v, cx))

(***************************************************************************)
(* Object sharing.  A subtree that occurs more than once in the input      *)
(* (expression and differentiation variable together; constants are plain  *)
(* Python numbers) can be one object or several equal ones.  A sharing     *)
(* variant is the set of repeated subtrees that are ONE object each.       *)
(***************************************************************************)
RECURSIVE OccCount(_, _)
OccCount(s, e) == (IF e = s THEN 1 ELSE 0)
                  + LET ks == Kids(e)
                        RECURSIVE Go(_)
                        Go(i) == IF i > Len(ks) THEN 0 ELSE OccCount(s, ks[i]) + Go(i + 1)
                    IN Go(1)
Repeated(e, v) == { s \in SubExprs(e) \cup SubExprs(v) :
                       s.t # "Const" /\ OccCount(s, e) + OccCount(s, v) >= 2 }
IsLeafNode(s) == Len(Kids(s)) = 0
\* nothing shared (a tree rebuilt node by node), everything shared (built with Python variables:
\* u = x + y; u*u), only the leaves, only the compound subtrees, only the outermost ones;
\* wide: also every single subtree on its own
ShareVariants(e, v, wide) ==
    LET R == Repeated(e, v)
        outer == { s \in R : ~\E o \in R : o # s /\ OccCount(s, o) > 0 }
    IN { {}, R, { s \in R : IsLeafNode(s) }, { s \in R : ~IsLeafNode(s) }, outer }
       \cup (IF wide THEN { {s} : s \in R } ELSE {})
Predicted(e, v, ns) == AsOut(DiffRules(e, v, ns))

(***************************************************************************)
(* The judgement (shared by the model check and the trace judge)           *)
(***************************************************************************)
IsRefusal(out) == out.r = "err" /\ out.v.e \in {"ValueError", "RuntimeError"}
\* the mapper's "I have no rule for this node kind" is a refusal of an input with a foreign node
IsRefusalOf(e, out) ==
    \/ IsRefusal(out)
    \/ out.r = "err" /\ Foreign(e) /\ out.v.e \in {"NotImplementedError", "UnsupportedExpressionError"}

\* The model's log is total, the real one is not: evaluating the returned tree at this point
\* applies log (the variable `log` of the general power rule, or math.log) to a non-positive
\* number, i.e. raises "math domain error" with the real function.  If is lazy.
IsLogFn(f) == (f.t = "Var" /\ f.name = "log") \/ MathName(f) = "log"
RECURSIVE LogBad(_, _)
LogBad(t, env) ==
    CASE t.t = "Call" ->
            \/ IsLogFn(t.f) /\ Len(t.c) = 1 /\ LET u == Eval(t.c[1], env) IN IsNum(u) /\ u.n <= 0
            \/ \E i \in 1..Len(t.c) : LogBad(t.c[i], env)
      [] t.t = "If" ->
            \/ LogBad(t.i, env)
            \/ LET c == Eval(t.i, env) IN
               IsNum(c) /\ LogBad(IF Truthy(c) THEN t.th ELSE t.el, env)
      [] OTHER -> \E i \in 1..Len(Kids(t)) : LogBad(Kids(t)[i], env)

\* one returned tree at one point
JudgePoint(e, v, tree, env) ==
    LET m == DEval(e, env, v) IN
    IF ~Defined(m) THEN "NA"
    ELSE IF LogBad(tree, env) THEN "tree-raises-log-domain"
    ELSE LET tv == Eval(tree, env) IN
         IF IsUnrep(tv) \/ tv.k = "fstr" THEN "SKIP"      \* fstr: a float outside the exact model
         ELSE IF IsErr(tv) THEN "tree-raises"
         ELSE IF ~IsNum(tv) THEN "not-a-number"
         ELSE IF ValEq(tv, m.der) THEN "OK" ELSE "wrong-value"

\* one returned tree at every point of the box: first failing point, else OK / SKIP
JudgeTree(e, v, tree) ==
    LET F(i) == JudgePoint(e, v, tree, Envs[i])
        vs == MapSeq(Len(Envs), F)
        bad(i) == vs[i] \notin {"OK", "NA", "SKIP"}
    IN IF \E i \in 1..Len(vs) : bad(i)
       THEN LET i == CHOOSE i \in 1..Len(vs) : bad(i) /\ \A j \in 1..(i - 1) : ~bad(j)
            IN [v |-> vs[i], env |-> i, np |-> 0]
       ELSE IF \A i \in 1..Len(vs) : vs[i] # "OK" THEN [v |-> "SKIP", env |-> 0, np |-> 0]
       ELSE [v |-> "OK", env |-> 0, np |-> Cardinality({ i \in 1..Len(vs) : vs[i] = "OK" })]

\* the input denotes a function nowhere in the box (e.g. log of a non-positive constant): an
\* exception is then no statement about differentiation
NowhereDefined(e, v) == \A i \in 1..Len(Envs) : ~IsNum(DEval(e, Envs[i], v).val)

\* one observation (tree / exception / unserialisable) for one setting
JudgeOut(e, v, ns, out) ==
    IF out.r = "unser" \/ ~InFragment(e) THEN [v |-> "SKIP", env |-> 0, np |-> 0]
    ELSE IF MustRefuse(e, ns) THEN
        (IF IsRefusalOf(e, out) THEN [v |-> "OK", env |-> 0, np |-> 0]
         \* an exception of another class is a crash, not a refusal (same clause as below)
         ELSE IF out.r = "err" THEN [v |-> "raised", env |-> 0, np |-> 0]
         ELSE [v |-> "not-refused", env |-> 0, np |-> 0])
    ELSE IF Foreign(e) /\ IsRefusalOf(e, out) THEN [v |-> "OK", env |-> 0, np |-> 0]
    ELSE IF out.r = "err" THEN [v |-> IF NowhereDefined(e, v) THEN "SKIP" ELSE "raised", env |-> 0, np |-> 0]
    \* a derivative of something that denotes nothing
    ELSE IF Foreign(e) /\ NowhereDefined(e, v) THEN [v |-> "not-refused", env |-> 0, np |-> 0]
    ELSE JudgeTree(e, v, out.e)

\* attribution features of the input (computed by the spec, grouped by the harness)
RECURSIVE Features(_, _)
Features(e, v) ==
    (CASE e.t = "Call" ->
            LET nm == MathName(e.f) IN
            { "call:" \o (IF nm = "" THEN "unknown" ELSE nm) }
            \cup (IF nm = "copysign" /\ Len(e.c) = 2 /\ Occurs(v, e.c[1]) THEN {"copysign:first-argument-depends-on-variable"} ELSE {})
            \cup (IF nm = "log" /\ Len(e.c) = 1 /\ Dev_LogOfIntegerConstant(e.c[1]) THEN {"log:integer-constant"} ELSE {})
       [] e.t = "Power" ->
            { "Power:" \o (IF Occurs(v, e.a) THEN "f" ELSE "c") \o (IF Occurs(v, e.b) THEN "f" ELSE "c") }
            \cup (IF Dev_WrappedConstantExponent(e, v) THEN {"Power:wrapped-constant-exponent"} ELSE {})
       [] e.t = "Quotient" ->
            { "Quotient:" \o (IF Occurs(v, e.a) THEN "f" ELSE "c") \o (IF Occurs(v, e.b) THEN "f" ELSE "c") }
       [] e.t = "Var" -> IF IsOpaque(e) THEN { "leaf:" \o e.name } ELSE {}
       [] e.t = "Const" -> {}
       [] e.t = "CallKw" -> { "CallKw:" \o (IF Occurs(v, e) THEN "f" ELSE "c") }
       [] e.t = "Look" -> { "Look:" \o (IF Occurs(v, e) THEN "f" ELSE "c") }
       [] OTHER -> { e.t })
    \cup UNION { Features(DKids(e)[i], v) : i \in 1..Len(DKids(e)) }
SetToSeq(S) == LET RECURSIVE Go(_) Go(T) == IF T = {} THEN << >>
                                            ELSE LET s == CHOOSE s \in T : TRUE IN << s >> \o Go(T \ {s})
               IN Go(S)
=============================================================================
