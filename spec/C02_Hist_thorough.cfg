CONSTANT KeyMode = "value"
CONSTANT MaxOps = 8
INIT Init
NEXT Next
INVARIANT EveryEvaluationIsTheMeaning
INVARIANT CacheCoherent
INVARIANT Emit
CHECK_DEADLOCK FALSE
