CONSTANT Merge = "copy"
CONSTANT MaxOps = 5
CONSTANT NPairs = 6
CONSTANT NTrees = 6
CONSTANT NKw = 5
CONSTANT WithPut = TRUE
CONSTANT Filter = FALSE
CONSTANT Rand = TRUE
INIT Init
NEXT Next
INVARIANT CallerMapsUnchanged
INVARIANT EveryCallMeansItsArguments
INVARIANT Emit
CHECK_DEADLOCK FALSE
