CONSTANTS
  PoolSel = "fb"
  ArgSel = "core"
  MaxLen = 2
  KeyMode = "ideal"
  StoreMode = "store"
  HitMode = "identity"
  Random = FALSE
  FbMode = "mro-dropkw"
INIT Init
NEXT Next
INVARIANT Transparent
CHECK_DEADLOCK FALSE
