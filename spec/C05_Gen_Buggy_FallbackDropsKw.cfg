CONSTANTS
  PoolSel = "fb"
  ArgSel = "core"
  MaxLen = 2
  KeyMode = "ideal"
  StoreMode = "store"
  HitMode = "identity"
  Random = FALSE
  FbMode = "mro-dropkw"
  ShareSel = "parity"
  RbMode = "faithful"
INIT Init
NEXT Next
INVARIANT Transparent
CHECK_DEADLOCK FALSE
