CONSTANT Tier = "quick"
CONSTANT MaxN = 5
CONSTANT Modes = {"K"}
INIT Init
NEXT Next
INVARIANT GeneratedWellFormed
INVARIANT Ctl_CachedLooseOK
INVARIANT Ctl_CachedAlwaysDiffers
CHECK_DEADLOCK FALSE
