CONSTANT Tier = "quick"
CONSTANT Kinds = {"pair"}
CONSTANT MaxN = 2
CONSTANT Bug = "metric_first_only"
INIT Init
NEXT Next
INVARIANT ModelHolds
CHECK_DEADLOCK FALSE
