CONSTANT Tier = "quick"
CONSTANT Mode = "exh"
CONSTANT Bug = "skipkw"
INIT Init
NEXT Next
INVARIANT Lemma
CHECK_DEADLOCK FALSE
