------------------------------ MODULE C18_Judge ------------------------------
(***************************************************************************)
(* Stage (3) for C18: every record  [id, c (the generated case), o (what   *)
(* the real MultiVector objects returned)]  is judged by TLC against the   *)
(* M-layer (C18_Clifford).  A record yields a list of clauses, each OK /   *)
(* SKIP (outside the exact-arithmetic model) / FAIL / NA; every record     *)
(* that is not plainly OK is printed with the names of its failing         *)
(* clauses.  Verdicts are total: TLC never stops on a failing record.      *)
(*                                                                         *)
(* Recorded values:  [t |-> "mv"|"sc"|"err"|"other", mv |-> terms,         *)
(*                    sc |-> coef, err |-> exception class]                *)
(*   terms = sequence of << increasing index word, << num, den, kind >> >> *)
(*   coef kind 0 int, 1 Fraction, 2 float (exact), 3 bool; beyond the      *)
(*   bounds of the model (then num = den = 0): 6 Fraction, 7 int, 8 finite *)
(*   float whose exact value in lowest terms is beyond the bounds, 9 other *)
(*   (non-finite float, not a number).                                     *)
(***************************************************************************)
EXTENDS C18_Clifford, Json, IOUtils
VARIABLES blk, off

Recs == ndJsonDeserialize(IOEnv.TRACE_FILE)
BS == 64
NB == (Len(Recs) + BS - 1) \div BS

Init == blk \in 0..(NB - 1) /\ off = 0
Next == off < BS - 1 /\ off' = off + 1 /\ UNCHANGED blk
Idx == blk * BS + off + 1

ASSUME PrintT(ToJson([summary |-> "loaded", n |-> Len(Recs)]))

(************************* recorded values *********************************)
RUnrep(r) == \/ (r.t = "mv" /\ \E i \in 1..Len(r.mv) : r.mv[i][2][2] = 0)
             \/ (r.t = "sc" /\ r.sc[2] = 0)
RDom(r) == { r.mv[i][1] : i \in 1..Len(r.mv) }
\* the multivector a recorded data dict denotes (explicitly stored zeros dropped)
RMV(r) == Strip([x \in RDom(r) |-> QOf(r.mv[CHOOSE i \in 1..Len(r.mv) : r.mv[i][1] = x][2])])
HasStoredZero(r) == r.t = "mv" /\ \E i \in 1..Len(r.mv) : r.mv[i][2][1] = 0 /\ r.mv[i][2][2] # 0
WellFormed(r, n) == \A i \in 1..Len(r.mv) : IsBlade(r.mv[i][1], n)

MVIs(r, m, n) ==
    IF r.t # "mv" THEN "FAIL"
    ELSE IF RUnrep(r) \/ MVBad(m) THEN "SKIP"
    ELSE IF WellFormed(r, n) /\ RMV(r) = m THEN "OK" ELSE "FAIL"
ScIs(r, q) ==
    IF r.t # "sc" THEN "FAIL"
    ELSE IF RUnrep(r) \/ IsBad(q) THEN "SKIP"
    ELSE IF QOf(r.sc) = q THEN "OK" ELSE "FAIL"
\* two recorded multivectors agree with each other
MVSame(r1, r2) ==
    IF r1.t # "mv" \/ r2.t # "mv" THEN "FAIL"
    ELSE IF RUnrep(r1) \/ RUnrep(r2) THEN "SKIP"
    ELSE IF RMV(r1) = RMV(r2) THEN "OK" ELSE "FAIL"
St(unrep, ok) == IF unrep THEN "SKIP" ELSE IF ok THEN "OK" ELSE "FAIL"
Both(s1, s2) == IF s1 = "FAIL" \/ s2 = "FAIL" THEN "FAIL"
                ELSE IF s1 = "SKIP" \/ s2 = "SKIP" THEN "SKIP"
                ELSE IF s1 = "NA" /\ s2 = "NA" THEN "NA" ELSE "OK"
Cl(name, op, s) == [c |-> name, op |-> op, s |-> s, w |-> "none"]
B01(b) == IF b THEN 1 ELSE 0

MvOps == << "geo", "out", "inn", "lc", "rc" >>

(******************************* pair **************************************)
PairClauses(c, o) ==
    LET g  == c.g
        A  == Mono(c.a, QOf(c.ca))
        B  == Mono(c.b, QOf(c.cb))
        r  == Len(c.a)
        s  == Len(c.b)
        \* the six products by the M-layer, each computed once
        E  == [geo |-> MVProd("geo", A, B, g), out |-> MVProd("out", A, B, g),
               inn |-> MVProd("inn", A, B, g), scl |-> MVProd("scl", A, B, g),
               lc  |-> MVProd("lc", A, B, g),  rc  |-> MVProd("rc", A, B, g)]
        BA == MVProd("geo", B, A, g)
        geoOK == o.geo.t = "mv" /\ ~RUnrep(o.geo)
        RG == RMV(o.geo)
        GP(op) == IF ~geoOK \/ o[op].t # "mv" THEN "FAIL"
                  ELSE IF RUnrep(o[op]) THEN "SKIP"
                  ELSE IF RMV(o[op]) = GradeSel(RG, SelGrades(op, r, s, c.n))
                       THEN "OK" ELSE "FAIL"
        \* core clauses (every pair): product tables, grade-part characterisation
        core ==
          [i \in 1..5 |-> Cl("table", MvOps[i], MVIs(o[MvOps[i]], E[MvOps[i]], c.n))]
          \o << Cl("table", "scl", ScIs(o.scl, ScalarPart(E.scl))) >>
          \o [i \in 1..4 |-> Cl("gradepart", MvOps[i + 1], GP(MvOps[i + 1]))]
          \o << Cl("gradepart", "scl",
                   IF ~geoOK THEN "FAIL" ELSE ScIs(o.scl, ScalarPart(RG))),
                Cl("bool-of-result", "bool",
                   St(\E i \in 1..5 : MVBad(E[MvOps[i]]),
                      \A i \in 1..5 : o.tb[i] = B01(E[MvOps[i]] # MVZero))) >>
        \* further clauses (all pairs except the "lite" ones of dimension 5)
        extra ==
           << Cl("anticommute", "geo",
                 IF r = 1 /\ s = 1 /\ c.a # c.b
                 THEN (IF ~geoOK \/ o.ba.t # "mv" \/ RUnrep(o.ba) THEN "FAIL"
                       ELSE St(FALSE, MVAdd(RG, RMV(o.ba)) = MVZero))
                 ELSE "NA"),
              Cl("square", "geo",
                 IF r = 1 /\ c.a = c.b
                 THEN MVIs(o.geo, MVScalar(QMul(QInt(g[c.a[1]]), QMul(QOf(c.ca), QOf(c.cb)))), c.n)
                 ELSE "NA"),
              Cl("table", "geo-swapped", MVIs(o.ba, BA, c.n)),
              Cl("rev-antiautomorphism", "rev",
                 Both(MVIs(o.rev_ab, MVRev(E.geo), c.n), MVSame(o.rev_ab, o.revb_reva))),
              Cl("invol-automorphism", "invol",
                 Both(MVIs(o.inv_ab, MVInvol(E.geo), c.n), MVSame(o.inv_ab, o.inva_invb))),
              \* commutator product (1.1.55) in Hestenes/Sobczyk: (AB - BA)/2
              Cl("commutator", "x",
                 MVIs(o.x, MVScale(<< 1, 2 >>, MVSub(E.geo, BA)), c.n)) >>
           \* a bare Python scalar as left / right operand gives the same products
           \o [i \in 1..Len(o.rl) |-> Cl("scalar-left-operand", MvOps[i], MVIs(o.rl[i], E[MvOps[i]], c.n))]
           \o [i \in 1..Len(o.rr) |-> Cl("scalar-right-operand", MvOps[i], MVIs(o.rr[i], E[MvOps[i]], c.n))]
    IN  IF c.lite = 1 THEN core ELSE core \o extra

(****************************** triple *************************************)
TripleClauses(c, o) ==
    LET g == c.g
        A == Mono(c.a, QOf(c.cf[1]))
        B == Mono(c.b, QOf(c.cf[2]))
        C == Mono(c.c, QOf(c.cf[3]))
        P(op, x, y) == MVProd(op, x, y, g)
        Two(name, op, r1, r2, m) ==
            Cl(name, op, Both(Both(MVIs(r1, m, c.n), MVIs(r2, m, c.n)), MVSame(r1, r2)))
    IN  << Two("associative", "geo", o.g1, o.g2, P("geo", P("geo", A, B), C)),
           Two("associative", "out", o.o1, o.o2, P("out", P("out", A, B), C)),
           Two("contraction-duality", "lc", o.l1, o.l2, P("lc", P("out", A, B), C)),
           Two("contraction-duality", "rc", o.r1, o.r2, P("rc", A, P("out", B, C))) >>

(******************************* unary *************************************)
UnaryClauses(c, o) ==
    LET g == c.g
        n == c.n
        M == MVOfTerms(c.a, g)
        D == MVDual(M, n, g)
        NS == MVNormSq(M, g)
        M2 == MVProd("geo", M, M, g)
        app == (IsMonomial(M) \/ IsVector(M)) /\ ~MVBad(M) /\ ~IsBad(NS) /\ ~QIsZero(NS)
    IN  << Cl("ctor-value", "ctor", MVIs(o.a, M, n)),
           Cl("rev", "rev", MVIs(o.rev, MVRev(M), n)),
           Cl("invol", "invol", MVIs(o.invol, MVInvol(M), n)),
           Cl("rev-rev", "rev", MVIs(o.rr, M, n)),
           Cl("invol-invol", "invol", MVIs(o.ii, M, n)),
           Cl("pseudoscalar", "I", MVIs(o.I, MVPseudo(n), n)),
           Cl("dual", "dual", MVIs(o.dual, D, n)),
           Cl("dual", "lc", MVIs(o.lcd, D, n)),
           Cl("dual", "geo", MVIs(o.geod, D, n)),
           Cl("norm-squared", "norm_squared", ScIs(o.nsq, NS)),
           \* the inverse of every non-null blade times the blade is 1.  A value that
           \* inv() RETURNS is judged on every input (it must be a two-sided inverse);
           \* an answer is demanded (a refusal fails) for the non-null multiples of basis
           \* blades and vectors; elsewhere a refusal is not judged (NA).
           Cl("inverse", "inv",
              IF o.inv.t = "mv"
              THEN IF RUnrep(o.inv) \/ MVBad(M) THEN "SKIP"
                   ELSE LET X == RMV(o.inv)
                            p1 == MVProd("geo", X, M, g)
                            p2 == MVProd("geo", M, X, g)
                        IN  St(MVBad(p1) \/ MVBad(p2), p1 = MVOne /\ p2 = MVOne)
              ELSE IF app THEN "FAIL" ELSE "NA"),
           Cl("inverse", "inv*a",
              IF o.inv.t = "mv" \/ app
              THEN Both(MVIs(o.inv_a, MVOne, n), MVIs(o.a_inv, MVOne, n))
              ELSE "NA"),
           Cl("inverse", "div",
              IF app THEN Both(MVIs(o.div, MVOne, n), MVIs(o.rdiv, MVOne, n))
              ELSE Both(IF o.div.t = "mv" THEN MVIs(o.div, MVOne, n) ELSE "NA",
                        IF o.rdiv.t = "mv" THEN MVIs(o.rdiv, MVOne, n) ELSE "NA")),
           Cl("power", "**",
              Both(MVIs(o.p0, MVOne, n),
                   Both(MVIs(o.p2, M2, n), MVIs(o.p3, MVProd("geo", M2, M, g), n)))) >>

(******************************* bilin *************************************)
AllOps == << "geo", "out", "inn", "scl", "lc", "rc" >>
BilinClauses(c, o) ==
    LET g == c.g
        A == MVOfTerms(c.a, g)
        B == MVOfTerms(c.b, g)
        C == MVOfTerms(c.c, g)
        L == MVLin(QOf(c.l), A, QOf(c.m), B)
        Is(op, r, m) == IF op = "scl" THEN ScIs(r, ScalarPart(m)) ELSE MVIs(r, m, c.n)
        One(i) == LET op == AllOps[i]
                      m1 == MVProd(op, L, C, g)
                      m2 == MVProd(op, C, L, g)
                  IN  << Cl("bilinear-left", op, Both(Is(op, o.r[i][1], m1), Is(op, o.r[i][2], m1))),
                         Cl("bilinear-right", op, Both(Is(op, o.r[i][3], m2), Is(op, o.r[i][4], m2))) >>
    IN  << Cl("linear-combination", "lin", MVIs(o.lin, L, c.n)) >>
        \o One(1) \o One(2) \o One(3) \o One(4) \o One(5) \o One(6)

(********************************* eq **************************************)
(* Equality, hashing and truth-testing agree with coefficient-wise          *)
(* comparison.  A recipe that writes an explicit zero coefficient into a    *)
(* bitmap-keyed dict hands the class data outside its own invariant         *)
(* ("stored coefficients are non-zero"): ill-formed input, its comparison   *)
(* clauses are SKIPped.  MultiVector(0, space) and "mv == 0" are the        *)
(* documented scalar forms and are judged; failures that involve them carry *)
(* why = "zero-scalar" for attribution.                                     *)
MVal(rc, g) == IF rc.via = "z" THEN MVZero ELSE MVOfTerms(rc.ts, g)
ZeroScalarRecipe(rc) == rc.via \in {"s", "r"} /\ rc.ts[1][2][1] = 0
ZeroBitmapRecipe(rc) == rc.via = "b" /\ \E i \in 1..Len(rc.ts) : rc.ts[i][2][1] = 0
ClW(name, op, s, w) == [c |-> name, op |-> op, s |-> s, w |-> w]
EqClauses(c, o) ==
    LET g  == c.g
        A  == MVal(c.ra, g)
        B  == MVal(c.rb, g)
        bad == MVBad(A) \/ MVBad(B)
        same == A = B
        illA == ZeroBitmapRecipe(c.ra)
        illB == ZeroBitmapRecipe(c.rb)
        \* the scalar 0 was kept as an explicitly stored zero coefficient (observed in
        \* the recorded data; a bare 0 is cast inside __eq__ and cannot be observed)
        ZS(rc, d) == ZeroScalarRecipe(rc) /\ (rc.via = "r" \/ HasStoredZero(d))
        zs == IF ZS(c.ra, o.da) \/ ZS(c.rb, o.db) THEN "zero-scalar" ELSE "none"
        Ctor(rc, d, m) == IF rc.via = "r" THEN ScIs(d, ScalarPart(m)) ELSE MVIs(d, m, c.n)
    IN  << Cl("ctor-value", c.ra.via, Ctor(c.ra, o.da, A)),
           Cl("ctor-value", c.rb.via, Ctor(c.rb, o.db, B)),
           ClW("eq", "==",
               IF c.xs = 1 THEN "NA"
               ELSE St(bad \/ illA \/ illB, o.eq = B01(same) /\ o.eqr = B01(same)), zs),
           ClW("eq", "!=",
               IF c.xs = 1 THEN "NA" ELSE St(bad \/ illA \/ illB, o.ne = B01(~same)), zs),
           \* equal multivectors hash equal (for distinct Space objects of the same
           \* metric: whenever the implementation itself calls them equal)
           ClW("hash", "hash",
               IF o.he = -1 THEN "NA"
               ELSE IF c.xs = 1 THEN St(FALSE, o.eq = 1 => o.he = 1)
               ELSE St(bad \/ illA \/ illB, same => o.he = 1),
               IF c.xs = 1 THEN "distinct-space-objects" ELSE zs),
           ClW("bool", "bool", IF o.ba = -1 THEN "NA" ELSE St(MVBad(A) \/ illA, o.ba = B01(A # MVZero)),
               IF ZS(c.ra, o.da) THEN "zero-scalar" ELSE "none"),
           ClW("bool", "bool", IF o.bb = -1 THEN "NA" ELSE St(MVBad(B) \/ illB, o.bb = B01(B # MVZero)),
               IF ZS(c.rb, o.db) THEN "zero-scalar" ELSE "none") >>

(********************************* sym *************************************)
(* Symbolic coefficients  cx*x + cy*y + c0 : the recorded results were      *)
(* evaluated at the points c.pts; the meaning is the product of the inputs  *)
(* evaluated at the same point (evaluation is a ring homomorphism).         *)
EvalL3(l, p) == QAdd(QAdd(QMul(QInt(l[1]), QOf(p[1])), QMul(QInt(l[2]), QOf(p[2]))), QInt(l[3]))
SymMV(ts, p) == Strip([x \in { ts[i][1] : i \in 1..Len(ts) } |->
                          EvalL3(ts[CHOOSE i \in 1..Len(ts) : ts[i][1] = x][2], p)])
SymClauses(c, o) ==
    LET g == c.g
        One(j) ==
            LET A == SymMV(c.a, c.pts[j])
                B == SymMV(c.b, c.pts[j])
            IN  [i \in 1..5 |-> Cl("symbolic-product", MvOps[i],
                                    MVIs(o.p[j][MvOps[i]], MVProd(MvOps[i], A, B, g), c.n))]
                \o << Cl("symbolic-product", "scl",
                         ScIs(o.p[j].scl, ScalarPart(MVProd("scl", A, B, g)))),
                      Cl("symbolic-unary", "rev", MVIs(o.p[j].rev, MVRev(A), c.n)),
                      Cl("symbolic-unary", "dual", MVIs(o.p[j].dual, MVDual(A, c.n, g), c.n)),
                      Cl("symbolic-unary", "norm_squared", ScIs(o.p[j].nsq, MVNormSq(A, g))) >>
        RECURSIVE All(_)
        All(j) == IF j > Len(c.pts) THEN << >> ELSE One(j) \o All(j + 1)
    IN  All(1)

(******************************* symeq *************************************)
(* Equality, hashing and truth-testing of multivectors whose coefficients   *)
(* are expression trees.  Recorded data: [t |-> "tmv", mv |-> << word, tree *)
(* >> terms] (the coefficient objects serialised node by node).  Tree-wise  *)
(* equal (same) => must be equal, hash equal; different at one of the       *)
(* evaluation points => must be unequal; different trees that agree at      *)
(* every point (x + y / y + x): the value of == is not decided (SKIP), its  *)
(* consistency (symmetry, != is its negation, equal => same hash) is.       *)
RTreeOK(r, n) == r.t = "tmv" /\ TWellFormed(r.mv, n)
TCtor(r, ts, n) == IF RTreeOK(r, n) /\ TMV(r.mv) = TMV(ts) THEN "OK" ELSE "FAIL"
Bit(b) == b \in {0, 1}
SymEqClauses(c, o) ==
    LET ta == c.ra.ts
        tb == c.rb.ts
        same == TMV(ta) = TMV(tb)
        P(j) == << QOf(c.pts[j][1]), QOf(c.pts[j][2]) >>
        EA(j) == EvalTMV(ta, P(j))
        EB(j) == EvalTMV(tb, P(j))
        semdiff == \E j \in 1..Len(c.pts) : ~MVBad(EA(j)) /\ ~MVBad(EB(j)) /\ EA(j) # EB(j)
        Val(x, y) == IF same THEN St(FALSE, x = 1 /\ y = 1)
                     ELSE IF semdiff THEN St(FALSE, x = 0 /\ y = 0)
                     ELSE "SKIP"
    IN  << Cl("ctor-value", c.ra.via, TCtor(o.da, ta, c.n)),
           Cl("ctor-value", c.rb.via, TCtor(o.db, tb, c.n)),
           Cl("eq", "==", Val(o.eq, o.eqr)),
           Cl("eq", "!=", Val(1 - o.ne, 1 - o.ner)),
           Cl("eq-consistent", "==",
              St(FALSE, /\ Bit(o.eq) /\ Bit(o.eqr) /\ Bit(o.ne) /\ Bit(o.ner)
                        /\ o.eq = o.eqr /\ o.ne = 1 - o.eq /\ o.ner = 1 - o.eqr)),
           \* an object is equal to itself (== is called, no identity shortcut)
           Cl("eq-reflexive", "==", St(FALSE, o.eqa = 1 /\ o.nea = 0 /\ o.eqb = 1 /\ o.neb = 0)),
           Cl("hash", "hash", St(FALSE, Bit(o.he) /\ (same => o.he = 1) /\ (o.eq = 1 => o.he = 1))),
           Cl("bool", "bool", St(FALSE, o.ba = B01(TWords(ta) # {}) /\ o.bb = B01(TWords(tb) # {}))) >>

(******************************** hist *************************************)
(* Histories on one object.  The recorded stored data of the two live       *)
(* objects a, b after every step must still denote the multivectors they    *)
(* were built as and must not have gained (or lost) explicitly stored zero  *)
(* coefficients -- these are what ==, hash, bool, get_pure_grade and inv()  *)
(* of the class look at; every step's result is judged by the M-layer       *)
(* (operands keep their value, so each step is a function of A, B, q); and  *)
(* after the history the SAME objects are judged against never used twins:  *)
(* coefficient-wise equal => ==, not !=, same hash; bool = "some            *)
(* coefficient is non-zero"; get_pure_grade = the single grade of the       *)
(* meaning (None = -1 when mixed); the inverse law as in the unary kind.    *)
ZeroWords(r) == { r.mv[i][1] : i \in { j \in 1..Len(r.mv) : r.mv[j][2][1] = 0 /\ r.mv[j][2][2] # 0 } }
Unchanged(r, r0, m, n) ==
    IF r.t # "mv" \/ r0.t # "mv" THEN "FAIL"
    ELSE IF RUnrep(r) \/ RUnrep(r0) \/ MVBad(m) THEN "SKIP"
    ELSE IF WellFormed(r, n) /\ RMV(r) = m /\ ZeroWords(r) = ZeroWords(r0) /\ Len(r.mv) = Len(r0.mv)
         THEN "OK" ELSE "FAIL"
HistClauses(c, o) ==
    LET g == c.g
        n == c.n
        A == MVOfTerms(c.a, g)
        B == MVOfTerms(c.b, g)
        QS == MVScalar(QOf(c.q))
        bad == MVBad(A) \/ MVBad(B)
        StepCl(i) ==
            LET s == c.steps[i]
                r == o.st[i].r
                IsM(m) == MVIs(r, m, n)
                v == CASE s = "add"   -> IsM(MVAdd(A, B))
                       [] s = "radd"  -> IsM(MVAdd(B, A))
                       [] s = "sub"   -> IsM(MVSub(A, B))
                       [] s = "rsub"  -> IsM(MVSub(B, A))
                       [] s \in {"sadd", "adds"} -> IsM(MVAdd(QS, A))
                       [] s = "ssub"  -> IsM(MVSub(QS, A))
                       [] s = "scl"   -> ScIs(r, ScalarPart(MVProd("scl", A, B, g)))
                       [] s \in Ops \ {"scl"} -> IsM(MVProd(s, A, B, g))
                       [] s = "x"     -> IsM(MVScale(<< 1, 2 >>, MVSub(MVProd("geo", A, B, g), MVProd("geo", B, A, g))))
                       [] s = "neg"   -> IsM(MVNeg(A))
                       [] s = "rev"   -> IsM(MVRev(A))
                       [] s = "invol" -> IsM(MVInvol(A))
                       [] s = "dual"  -> IsM(MVDual(A, n, g))
                       [] s = "eq"    -> IF bad THEN "SKIP" ELSE ScIs(r, QInt(B01(A = B)))
                       [] s = "bool"  -> IF bad THEN "SKIP" ELSE ScIs(r, QInt(B01(A # MVZero)))
                       [] s = "hash"  -> St(FALSE, r.t = "sc")
            IN  << Cl("history-step", s, v),
                   Cl("operand-unchanged", s,
                      Both(Unchanged(o.st[i].a, o.s0[1], A, n), Unchanged(o.st[i].b, o.s0[2], B, n))) >>
        RECURSIVE Steps(_)
        Steps(i) == IF i > Len(c.steps) THEN << >> ELSE StepCl(i) \o Steps(i + 1)
        After(x, M, which, r0) ==
            LET NS  == MVNormSq(M, g)
                app == (IsMonomial(M) \/ IsVector(M)) /\ ~MVBad(M) /\ ~IsBad(NS) /\ ~QIsZero(NS)
                pg  == IF Cardinality(Grades(M)) = 1 THEN CHOOSE t \in Grades(M) : TRUE ELSE -1
            IN  << Cl(which, "data", Unchanged(x.d, r0, M, n)),
                   Cl(which, "==", St(MVBad(M), x.eq = 1 /\ x.eqr = 1)),
                   Cl(which, "!=", St(MVBad(M), x.ne = 0 /\ x.ner = 0)),
                   Cl(which, "hash", St(MVBad(M), x.he = 1)),
                   Cl(which, "bool", St(MVBad(M), x.bo = B01(M # MVZero))),
                   Cl(which, "get_pure_grade",
                      IF M = MVZero THEN "NA" ELSE St(MVBad(M), x.pg = pg)),
                   Cl(which, "inv",
                      IF x.inv.t = "mv"
                      THEN IF RUnrep(x.inv) \/ MVBad(M) THEN "SKIP"
                           ELSE LET X == RMV(x.inv)
                                    p1 == MVProd("geo", X, M, g)
                                    p2 == MVProd("geo", M, X, g)
                                IN  St(MVBad(p1) \/ MVBad(p2), p1 = MVOne /\ p2 = MVOne)
                      ELSE IF app THEN "FAIL" ELSE "NA"),
                   Cl(which, "inv*a",
                      IF x.inv.t = "mv" \/ app
                      THEN Both(MVIs(x.inv_m, MVOne, n), MVIs(x.m_inv, MVOne, n))
                      ELSE "NA") >>
    IN  << Cl("ctor-value", "a", Both(MVIs(o.s0[1], A, n), St(FALSE, ZeroWords(o.s0[1]) = {}))),
           Cl("ctor-value", "b", Both(MVIs(o.s0[2], B, n), St(FALSE, ZeroWords(o.s0[2]) = {}))) >>
        \o Steps(1) \o After(o.oa, A, "used-a", o.s0[1]) \o After(o.ob, B, "used-b", o.s0[2])

(********************************* spc *************************************)
(* The way the space is constructed is an input (c.sm), the operands have    *)
(* exact coefficients (ints, Fractions) and the metric entries are exact     *)
(* numbers in every generated construction.  Then                            *)
(*   * every result is EXACTLY the M-layer value.  A recorded float whose    *)
(*     exact value lies beyond the bounds of the model (kind 8) is decided:  *)
(*     the expected coefficient is a rational in lowest terms WITHIN the     *)
(*     bounds (the expected multivector is not MVBad), so the two differ;    *)
(*   * every coefficient is of an exact kind of number: sums and products of *)
(*     ints and Fractions are ints and Fractions; a float is the mark of a   *)
(*     detour through an approximation (it cannot hold 1/3 or 2**53 + 1).    *)
(*     The inverse divides: it is exact when the coefficients come from a    *)
(*     field (all Fractions); int / int is Python's true division and is not *)
(*     judged for its kind (NA), nor for a float beyond the bounds (SKIP).   *)
ExactKinds == {0, 1, 3, 6, 7}
FloatKinds == {2, 8}
RKinds(r) == IF r.t = "mv" THEN { r.mv[i][2][3] : i \in 1..Len(r.mv) }
             ELSE IF r.t = "sc" THEN { r.sc[3] } ELSE {}
RInexact(r) == 8 \in RKinds(r)
KindOK(R) ==      \* R: a set of recorded values
    IF \E r \in R : r.t \notin {"mv", "sc"} THEN "NA"
    ELSE IF \E r \in R : RKinds(r) \cap FloatKinds # {} THEN "FAIL"
    ELSE IF \E r \in R : ~(RKinds(r) \subseteq ExactKinds) THEN "SKIP" ELSE "OK"
MVIsX(r, m, n) == IF r.t = "mv" /\ ~MVBad(m) /\ RInexact(r) THEN "FAIL" ELSE MVIs(r, m, n)
ScIsX(r, q) == IF r.t = "sc" /\ ~IsBad(q) /\ RInexact(r) THEN "FAIL" ELSE ScIs(r, q)
SpcClauses(c, o) ==
    LET g  == c.g
        n  == c.n
        A  == MVOfTerms(c.a, g)
        B  == MVOfTerms(c.b, g)
        E  == [geo |-> MVProd("geo", A, B, g), out |-> MVProd("out", A, B, g),
               inn |-> MVProd("inn", A, B, g), scl |-> MVProd("scl", A, B, g),
               lc  |-> MVProd("lc", A, B, g),  rc  |-> MVProd("rc", A, B, g)]
        Er == [geo |-> MVProd("geo", B, A, g), out |-> MVProd("out", B, A, g),
               inn |-> MVProd("inn", B, A, g), scl |-> MVProd("scl", B, A, g),
               lc  |-> MVProd("lc", B, A, g),  rc  |-> MVProd("rc", B, A, g)]
        NS == MVNormSq(A, g)
        fld == \A i \in 1..Len(c.a) : c.a[i][2][3] = 1
        app == (IsMonomial(A) \/ IsVector(A)) /\ ~MVBad(A) /\ ~IsBad(NS) /\ ~QIsZero(NS)
        IsI(r, m) == IF fld THEN MVIsX(r, m, n) ELSE MVIs(r, m, n)
        Tab(name, rr, ee) ==
            [i \in 1..5 |-> Cl(name, MvOps[i], MVIsX(rr[MvOps[i]], ee[MvOps[i]], n))]
            \o << Cl(name, "scl", ScIsX(rr.scl, ScalarPart(ee.scl))) >>
    IN  << \* the space: its dimension, diagonal metric entries = the requested ones
           Cl("ctor-space", "metric",
              St(FALSE, /\ o.sp.dims = n /\ o.sp.same = 1 /\ o.sp.offd = 1 /\ Len(o.sp.gm) = n
                        /\ \A i \in 1..Len(o.sp.gm) : i <= n => QOf(o.sp.gm[i]) = QInt(g[i]))),
           Cl("exact-kind", "metric",
              IF \A i \in 1..Len(o.sp.gm) : o.sp.gm[i][3] \in ExactKinds THEN "OK"
              ELSE IF \E i \in 1..Len(o.sp.gm) : o.sp.gm[i][3] \in FloatKinds THEN "FAIL" ELSE "SKIP"),
           Cl("ctor-value", "a", MVIsX(o.a, A, n)),
           Cl("ctor-value", "b", MVIsX(o.b, B, n)) >>
        \o Tab("table", o.p, E) \o Tab("table-swapped", o.q, Er)
        \o [i \in 1..6 |-> Cl("exact-kind", AllOps[i], KindOK({ o.p[AllOps[i]], o.q[AllOps[i]] }))]
        \o << Cl("norm-squared", "norm_squared",
                 Both(ScIsX(o.nsa, NS), ScIsX(o.nsb, MVNormSq(B, g)))),
              Cl("exact-kind", "norm_squared", KindOK({ o.nsa, o.nsb })),
              Cl("pseudoscalar", "I", MVIsX(o.I, MVPseudo(n), n)),
              Cl("dual", "dual", MVIsX(o.dual, MVDual(A, n, g), n)),
              Cl("exact-kind", "dual", KindOK({ o.dual, o.I })),
              Cl("power", "**", MVIsX(o.sq, MVProd("geo", A, A, g), n)),
              Cl("exact-kind", "**", KindOK({ o.sq })),
              \* the inverse law, as in the unary kind
              Cl("inverse", "inv",
                 IF o.inv.t = "mv"
                 THEN IF MVBad(A) THEN "SKIP"
                      \* a float beyond the bounds cannot be the inverse when that is
                      \* unique and within the bounds
                      ELSE IF RInexact(o.inv)
                      THEN (IF fld /\ app /\ ~MVBad(MVInv(A, g)) THEN "FAIL" ELSE "SKIP")
                      ELSE IF RUnrep(o.inv) THEN "SKIP"
                      ELSE LET X == RMV(o.inv)
                               p1 == MVProd("geo", X, A, g)
                               p2 == MVProd("geo", A, X, g)
                           IN  St(MVBad(p1) \/ MVBad(p2), p1 = MVOne /\ p2 = MVOne)
                 ELSE IF app THEN "FAIL" ELSE "NA"),
              Cl("inverse", "inv*a",
                 IF o.inv.t = "mv" \/ app
                 THEN Both(IsI(o.inv_a, MVOne), IsI(o.a_inv, MVOne))
                 ELSE "NA"),
              Cl("exact-kind", "inv",
                 IF fld /\ o.inv.t = "mv" THEN KindOK({ o.inv, o.inv_a, o.a_inv }) ELSE "NA") >>

(******************************** prog *************************************)
\* a straight-line program over registers: value of every register by the M-layer
RECURSIVE ProgVals(_, _, _, _)
ProgVals(regs, ins, i, c) ==
    IF i > Len(ins) THEN regs
    ELSE LET x  == regs[ins[i].i]
             y  == regs[ins[i].j]
             op == ins[i].op
             v  == CASE op \in Ops   -> MVProd(op, x, y, c.g)
                     [] op = "add"   -> MVAdd(x, y)
                     [] op = "sub"   -> MVSub(x, y)
                     [] op = "rev"   -> MVRev(x)
                     [] op = "invol" -> MVInvol(x)
                     [] op = "neg"   -> MVNeg(x)
                     [] op = "dual"  -> MVDual(x, c.n, c.g)
                     [] op = "smul"  -> MVScale(QOf(ins[i].q), x)
                     [] op = "radd"  -> MVAdd(MVScalar(QOf(ins[i].q)), x)
                     [] op = "rsub"  -> MVSub(MVScalar(QOf(ins[i].q)), x)
         IN  ProgVals(Append(regs, IF op = "scl" THEN MVScalar(ScalarPart(v)) ELSE v), ins, i + 1, c)
ProgClauses(c, o) ==
    LET init == [i \in 1..Len(c.regs) |-> MVOfTerms(c.regs[i], c.g)]
        vals == ProgVals(init, c.ins, 1, c)
        nr   == Len(c.regs)
    IN  [i \in 1..Len(vals) |->
            Cl("program-step", IF i <= nr THEN "ctor" ELSE c.ins[i - nr].op,
               IF i > nr /\ c.ins[i - nr].op = "scl"
               THEN ScIs(o.v[i], ScalarPart(vals[i]))
               ELSE MVIs(o.v[i], vals[i], c.n))]

(****************************** verdicts ***********************************)
Clauses(rec) ==
    CASE rec.c.k = "pair"   -> PairClauses(rec.c, rec.o)
      [] rec.c.k = "triple" -> TripleClauses(rec.c, rec.o)
      [] rec.c.k = "unary"  -> UnaryClauses(rec.c, rec.o)
      [] rec.c.k = "bilin"  -> BilinClauses(rec.c, rec.o)
      [] rec.c.k = "eq"     -> EqClauses(rec.c, rec.o)
      [] rec.c.k = "prog"   -> ProgClauses(rec.c, rec.o)
      [] rec.c.k = "sym"    -> SymClauses(rec.c, rec.o)
      [] rec.c.k = "symeq"  -> SymEqClauses(rec.c, rec.o)
      [] rec.c.k = "hist"   -> HistClauses(rec.c, rec.o)
      [] rec.c.k = "spc"    -> SpcClauses(rec.c, rec.o)

Report ==
    Idx <= Len(Recs) =>
      LET rec == Recs[Idx]
          cl  == Clauses(rec)
          fi  == { i \in 1..Len(cl) : cl[i].s = "FAIL" }
          ns  == Cardinality({ i \in 1..Len(cl) : cl[i].s = "SKIP" })
          nna == Cardinality({ i \in 1..Len(cl) : cl[i].s = "NA" })
      IN  IF fi # {}
          THEN PrintT(ToJson([id |-> rec.id, v |-> "FAIL",
                              fails |-> { [c |-> cl[i].c, op |-> cl[i].op, w |-> cl[i].w] : i \in fi },
                              nc |-> Len(cl)]))
          ELSE IF ns > 0
          THEN PrintT(ToJson([id |-> rec.id, v |-> "SKIP", ns |-> ns, nc |-> Len(cl)]))
          ELSE TRUE
=============================================================================
