CONSTANT HBuggy = "FuseIdsInPlace"
CONSTANT Alias = TRUE
CONSTANT MaxOps = 2
CONSTANT MaxLen = 8
CONSTANT MaxObj = 20
INIT Init
NEXT Next
INVARIANT HInv_Value
CHECK_DEADLOCK FALSE
