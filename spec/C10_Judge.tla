------------------------------ MODULE C10_Judge ------------------------------
(***************************************************************************)
(* Stage (3) for C10: every result recorded from the real differentiate()  *)
(* / DifferentiationMapper is judged against the dual-number meaning.      *)
(* A record is                                                             *)
(*   [id, e, v, outs, runs]                                                *)
(*   outs : the distinct observations  [r |-> "ok", e |-> tree, py |-> values pymbolic's own *)
(*          evaluator gave at the points of the box] | [r |-> "err", v |-> error] | [r |-> "unser"] *)
(*   runs : [ns, entry, sh, k]  which setting / entry point / object-sharing variant of the input *)
(*          (0 = nothing shared) produced outs[k]; a record of a history on one mapper           *)
(*          (C10_Hist) has the one run of that step                                               *)
(* The value of a returned tree is computed here (Eval), never in Python.  *)
(* The A-layer's prediction and Python's own evaluation of the returned    *)
(* tree are compared too, but only reported (DRIFT / EVALDIFF).            *)
(***************************************************************************)
EXTENDS C10_Diff, Json, IOUtils
VARIABLES blk, off

Recs == ndJsonDeserialize(IOEnv.TRACE_FILE)
BS == 16
NB == (Len(Recs) + BS - 1) \div BS
Init == blk \in 0..(NB - 1) /\ off = 0
Next == off < BS - 1 /\ off' = off + 1 /\ UNCHANGED blk
Idx == blk * BS + off + 1

NsOf(rec, k) == { rec.runs[j].ns : j \in { j \in 1..Len(rec.runs) : rec.runs[j].k = k } }
Pick(S) == CHOOSE s \in S : TRUE

OutVerdict(rec, k) ==
    LET out == rec.outs[k]
        nss == NsOf(rec, k)
        refuse == { ns \in nss : MustRefuse(rec.e, ns) }
        allow == nss \ refuse
        R(v, env, ns) == [k |-> k, v |-> v, env |-> env, ns |-> ns, np |-> 0]
    IN IF out.r = "unser" \/ ~InFragment(rec.e) THEN R("SKIP", 0, "")
       ELSE IF refuse # {} /\ ~IsRefusalOf(rec.e, out)
            THEN R(IF out.r = "err" THEN "raised" ELSE "not-refused", 0, Pick(refuse))
       ELSE IF allow = {} THEN R("REFUSED", 0, "")
       \* (round 4) an input with a foreign node kind: a refusal is accepted, a tree is judged against
       \* the meaning of the input, and a tree for an input that denotes nothing is "not-refused"
       ELSE IF Foreign(rec.e) /\ IsRefusalOf(rec.e, out) THEN R("REFUSED", 0, "")
       ELSE IF out.r = "err" THEN R(IF NowhereDefined(rec.e, rec.v) THEN "SKIP" ELSE "raised", 0, Pick(allow))
       ELSE IF Foreign(rec.e) /\ NowhereDefined(rec.e, rec.v) THEN R("not-refused", 0, Pick(allow))
       ELSE LET j == JudgeTree(rec.e, rec.v, out.e) IN [R(j.v, j.env, Pick(allow)) EXCEPT !.np = j.np]

\* Python's own evaluation of the returned tree against Eval (a check of the oracle's mirror,
\* harness/envobjs.py, and of the evaluator; reported, never a verdict on differentiation)
EvalDiff(out) ==
    out.r = "ok" /\ \E i \in 1..Len(Envs) :
        LET tv == Eval(out.e, Envs[i]) pv == out.py[i] IN
        /\ ~IsUnrep(tv) /\ ~IsUnrep(pv)
        /\ IF IsErr(tv) \/ IsErr(pv) THEN ~(IsErr(tv) /\ IsErr(pv) /\ tv.e = pv.e)
           ELSE ~(IsNum(tv) /\ IsNum(pv) /\ ValEq(tv, pv))

\* (the prediction does not depend on the entry point, on the sharing variant or on the history:
\* one comparison per distinct (setting, observation) pair)
DriftP(rec, ns, k) ==
    LET out == rec.outs[k] pred == Predicted(rec.e, rec.v, ns) IN
    IF out.r = "unser" \/ (pred.r = "err" /\ pred.v.e \in {"Unrep", "ZeroDivisionError", "TypeError"}) THEN FALSE
    ELSE IF pred.r # out.r THEN TRUE
    ELSE IF pred.r = "ok" THEN pred.e # out.e ELSE pred.v.e # out.v.e

Report ==
    Idx <= Len(Recs) =>
      LET rec == Recs[Idx]
          F(k) == OutVerdict(rec, k)
          vs == MapSeq(Len(rec.outs), F)
          bad == { k \in 1..Len(vs) : vs[k].v \notin {"OK", "SKIP", "REFUSED"} }
          RECURSIVE Pts(_)
          Pts(k) == IF k > Len(vs) THEN 0 ELSE vs[k].np + Pts(k + 1)
          drifting == { p \in { << rec.runs[j].ns, rec.runs[j].k >> : j \in 1..Len(rec.runs) } : DriftP(rec, p[1], p[2]) }
          nDrift == Cardinality({ j \in 1..Len(rec.runs) : << rec.runs[j].ns, rec.runs[j].k >> \in drifting })
          nEvalDiff == Cardinality({ k \in 1..Len(rec.outs) : EvalDiff(rec.outs[k]) })
      IN /\ \A k \in bad : PrintT(ToJson([id |-> rec.id, v |-> vs[k].v, k |-> k, env |-> vs[k].env, ns |-> vs[k].ns,
                                          feats |-> SetToSeq(Features(rec.e, rec.v))]))
         /\ (bad # {} \/ (\E k \in 1..Len(vs) : vs[k].v \in {"OK", "REFUSED"})
             \/ PrintT(ToJson([id |-> rec.id, v |-> "SKIP"])))
         /\ (bad # {} \/ ~(\A k \in 1..Len(vs) : vs[k].v \in {"REFUSED", "SKIP"}) \/ ~(\E k \in 1..Len(vs) : vs[k].v = "REFUSED")
             \/ PrintT(ToJson([id |-> rec.id, v |-> "REFUSED"])))
         /\ (Pts(1) = 0 \/ PrintT(ToJson([id |-> rec.id, v |-> "PTS", n |-> Pts(1)])))
         /\ (nDrift = 0 \/ PrintT(ToJson([id |-> rec.id, v |-> "DRIFT", n |-> nDrift])))
         /\ (nEvalDiff = 0 \/ PrintT(ToJson([id |-> rec.id, v |-> "EVALDIFF", n |-> nEvalDiff])))
=============================================================================
