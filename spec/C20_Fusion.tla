----------------------------- MODULE C20_Fusion -----------------------------
(***************************************************************************)
(* C20, S-layer: a program is built up by repeatedly fusing statement      *)
(* streams.  State: the stream built so far (cur) and a log of the last    *)
(* step (last) for the action properties.  Actions take the freshly        *)
(* chosen names as parameters: the model checker (C20_Model) quantifies    *)
(* over every admissible choice, the trace validator (C20_Judge) binds     *)
(* them to what the implementation logged.                                 *)
(***************************************************************************)
EXTENDS C20_Imperative
CONSTANT Buggy      \* "none", or the name of a deliberately wrong variant (negative control)
VARIABLES cur, last

fvars == << cur, last >>

NoStep == [op |-> "init", SA |-> << >>, SB |-> << >>, m |-> << >>, sg |-> << >>,
           flt |-> [mode |-> "all", names |-> << >>]]

\* --- what a fusion step may do with a chosen id map m ---------------------
MapAdmissible(SA, SB, m) ==
    CASE Buggy = "NameReuse"      -> DOMAIN m = Ids(SB) /\ Injective(m)
      [] Buggy = "MapNotInjective" -> DOMAIN m = Ids(SB) /\ Range(m) \cap Ids(SA) = {}
      [] OTHER -> FreshMap(SA, SB, m)
Fused(SA, SB, m) ==
    IF Buggy = "DepsNotRemapped"
    THEN SA \o [i \in 1..Len(SB) |-> [SB[i] EXCEPT !.id = m[@]]]
    ELSE ApplyFuse(SA, SB, m)

\* --- what a disambiguation step may do with a chosen renaming sg ----------
\* the clash set itself is under-determined between Must and May (see C20_Imperative)
RenamingAdmissible(SA, SB, flt, sg) ==
    LET ya == IdentsMay(SA)  yb == IdentsMay(SB) IN
    /\ ClashMust(SA, SB, flt) \subseteq DOMAIN sg
    /\ DOMAIN sg \subseteq (IF Buggy = "FilterIgnored"
                            THEN ya \cap yb ELSE {x \in ya \cap yb : Pass(flt, x)})
    /\ Injective(sg)
    /\ Range(sg) \cap (ya \cup yb) = {}
Disambiguated(SB, sg) ==
    IF Buggy = "RenameRhsOnly"
    THEN [i \in 1..Len(SB) |-> [SB[i] EXCEPT !.rhs = RenameE(@, sg)]]
    ELSE RenameStream(SB, sg)

\* --- actions ----------------------------------------------------------------
FuseAct(SA, SB, m) ==
    /\ MapAdmissible(SA, SB, m)
    /\ cur' = Fused(SA, SB, m)
    /\ last' = [NoStep EXCEPT !.op = "fuse", !.SA = SA, !.SB = SB, !.m = m]

DafAct(SA, SB, flt, sg, m) ==
    /\ RenamingAdmissible(SA, SB, flt, sg)
    /\ MapAdmissible(SA, Disambiguated(SB, sg), m)
    /\ cur' = Fused(SA, Disambiguated(SB, sg), m)
    /\ last' = [NoStep EXCEPT !.op = "daf", !.SA = SA, !.SB = SB, !.m = m, !.sg = sg, !.flt = flt]

\* --- invariants of every reachable program ----------------------------------
Inv_IdsDistinct == IdsDistinct(cur)
Inv_DepsClosed  == DepsClosed(cur)
Inv_Acyclic     == Acyclic(cur)
Inv_StreamOK    == StreamOK(cur)

\* --- the property's sentences about one step, stated on the post-state ------
\* (the declarative clauses of C20_Imperative must accept what the machine did)
Step_FuseClauses ==
    last.op = "fuse" => FuseClause(last.SA, last.SB, cur, last.m) = "OK"
Step_DafClauses ==
    last.op = "daf" =>
        LET SB2 == RenameStream(last.SB, last.sg) IN
        /\ DisClause(last.SA, last.SB, last.flt, SB2, last.sg) = "OK"
        /\ FuseClause(last.SA, SB2, cur, last.m) = "OK"
Step_DisClauses ==
    last.op = "dis" =>
        DisClause(last.SA, last.SB, last.flt, RenameStream(last.SB, last.sg), last.sg) = "OK"
\* first operand kept as a prefix, dependency graph of the appended part isomorphic
Step_PrefixKept ==
    last.op \in {"fuse", "daf"} => /\ Len(cur) = Len(last.SA) + Len(last.SB)
                        /\ StreamEq(SubSeq(cur, 1, Len(last.SA)), last.SA)
Step_DepIso ==
    last.op \in {"fuse", "daf"} =>
        \A i, j \in 1..Len(last.SB) :
            (last.SB[j].id \in Deps(last.SB[i]))
              <=> (cur[Len(last.SA) + j].id \in Deps(cur[Len(last.SA) + i]))
\* after disambiguate-and-fuse the two parts share no identifier that passes the filter
Step_NoSharedIdent ==
    last.op = "daf" =>
        LET nA == Len(last.SA) IN
        {x \in IdentsMust(SubSeq(cur, 1, nA)) \cap IdentsMust(SubSeq(cur, nA + 1, Len(cur))) :
            Pass(last.flt, x)} = {}
=============================================================================
