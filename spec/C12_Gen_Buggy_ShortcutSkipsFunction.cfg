CONSTANTS
  Tier = "neg"
  Mode = "exh"
  Bug = "ShortcutSkipsFunction"
INIT Init
NEXT Next
INVARIANT TagModelMeetsProperty
CHECK_DEADLOCK FALSE
