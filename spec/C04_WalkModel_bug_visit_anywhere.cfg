CONSTANTS
  Bug = "visit_anywhere"
  MaxN = 4
  MaxNAll = 2
  MaxF = 1
INIT Init
NEXT Next
CONSTRAINT Bounded
INVARIANT StackIsPath
INVARIANT PendingSane
INVARIANT Sound
INVARIANT FoldAgrees
INVARIANT MutEquiv
INVARIANT AllSeqs
CHECK_DEADLOCK FALSE
