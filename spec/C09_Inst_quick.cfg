CONSTANT Tier = "quick"
CONSTANT Buggy = "none"
INIT Init
NEXT Next
INVARIANT InstInvHolds
INVARIANT Emit
CHECK_DEADLOCK FALSE
