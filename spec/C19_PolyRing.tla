---------------------------- MODULE C19_PolyRing ----------------------------
(***************************************************************************)
(* C19, parts (d) Polynomial ring operations and (e) the quotient node.    *)
(*                                                                         *)
(* M-layer (decides): a univariate polynomial over Q is its coefficient    *)
(* function, here a dense sequence <<c0, c1, ..>> of PyNum numbers without *)
(* trailing zeros; +, -, *, ** and evaluation are the textbook             *)
(* definitions; division with remainder is characterised by the identity   *)
(* p = q*d + r together with "deg r < deg d unless the leading             *)
(* coefficient does not divide" (Python's divmod on the coefficients).     *)
(*                                                                         *)
(* A-layer (never decides about the implementation): pymbolic's sparse     *)
(* representation ((exp, coeff), ...) with _sort_uniq, the merge in        *)
(* __add__, __rsub__, scalar products, IdentityMapper.map_polynomial and   *)
(* Polynomial.__divmod__ as the code has them.  Discovered deviations are  *)
(* named operators Dev_xxx in the comments.                               *)
(***************************************************************************)
EXTENDS PyNum

ZeroV == IntV(0)
OneV == IntV(1)
IsZeroV(v) == IsNum(v) /\ v.n = 0
VAdd(a, b) == PyBin("+", a, b)
VSub(a, b) == PyBin("-", a, b)
VMul(a, b) == PyBin("*", a, b)
VNeg(a) == PyUn("-", a)
\* exact quotient of two numbers in Q (b # 0)
VDivQ(a, b) ==
    IF ~(IsNum(a) /\ IsNum(b)) \/ ~(Small(a) /\ Small(b)) THEN Unrep
    ELSE Chk(MkNum("frac", a.n * b.d, a.d * b.n))
\* Python's divmod(a, b) on int / Fraction, b # 0
VFloorDiv(a, b) == PyBin("//", a, b)
VMod(a, b) == PyBin("%", a, b)

(*************************** dense polynomials *****************************)
RECURSIVE Trim(_)
Trim(s) == IF Len(s) > 0 /\ IsZeroV(s[Len(s)]) THEN Trim(SubSeq(s, 1, Len(s) - 1)) ELSE s
Coef(p, i) == IF i >= 1 /\ i <= Len(p) THEN p[i] ELSE ZeroV
PBad(p) == \E i \in 1..Len(p) : ~IsNum(p[i])
Deg(p) == Len(p) - 1                                 \* -1 for the zero polynomial
Lead(p) == p[Len(p)]
MaxN(a, b) == IF a < b THEN b ELSE a

SumV(s) == LET RECURSIVE S(_) S(i) == IF i = 0 THEN ZeroV ELSE VAdd(S(i - 1), s[i]) IN S(Len(s))

PConst(v) == Trim(<< v >>)
PAdd(a, b) == Trim([i \in 1..MaxN(Len(a), Len(b)) |-> VAdd(Coef(a, i), Coef(b, i))])
PNeg(a) == [i \in 1..Len(a) |-> VNeg(a[i])]
PSub(a, b) == PAdd(a, PNeg(b))
PScale(a, v) == Trim([i \in 1..Len(a) |-> VMul(a[i], v)])
PMul(a, b) ==
    IF Len(a) = 0 \/ Len(b) = 0 THEN << >>
    ELSE Trim([k \in 1..(Len(a) + Len(b) - 1) |->
                 SumV([i \in 1..Len(a) |-> VMul(a[i], Coef(b, k - i + 1))])])
RECURSIVE PPow(_, _)
PPow(a, n) == IF n = 0 THEN << OneV >> ELSE PMul(PPow(a, n - 1), a)
PShift(a, k) == IF Len(a) = 0 THEN a ELSE [i \in 1..(Len(a) + k) |-> IF i <= k THEN ZeroV ELSE a[i - k]]
PEq(a, b) == Len(a) = Len(b) /\ \A i \in 1..Len(a) : ValEq(a[i], b[i])
\* value at the point x: sum of c_i * x^i (Horner bracketing)
PVal(p, x) == LET RECURSIVE H(_) H(i) == IF i > Len(p) THEN ZeroV ELSE VAdd(p[i], VMul(x, H(i + 1)))
              IN H(1)
PX == << ZeroV, OneV >>

\* division with remainder over the field Q (d # 0): <<q, r>> with deg r < deg d
RECURSIVE PDivModQ(_, _)
PDivModQ(a, d) ==
    IF PBad(a) THEN << << Unrep >>, << Unrep >> >>
    ELSE IF Len(a) < Len(d) THEN << << >>, a >>
    ELSE LET f    == VDivQ(Lead(a), Lead(d))
             term == PShift(<< f >>, Len(a) - Len(d))
             rest == PSub(a, PMul(term, d))          \* exact arithmetic: the leading term cancels
         IN  IF ~IsNum(f) \/ PBad(rest) \/ Len(rest) >= Len(a) THEN << << Unrep >>, << Unrep >> >>
             ELSE LET qr == PDivModQ(rest, d) IN << PAdd(term, qr[1]), qr[2] >>
PDividesQ(d, a) == IF Len(d) = 0 THEN Len(a) = 0 ELSE Len(PDivModQ(a, d)[2]) = 0
\* monic greatest common divisor over Q[x] by Euclid's algorithm (the zero polynomial for (0,0))
PMonic(a) == IF Len(a) = 0 THEN a ELSE LET l == Lead(a) IN [i \in 1..Len(a) |-> VDivQ(a[i], l)]
RECURSIVE PGcdQ(_, _)
PGcdQ(a, b) == IF PBad(a) \/ PBad(b) THEN << Unrep >>
               ELSE IF Len(b) = 0 THEN PMonic(a) ELSE PGcdQ(b, PDivModQ(a, b)[2])

(*************************** sparse data ***********************************)
(* pymbolic: Polynomial.data = ((exp, coeff), ...), JSON [e |-> .., c |-> ..] *)
Ent(e, c) == [e |-> e, c |-> c]
MAXEXP == 40
DataOK(data) == \A i \in 1..Len(data) : data[i].e >= 0 /\ data[i].e <= MAXEXP
DataMaxExp(data) ==
    LET RECURSIVE M(_) M(i) == IF i = 0 THEN -1 ELSE MaxN(M(i - 1), data[i].e) IN M(Len(data))
\* the coefficient function of a data tuple (entries with the same exponent add up)
FromData(data) ==
    Trim([i \in 1..(DataMaxExp(data) + 1) |->
            LET RECURSIVE S(_)
                S(j) == IF j = 0 THEN ZeroV
                        ELSE IF data[j].e = i - 1 THEN VAdd(S(j - 1), data[j].c) ELSE S(j - 1)
            IN S(Len(data))])
\* normal form: increasing exponents, one entry per exponent, no zero coefficients
ToData(p) ==
    LET RECURSIVE T(_)
        T(i) == IF i = 0 THEN << >>
                ELSE IF IsZeroV(p[i]) THEN T(i - 1) ELSE Append(T(i - 1), Ent(i - 1, p[i]))
    IN T(Len(p))
NormalData(data) ==
    /\ \A i \in 1..Len(data) : ~IsZeroV(data[i].c)
    /\ \A i \in 1..(Len(data) - 1) : data[i].e < data[i + 1].e
DataEq(a, b) == Len(a) = Len(b) /\ \A i \in 1..Len(a) :
                    a[i].e = b[i].e /\ IsNum(a[i].c) /\ IsNum(b[i].c) /\ ValEq(a[i].c, b[i].c)

(*************************** A-layer ***************************************)
\* list.sort(key=exp) is stable: insertion sort
SortByExp(data) ==
    LET RECURSIVE Ins(_, _)
        Ins(s, x) == IF Len(s) = 0 \/ s[Len(s)].e <= x.e THEN Append(s, x)
                     ELSE Append(Ins(SubSeq(s, 1, Len(s) - 1), x), s[Len(s)])
        RECURSIVE Srt(_)
        Srt(i) == IF i = 0 THEN << >> ELSE Ins(Srt(i - 1), data[i])
    IN Srt(Len(data))

\* pymbolic.polynomial._sort_uniq as the code has it: entries with the same exponent are added
\* up; when a sum cancels the entry is popped and last_exp is reset, so that a further entry
\* with the same exponent starts a new entry.  (Historical Dev_PopKeepsLastExp, C19-F3,
\* repaired: last_exp was kept and the further entry was merged into whatever entry was then
\* last.)  "hit" records that this path - a further entry on an exponent whose entry has just
\* been popped - was taken: the attribution of a regression; "ierr" that uniq_result was empty
\* when an entry was to be merged (IndexError; unreachable in the code as it is).
SortUniqT(data) ==
    LET s == SortByExp(data)
        RECURSIVE Go(_, _, _, _, _)
        \* last: last_exp (-1 for None); pe: the exponent whose entry has just been popped (-1: none)
        Go(i, acc, last, pe, st) ==
            IF i > Len(s) \/ st.ierr THEN [d |-> acc, hit |-> st.hit, ierr |-> st.ierr]
            ELSE IF last = s[i].e
                 THEN IF Len(acc) = 0 THEN Go(i + 1, acc, last, pe, [hit |-> TRUE, ierr |-> TRUE])
                      ELSE LET nc == VAdd(acc[Len(acc)].c, s[i].c) IN
                           IF IsZeroV(nc) THEN Go(i + 1, SubSeq(acc, 1, Len(acc) - 1), -1, last, st)
                           ELSE Go(i + 1, [acc EXCEPT ![Len(acc)] = Ent(last, nc)], last, pe, st)
                 ELSE Go(i + 1, Append(acc, s[i]), s[i].e, -1, [st EXCEPT !.hit = st.hit \/ (pe = s[i].e)])
    IN  Go(1, << >>, -1, -1, [hit |-> FALSE, ierr |-> FALSE])
SortUniq(data) == SortUniqT(data).d

\* all partial products, "for s in self.Data: for o in other.Data"
Products(sd, od) ==
    [k \in 1..(Len(sd) * Len(od)) |->
        LET i == ((k - 1) \div Len(od)) + 1 j == ((k - 1) % Len(od)) + 1 IN
        Ent(sd[i].e + od[j].e, VMul(sd[i].c, od[j].c))]
ImplMul(sd, od) == SortUniq(Products(sd, od))
\* does this product run into Dev_PopKeepsLastExp ?
MulHits(sd, od) == Len(sd) > 0 /\ Len(od) > 0 /\ SortUniqT(Products(sd, od)).hit

ImplNeg(sd) == [i \in 1..Len(sd) |-> Ent(sd[i].e, VNeg(sd[i].c))]
\* Polynomial.__add__ on two polynomials over the same base: the two-finger merge
ImplAdd(sd, od) ==
    LET RECURSIVE M(_, _)
        M(i, j) ==
            IF i > Len(sd) THEN SubSeq(od, j, Len(od))
            ELSE IF j > Len(od) THEN SubSeq(sd, i, Len(sd))
            ELSE IF sd[i].e = od[j].e
                 THEN LET c == VAdd(sd[i].c, od[j].c) IN
                      (IF IsZeroV(c) THEN << >> ELSE << Ent(sd[i].e, c) >>) \o M(i + 1, j + 1)
            ELSE IF sd[i].e > od[j].e THEN << od[j] >> \o M(i, j + 1)
            ELSE << sd[i] >> \o M(i + 1, j)
    IN M(1, 1)
\* "if not other: return self"; a non-polynomial becomes Polynomial(base, ((0, other),))
ImplAddScalar(sd, v) == IF IsZeroV(v) THEN sd ELSE ImplAdd(sd, << Ent(0, v) >>)
ImplSub(sd, od) == ImplAdd(sd, ImplNeg(od))
ImplSubScalar(sd, v) == ImplAddScalar(sd, VNeg(v))
\* __rsub__(self, other) == (-self) + other   (historical Dev_RsubSign, C19-F2, repaired: it
\* was (-other) + self, i.e. self - other)
ImplRSubScalar(sd, v) == ImplAddScalar(ImplNeg(sd), v)
\* scalar products keep zero coefficients
ImplMulScalar(sd, v) == [i \in 1..Len(sd) |-> Ent(sd[i].e, VMul(sd[i].c, v))]
\* integer_power(self, k, Polynomial(base, ((0, 1),)))
ImplPow(sd, k) ==
    LET RECURSIVE Loop(_, _, _)
        Loop(aux, x, n) ==
            IF n > 0
            THEN LET aux2 == IF (n % 2) = 1 THEN ImplMul(aux, x) ELSE aux IN
                 IF n = 1 THEN aux2 ELSE Loop(aux2, ImplMul(x, x), n \div 2)
            ELSE aux
    IN Loop(<< Ent(0, OneV) >>, sd, k)
\* does some multiplication of P**k run into Dev_PopKeepsLastExp (computed on the true products)?
PowHits(p, k) ==
    LET RECURSIVE Loop(_, _, _)
        Loop(aux, x, n) ==
            IF n > 0
            THEN LET odd == (n % 2) = 1
                     h1 == odd /\ MulHits(ToData(aux), ToData(x))
                     aux2 == IF odd THEN PMul(aux, x) ELSE aux IN
                 IF h1 THEN TRUE ELSE IF n = 1 THEN FALSE
                 ELSE IF MulHits(ToData(x), ToData(x)) THEN TRUE ELSE Loop(aux2, PMul(x, x), n \div 2)
            ELSE FALSE
    IN Loop(<< OneV >>, p, k)

(***************************************************************************)
(* Mappers: IdentityMapper subclasses.  A mapper is described by the case  *)
(* fields                                                                  *)
(*   map    the constant rule f (map_constant): "dbl" 2c, "neg" -c,        *)
(*          "inc" c+1, "half" (an even integer is halved, every other      *)
(*          constant handed back), "keep" (every constant handed back)     *)
(*   mmode  "all": f is applied to every constant; "only": f is applied to *)
(*          the constants equal to a member of msel, every other constant  *)
(*          is handed back as the identical object                         *)
(*   msel   the selected constants (a sequence of numbers)                 *)
(*   mbase  the variable rule (map_variable) renames the base variable x   *)
(*          to this name ("x": the base is handed back)                    *)
(*   mbind  the variable rule replaces the parameter p<i> (a coefficient   *)
(*          [k |-> "sym", n |-> i, d |-> 1], pymbolic Variable("p<i>")) by *)
(*          the number mbind[i]; a bound value is not passed through f     *)
(* so that a mapper may rewrite every coefficient, any subset of the       *)
(* coefficient positions (also none), and/or only the base.  map = "none"  *)
(* means that no mapper is applied at all.                                 *)
(***************************************************************************)
Maps == {"dbl", "neg", "inc"}                 \* the rules that change every constant they see
MapFns == Maps \cup {"half", "keep"}
IsSym(v) == v.k = "sym"
HasSym(data) == \E i \in 1..Len(data) : IsSym(data[i].c)
MapCoef(map, c) == CASE map = "dbl" -> VMul(IntV(2), c)
                     [] map = "neg" -> VNeg(c)
                     [] map = "inc" -> VAdd(c, OneV)
                     [] map = "half" -> IF c.k = "int" /\ (c.n % 2) = 0 THEN IntV(c.n \div 2) ELSE c
                     [] map = "keep" -> c
Selected(m, v) == m.mmode = "all" \/ \E i \in 1..Len(m.msel) : IsNum(v) /\ ValEq(m.msel[i], v)
\* what the mapper m (a record with the fields above, e.g. the case) makes of one coefficient
MapCoefM(m, v) ==
    IF IsSym(v) THEN (IF v.n >= 1 /\ v.n <= Len(m.mbind) THEN m.mbind[v.n] ELSE v)
    ELSE IF ~IsNum(v) THEN v
    ELSE IF Selected(m, v) THEN MapCoef(m.map, v) ELSE v
\* the meaning of a mapper on a polynomial: every coefficient goes through the mapper once,
\* exponents and the order of the terms stay
MapData(m, sd) == [i \in 1..Len(sd) |-> Ent(sd[i].e, MapCoefM(m, sd[i].c))]
\* A-layer, IdentityMapper.map_polynomial as the code has it: base and every coefficient are
\* mapped, the data is a tuple; when the base and every coefficient came back as the identical
\* object the argument itself is returned, otherwise a new polynomial with the mapped parts.
\* On contents both branches are MapData (the identity decision is the S-layer machine
\* alg = "map" of C19_Algo).
ImplMap(m, sd) == MapData(m, sd)
\* the historical Dev_GeneratorConsumed (C19-F1, repaired): data was a *generator*,
\* all(... zip(data, expr.data)) consumed it up to and including the first rewritten coefficient,
\* the constructor got the rest.  Kept for the attribution of a regression.
ImplMapGen(map, sd) ==
    IF Len(sd) = 0 THEN sd      \* nothing differs: "return expr"
    ELSE [i \in 1..(Len(sd) - 1) |-> Ent(sd[i + 1].e, MapCoef(map, sd[i + 1].c))]

\* Polynomial.__divmod__ for two polynomials over the same base whose unit is the integer 1
\* (coefficients treated as a Euclidean ring: Python divmod on the leading coefficients,
\* early return when it leaves a remainder)
ImplDivMod(sd, od) ==
    LET RECURSIVE W(_, _, _)
        W(quot, rem, fuel) ==
            IF fuel = 0 \/ Len(rem) = 0 \/ rem[Len(rem)].e < od[Len(od)].e THEN << quot, rem >>
            ELSE LET lc == rem[Len(rem)].c olc == od[Len(od)].c
                     cf == VFloorDiv(lc, olc) lr == VMod(lc, olc) IN
                 IF ~IsNum(cf) \/ ~IsNum(lr) THEN << << Ent(0, Unrep) >>, << Ent(0, Unrep) >> >>
                 ELSE IF ~IsZeroV(lr) THEN << quot, rem >>
                 ELSE LET fac == << Ent(rem[Len(rem)].e - od[Len(od)].e, cf) >> IN
                      W(ImplAdd(quot, fac), ImplSub(rem, ImplMul(fac, od)), fuel - 1)
    IN W(<< >>, sd, 60)

(*************************** the judge *************************************)
(* A case: [op, P, Q, s, k, map, pts]                                      *)
(*   op   two polynomials: "add" "sub" "mul" "divmod"                      *)
(*        polynomial and scalar s: "adds" (P+s) "radds" (s+P) "subs" (P-s) *)
(*        "rsubs" (s-P) "muls" (P*s) "rmuls" (s*P) "divmods" divmod(P, s)  *)
(*        "pow" (P**k)  "neg" (-P)  "mulbase" (P * x, x the base variable) *)
(*   map  "none" or the coefficient-rewriting mapper applied to the        *)
(*        polynomial operands before the operation                         *)
(* An observed polynomial: [r |-> "poly", d |-> data] | [r |-> "err", e |-> class]   *)
(*   | [r |-> "timeout"] | [r |-> "other"]                                   *)
(* An observation: [mp, mq (after the mapper; r = "same" when map = "none"),  *)
(*   res |-> <<observed polynomials>> (two for divmod),                    *)
(*   vp, vq |-> values of the operands at pts (uncached EvaluationMapper), *)
(*   vr |-> <<values of each result at pts>>,                              *)
(*   vd |-> values of the first result at pts through pymbolic.evaluate()] *)
BinOps2 == {"add", "sub", "mul", "divmod"}
ScalOps == {"adds", "radds", "subs", "rsubs", "muls", "rmuls", "divmods"}
PolyOps == BinOps2 \cup ScalOps \cup {"pow", "neg", "mulbase"}

\* the meaning of the ring operations (everything except divmod) on dense polynomials
OpSpec(op, a, b, s, k) ==
    CASE op = "add" -> PAdd(a, b)
      [] op = "sub" -> PSub(a, b)
      [] op = "mul" -> PMul(a, b)
      [] op \in {"adds", "radds"} -> PAdd(a, PConst(s))
      [] op = "subs" -> PSub(a, PConst(s))
      [] op = "rsubs" -> PSub(PConst(s), a)
      [] op \in {"muls", "rmuls"} -> PScale(a, s)
      [] op = "pow" -> PPow(a, k)
      [] op = "neg" -> PNeg(a)
      [] op = "mulbase" -> PMul(a, PX)
\* the same operation on values
OpVal(op, va, vb, s, k, x) ==
    CASE op = "add" -> VAdd(va, vb)
      [] op = "sub" -> VSub(va, vb)
      [] op = "mul" -> VMul(va, vb)
      [] op \in {"adds", "radds"} -> VAdd(va, s)
      [] op = "subs" -> VSub(va, s)
      [] op = "rsubs" -> VSub(s, va)
      [] op \in {"muls", "rmuls"} -> VMul(va, s)
      [] op = "pow" -> PyBin("**", va, IntV(k))
      [] op = "neg" -> VNeg(va)
      [] op = "mulbase" -> VMul(va, x)
\* the A-layer's prediction of the resulting data tuple
OpImpl(op, sd, od, s, k) ==
    CASE op = "add" -> ImplAdd(sd, od)
      [] op = "sub" -> ImplSub(sd, od)
      [] op = "mul" -> ImplMul(sd, od)
      [] op \in {"adds", "radds"} -> ImplAddScalar(sd, s)
      [] op = "subs" -> ImplSubScalar(sd, s)
      [] op = "rsubs" -> ImplRSubScalar(sd, s)
      [] op \in {"muls", "rmuls"} -> ImplMulScalar(sd, s)
      [] op = "pow" -> ImplPow(sd, k)
      [] op = "neg" -> ImplNeg(sd)
      [] op = "mulbase" -> ImplMul(sd, << Ent(1, OneV) >>)

F(cl, at) == [cl |-> cl, at |-> at]
IsPolyObs(o) == o.r = "poly" /\ DataOK(o.d)
ObsFail(o, what) == IF o.r = "err" THEN << F(what \o "-raised", o.e) >>
                    ELSE IF o.r = "timeout" THEN << F(what \o "-timeout", "") >> ELSE << >>
ValsAgree(vs, exp) ==      \* recorded value records against expected values, "skip" when out of model
    IF Len(vs) # Len(exp) THEN "bad"
    ELSE IF \E i \in 1..Len(vs) : IsErr(vs[i]) THEN "raised"
    ELSE IF \E i \in 1..Len(vs) : IsNum(vs[i]) /\ IsNum(exp[i]) /\ ~ValEq(vs[i], exp[i]) THEN "differs"
    ELSE IF \E i \in 1..Len(vs) : ~IsNum(vs[i]) \/ ~IsNum(exp[i]) THEN "skip"
    ELSE "ok"
FirstErr(vs) == LET i == CHOOSE i \in 1..Len(vs) : IsErr(vs[i]) /\ \A j \in 1..(i - 1) : ~IsErr(vs[j])
                IN vs[i].e
ValClause(vs, exp, cl, at) ==
    LET a == ValsAgree(vs, exp) IN
    IF a \in {"differs", "bad"} THEN << F(cl, at) >>
    ELSE IF a = "raised" THEN << F(cl \o "-raised", FirstErr(vs)) >>
    ELSE IF a = "skip" THEN << F("SKIP", cl) >> ELSE << >>

\* the operand a polynomial operation really received: the recorded mapper result, or the input
Operand(inp, mo) == IF mo.r = "poly" THEN mo.d ELSE inp

\* fractions.Fraction is not one of pymbolic's constant classes: a mapper that meets one
\* refuses it ("invalid foreign object"); such inputs are outside the model
HasFrac(data) == \E i \in 1..Len(data) : data[i].c.k \notin {"int", "bool", "sym"}
\* An observed mapper result additionally carries b (the name of its base variable, "?" when
\* the base is not a variable) and id (1 when the mapper returned the very object it was given).
\* Judged: the base is the renamed base; every coefficient is what the mapper makes of it -
\* whatever subset of the positions the mapper rewrites.
MapClauses(c, inp, mo, which) ==
    IF c.map = "none" THEN << >>
    ELSE IF HasFrac(inp) /\ mo.r = "err" THEN << F("SKIP", "map-foreign-constant") >>
    ELSE IF mo.r # "poly" THEN (IF mo.r \in {"err", "timeout"} THEN ObsFail(mo, "map") ELSE << F("SKIP", "map") >>)
    ELSE IF ~DataOK(mo.d) THEN << F("SKIP", "map") >>
    ELSE LET expd == MapData(c, inp)
             \* attribution of a wrong result: the argument itself came back although the mapper
             \* rewrites a part of it / exactly the terms up to and including the first rewritten
             \* one are missing (Dev_GeneratorConsumed) / anything else
             at == IF mo.id = 1 THEN "returned-argument"
                   ELSE IF c.mmode = "all" /\ c.map \in Maps /\ ~HasSym(inp) /\ DataEq(mo.d, ImplMapGen(c.map, inp))
                        THEN "lost-through-first-rewritten" ELSE "other"
         IN
         (IF mo.b = c.mbase THEN << >> ELSE << F("map-base", at) >>)
         \o (IF HasSym(expd) THEN << F("SKIP", "map") >>                \* a parameter stays unbound: not generated
             ELSE IF HasSym(mo.d) THEN << F("map-coeffs", at) >>         \* a bound parameter is still there
             ELSE LET got == FromData(mo.d) exp == FromData(expd) IN
                  IF PBad(got) \/ PBad(exp) THEN << F("SKIP", "map") >>
                  ELSE IF PEq(got, exp) THEN << >> ELSE << F("map-coeffs", at) >>)

PolyClauses(c, o) ==
    LET pd == Operand(c.P, o.mp)
        qd == Operand(c.Q, o.mq)
        twoPolys == c.op \in BinOps2
        \* (a coefficient that still is a parameter has no number: the operand is out of model,
        \* the mapper clauses have said why)
        a == IF HasSym(pd) THEN << Unrep >> ELSE FromData(pd)
        b == IF ~twoPolys THEN << >> ELSE IF HasSym(qd) THEN << Unrep >> ELSE FromData(qd)
        npts == Len(c.pts)
        specVals(p) == [i \in 1..npts |-> PVal(p, c.pts[i])]
        resOK == \A i \in 1..Len(o.res) : IsPolyObs(o.res[i])
        resFail == LET RECURSIVE R(_)
                       R(i) == IF i > Len(o.res) THEN << >>
                               ELSE IF o.res[i].r \in {"err", "timeout"} THEN ObsFail(o.res[i], "op")
                               ELSE R(i + 1)
                   IN R(1)
        mapPart == MapClauses(c, c.P, o.mp, "P") \o (IF twoPolys THEN MapClauses(c, c.Q, o.mq, "Q") ELSE << >>)
        \* all values are taken at base variable c.mbase = point: an operand whose base is another
        \* variable (the mapper failed or did not rename it - judged above) has no value there
        baseOf(mo) == IF mo.r = "poly" THEN mo.b ELSE "x"
        basesOK == baseOf(o.mp) = c.mbase /\ (~twoPolys \/ baseOf(o.mq) = c.mbase)
        \* the evaluator on the operands: value = sum c_i x^i
        evalPart == ValClause(o.vp, specVals(a), "eval-operand", "P")
                    \o (IF twoPolys THEN ValClause(o.vq, specVals(b), "eval-operand", "Q") ELSE << >>)
        \* the value of the mapped polynomial is the value of the polynomial with the mapped
        \* coefficients (the mapping applied to the value)
        mapVal(inp, mo, vs, which) ==
            IF c.map = "none" \/ mo.r # "poly" \/ HasSym(MapData(c, inp)) THEN << >>
            ELSE LET exp == FromData(MapData(c, inp)) IN
                 IF PBad(exp) THEN << F("SKIP", "map-value") >>
                 ELSE ValClause(vs, specVals(exp), "map-value", which)
        mapValPart == mapVal(c.P, o.mp, o.vp, "P") \o (IF twoPolys THEN mapVal(c.Q, o.mq, o.vq, "Q") ELSE << >>)
    IN
    IF ~(c.op \in PolyOps /\ DataOK(c.P) /\ DataOK(c.Q) /\ DataOK(pd) /\ DataOK(qd))
    THEN << F("SKIP", "input") >>
    ELSE mapPart \o
    (IF PBad(a) \/ PBad(b) THEN << F("SKIP", "input") >>
     ELSE IF ~basesOK THEN << F("SKIP", "operand-base") >>
     ELSE mapValPart \o evalPart \o
    (IF c.op \notin {"divmod", "divmods"}
     THEN \* ---- ring operations
          IF c.op = "pow" /\ c.k < 0
          THEN (IF Len(o.res) = 1 /\ o.res[1].r = "err" THEN << >> ELSE << F("pow-negative-not-refused", "") >>)
          ELSE IF Len(resFail) > 0 THEN resFail
          ELSE IF ~resOK \/ Len(o.res) # 1 THEN << F("SKIP", "result") >>
          ELSE LET got == FromData(o.res[1].d)
                   exp == OpSpec(c.op, a, b, c.s, c.k)
                   at  == IF c.op = "mul" /\ MulHits(pd, qd) THEN "cancel-then-more"
                          ELSE IF c.op = "pow" /\ PowHits(a, c.k) THEN "cancel-then-more"
                          ELSE ""
                   hom == [i \in 1..npts |->
                             IF ~(IsNum(o.vp[i]) /\ (~twoPolys \/ IsNum(o.vq[i]))) THEN Unrep
                             ELSE OpVal(c.op, o.vp[i], IF twoPolys THEN o.vq[i] ELSE ZeroV, c.s, c.k, c.pts[i])]
               IN (IF PBad(got) \/ PBad(exp) THEN << F("SKIP", "coeffs") >>
                   ELSE IF PEq(got, exp) THEN << >> ELSE << F("op-coeffs", at) >>)
                  \* homomorphism: value of the result = the operation on the recorded values of the operands
                  \o (IF Len(o.vp) # npts \/ (twoPolys /\ Len(o.vq) # npts) \/ Len(o.vr) # 1 THEN << F("SKIP", "values") >>
                      ELSE ValClause(o.vr[1], hom, "op-value", at))
                  \o (IF Len(o.vd) = 0 \/ Len(o.vp) # npts \/ (twoPolys /\ Len(o.vq) # npts) THEN << >> ELSE
                      LET ag == ValsAgree(o.vd, hom) IN
                      IF ag = "raised" THEN << F("evaluate-default-raises", FirstErr(o.vd)) >>
                      ELSE IF ag \in {"differs", "bad"} THEN << F("evaluate-default-value", at) >> ELSE << >>)
     ELSE \* ---- division with remainder
          LET dz == IF c.op = "divmod" THEN Len(b) = 0 ELSE IsZeroV(c.s) IN
          \* a zero divisor has no quotient: refusing is right; if the code answers instead
          \* (it does for the zero polynomial divided by the scalar 0) only the identity is judged
          IF dz /\ Len(o.res) >= 1 /\ o.res[1].r = "err" THEN << >>
          \* a data tuple with zero-coefficient entries (only a mapper that rewrites a coefficient
          \* to 0 produces one here) is not the sparse form __divmod__ relies on: not judged
          ELSE IF ~NormalData(pd) \/ (c.op = "divmod" /\ ~NormalData(qd)) THEN << F("SKIP", "non-normal-operand") >>
          ELSE IF Len(resFail) > 0 THEN resFail
          ELSE IF ~resOK \/ Len(o.res) # 2 THEN << F("SKIP", "result") >>
          ELSE LET q == FromData(o.res[1].d)
                   r == FromData(o.res[2].d)
                   d == IF c.op = "divmod" THEN b ELSE PConst(c.s)
                   back == PAdd(PMul(q, d), r)
                   \* the division may stop only when Python's divmod of the leading coefficients
                   \* leaves a remainder
                   reduced == Len(r) < Len(d)
                              \/ LET m == VMod(Lead(r), Lead(d)) IN ~IsNum(m) \/ ~IsZeroV(m)
                   hom == [i \in 1..npts |->
                             IF Len(o.vr) # 2 \/ Len(o.vr[1]) # npts \/ Len(o.vr[2]) # npts THEN Unrep
                             ELSE IF ~(IsNum(o.vr[1][i]) /\ IsNum(o.vr[2][i])) THEN Unrep
                             ELSE VAdd(VMul(o.vr[1][i], IF c.op = "divmod" THEN o.vq[i] ELSE c.s), o.vr[2][i])]
               IN (IF PBad(q) \/ PBad(r) \/ PBad(back) THEN << F("SKIP", "coeffs") >>
                   ELSE (IF PEq(back, a) THEN << >> ELSE << F("divmod-identity", "") >>)
                        \o (IF c.op = "divmods" \/ dz \/ reduced THEN << >> ELSE << F("divmod-not-reduced", "") >>))
                  \* on values: P(x) = q(x) * d(x) + r(x)
                  \o (IF Len(o.vr) # 2 \/ (c.op = "divmod" /\ Len(o.vq) # npts) THEN << F("SKIP", "values") >>
                      ELSE IF \E i \in 1..Len(o.vr) : \E j \in 1..Len(o.vr[i]) : IsErr(o.vr[i][j])
                           THEN << F("op-value-raised", "") >>
                      ELSE ValClause(o.vp, hom, "divmod-value", ""))))

\* record-level verdict: the failing clauses (without SKIP markers), "SKIP" when nothing
\* failed but something could not be decided
Fails(cls) == SelectSeq(cls, LAMBDA f : f.cl # "SKIP")
HasSkip(cls) == \E i \in 1..Len(cls) : cls[i].cl = "SKIP"

\* model drift (never a verdict): the recorded data tuple differs from the A-layer's prediction
PolyDrift(c, o) ==
    LET pd == Operand(c.P, o.mp) qd == Operand(c.Q, o.mq) IN
    IF HasSym(pd) \/ HasSym(qd) THEN ""
    ELSE IF c.op \in {"divmod"} /\ Len(o.res) = 2 /\ IsPolyObs(o.res[1]) /\ IsPolyObs(o.res[2]) /\ Len(qd) > 0
    THEN LET im == ImplDivMod(pd, qd) IN
         IF DataEq(o.res[1].d, im[1]) /\ DataEq(o.res[2].d, im[2]) THEN "" ELSE "impl-differs"
    ELSE IF c.op \notin {"divmod", "divmods"} /\ ~(c.op = "pow" /\ c.k < 0)
            /\ Len(o.res) = 1 /\ IsPolyObs(o.res[1])
    THEN (IF DataEq(o.res[1].d, OpImpl(c.op, pd, qd, c.s, c.k)) THEN "" ELSE "impl-differs")
    ELSE ""
NonNormal(o) == \E i \in 1..Len(o.res) : o.res[i].r = "poly" /\ ~NormalData(o.res[i].d)

(***************************************************************************)
(* Euclid on polynomials (over Q[x]): extended_euclidean(P, Q) must give   *)
(* (g, a, b) with g = a*P + b*Q and g a greatest common divisor: g divides *)
(* P and Q and has the degree of the monic gcd.                            *)
(* Observation: [r |-> "ok", res |-> <<g, a, b as observed polynomials>>] |   *)
(*   [r |-> "err", e] | [r |-> "timeout"]                                    *)
(***************************************************************************)
\* A clause with the entry point it is attributed to (see PEuclidClauses / C19_Entry)
FE(cl, at, ep) == [cl |-> cl, at |-> at, ep |-> ep]
\* gcd_extended through one entry: o = [r, e, res |-> three polynomial observations]
PEuclidEE(a, b, o) ==
    IF o.r = "err" THEN << F("peuclid-raised", o.e) >>
    ELSE IF o.r = "timeout" THEN << F("peuclid-timeout", "") >>
    ELSE IF o.r # "ok" \/ Len(o.res) # 3 \/ \E i \in 1..3 : ~IsPolyObs(o.res[i]) THEN << F("SKIP", "result") >>
    ELSE LET g == FromData(o.res[1].d) u == FromData(o.res[2].d) v == FromData(o.res[3].d)
             back == PAdd(PMul(u, a), PMul(v, b))
             tg == PGcdQ(a, b) IN
         IF PBad(g) \/ PBad(back) \/ PBad(tg) THEN << F("SKIP", "coeffs") >>
         ELSE (IF PEq(back, g) THEN << >> ELSE << F("peuclid-bezout", "") >>)
              \o (IF Len(g) = Len(tg) /\ PDividesQ(g, a) /\ PDividesQ(g, b) THEN << >>
                  ELSE << F("peuclid-not-gcd", "") >>)
\* gcd through one entry: o = a polynomial observation
PEuclidGcd(a, b, o) ==
    IF o.r = "err" THEN << F("peuclid-raised", o.e) >>
    ELSE IF o.r = "timeout" THEN << F("peuclid-timeout", "") >>
    ELSE IF ~IsPolyObs(o) THEN << F("SKIP", "gcd-result") >>
    ELSE LET g == FromData(o.d) tg == PGcdQ(a, b) IN
         IF PBad(g) \/ PBad(tg) THEN << F("SKIP", "coeffs") >>
         ELSE IF Len(g) = Len(tg) /\ PDividesQ(g, a) /\ PDividesQ(g, b) THEN << >>
         ELSE << F("peuclid-gcd-not-gcd", "") >>
\* lcm through one entry, consistent with the gcd: a common multiple of degree
\* deg a + deg b - deg gcd (over Q[x], unit factors free); lcm(0, b) = 0; lcm(0, 0) is 0/0
PEuclidLcm(a, b, o) ==
    IF o.r = "timeout" THEN << F("peuclid-timeout", "") >>
    ELSE IF Len(a) = 0 /\ Len(b) = 0 THEN
        (IF o.r = "err" \/ (IsPolyObs(o) /\ Len(FromData(o.d)) = 0) THEN << >>
         ELSE IF ~IsPolyObs(o) THEN << F("SKIP", "lcm-result") >> ELSE << F("peuclid-lcm-wrong", "") >>)
    ELSE IF o.r = "err" THEN << F("peuclid-raised", o.e) >>
    ELSE IF ~IsPolyObs(o) THEN << F("SKIP", "lcm-result") >>
    ELSE LET l == FromData(o.d) tg == PGcdQ(a, b) IN
         IF PBad(l) \/ PBad(tg) THEN << F("SKIP", "coeffs") >>
         ELSE IF Len(a) = 0 \/ Len(b) = 0 THEN (IF Len(l) = 0 THEN << >> ELSE << F("peuclid-lcm-wrong", "") >>)
         ELSE IF PDividesQ(a, l) /\ PDividesQ(b, l) /\ Deg(l) = Deg(a) + Deg(b) - Deg(tg) THEN << >>
         ELSE << F("peuclid-lcm-wrong", "") >>
\* all three functions of one entry: oe = [ep, ee, g, l]
PEuclidFn(a, b, oe, fn) ==
    CASE fn = "ee" -> PEuclidEE(a, b, oe.ee) [] fn = "gcd" -> PEuclidGcd(a, b, oe.g) [] fn = "lcm" -> PEuclidLcm(a, b, oe.l)
\* A failing clause of an entry other than "alg" which the same function of pymbolic.algorithm
\* fails too is the routine's (no entry named); one that pymbolic.algorithm passes is the entry's.
TagEntry(cls, ref, ep) ==
    [i \in 1..Len(cls) |->
        IF cls[i].cl = "SKIP" \/ \E j \in 1..Len(ref) : ref[j] = cls[i] THEN cls[i]
        ELSE FE(cls[i].cl, cls[i].at, ep)]
RECURSIVE FlatSeq(_)
FlatSeq(ss) == IF Len(ss) = 0 THEN << >> ELSE ss[1] \o FlatSeq(SubSeq(ss, 2, Len(ss)))
\* case [P, Q, eps |-> entry names], observation [es |-> one [ep, ee, g, l] per entry]; the first
\* entry is "alg"
PEuclidClauses(c, o) ==
    LET a == FromData(c.P) b == FromData(c.Q) IN
    IF ~(DataOK(c.P) /\ DataOK(c.Q)) \/ PBad(a) \/ PBad(b) THEN << F("SKIP", "input") >>
    ELSE IF Len(o.es) # Len(c.eps) \/ Len(c.eps) = 0 \/ \E i \in 1..Len(c.eps) : o.es[i].ep # c.eps[i]
    THEN << F("SKIP", "entries") >>
    ELSE FlatSeq([i \in 1..Len(c.eps) |->
            FlatSeq([j \in 1..3 |->
                LET fn == << "ee", "gcd", "lcm" >>[j]
                    cls == PEuclidFn(a, b, o.es[i], fn) IN
                IF c.eps[i] = "alg" THEN cls
                ELSE TagEntry(cls, IF c.eps[1] = "alg" THEN PEuclidFn(a, b, o.es[1], fn) ELSE << >>,
                              fn \o "@" \o c.eps[i])])])

(***************************************************************************)
(* (e) primitives.quotient(n, d) for two integers.                         *)
(* Observation: [b |-> "node kind", ev, evx, evd |-> value records]:       *)
(*   ev  EvaluationMapper()(node); evx the same with every constant read   *)
(*   as an exact rational; evd pymbolic.evaluate(node); a construction     *)
(*   error is [b |-> "err", e |-> class].                                    *)
(***************************************************************************)
QuotClauses(c, o) ==
    IF c.d = 0 THEN
        \* no quotient exists: refusing at construction or at evaluation is the only right answer
        (IF o.b = "err" \/ (IsErr(o.ev) /\ IsErr(o.evx)) THEN << >>
         ELSE << F("quot-zero-not-refused", "") >>)
    ELSE IF o.b = "err" THEN << F("quot-raised", o.e) >>
    ELSE LET exp == FracV(c.n, c.d)
             one(v, cl) == IF IsErr(v) THEN << F(cl \o "-raised", v.e) >>
                           ELSE IF ~IsNum(v) THEN << F("SKIP", cl) >>
                           ELSE IF ValEq(v, exp) THEN << >> ELSE << F(cl, "") >>
         IN one(o.ev, "quot-value") \o one(o.evx, "quot-exact-value")
            \o (IF IsErr(o.evd) THEN << F("evaluate-default-raises", o.evd.e) >>
                ELSE IF IsNum(o.evd) /\ ~ValEq(o.evd, exp) THEN << F("evaluate-default-value", "") >>
                ELSE << >>)

(***************************************************************************)
(* The same for integers beyond 32 bits: n = 2^k + a (k up to a few        *)
(* hundred), small d # 0.  TLC cannot hold n, but it can hold n modulo a   *)
(* prime: the driver reports the exact-constant evaluation N/D of the node *)
(* as residues (N mod p, D mod p) for the primes c.ps, and N/D = n/d       *)
(* implies N*d = n*D modulo every p.  A residue mismatch is therefore a    *)
(* sound refutation; agreement for all primes is accepted.                 *)
(* Observation: [b |-> kind | "err", e, res |-> << <<N mod p, D mod p>>, .. >>] *)
(***************************************************************************)
RECURSIVE PowModQ(_, _, _)
PowModQ(b, e, p) ==
    IF e = 0 THEN 1 % p
    ELSE IF (e % 2) = 0 THEN LET h == PowModQ(b, e \div 2, p) IN (h * h) % p
    ELSE (b * PowModQ(b, e - 1, p)) % p
\* the moduli the generator uses (C19_Gen checks that they are primes; any modulus > 1 would
\* keep the refutation sound)
KnownPrimes == {10007, 10009, 30011}
PrimeQ(p) == p \in KnownPrimes
QuotBigClauses(c, o) ==
    IF c.d = 0 \/ c.k < 0 \/ c.k > 4000 \/ \E i \in 1..Len(c.ps) : ~PrimeQ(c.ps[i]) THEN << F("SKIP", "input") >>
    ELSE IF o.b = "err" THEN << F("quot-raised", o.e) >>
    ELSE IF Len(o.res) # Len(c.ps) THEN << F("SKIP", "result") >>
    ELSE IF \A i \in 1..Len(c.ps) :
                LET p == c.ps[i]
                    nm == (PowModQ(2, c.k, p) + c.a) % p
                IN  ((o.res[i][1] % p) * (c.d % p)) % p = (nm * (o.res[i][2] % p)) % p
         THEN << >>
         ELSE << F("quot-exact-value", "beyond-2^53") >>
=============================================================================
