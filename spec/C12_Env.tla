------------------------------- MODULE C12_Env -------------------------------
(* The box of environments shared by the C12 generators and judges (the      *)
(* generator prints it; the driver materialises it from there).  E1 is all   *)
(* Fractions with integer values (every operator exact, nothing raises for   *)
(* most trees: the event streams are recorded here), E2 has a + b = 0 (the   *)
(* division-by-zero paths, also inside wrapper children), E3 proper          *)
(* fractions, E4 plain ints with a zero.                                     *)
EXTENDS Eval

FnV(n) == [k |-> "fn", name |-> n]
TupV(s) == [k |-> "tup", items |-> s]
\* f, g functions; t a tuple; o an object with attributes p, q; m a mapping keyed by
\* integers and tuples (the hosts of round 2: subscripts, lookups, calls)
Common == [f |-> FnV("f"), g |-> FnV("g"), t |-> TupV(<< IntV(10), IntV(20), FracV(5, 2) >>),
           o |-> [k |-> "obj", name |-> "o1"], m |-> [k |-> "map", name |-> "m1"]]
Envs == <<
  [a |-> FracV(2, 1),  b |-> FracV(3, 1),  c |-> FracV(5, 1)] @@ Common,
  [a |-> IntV(3),      b |-> IntV(-3),     c |-> FracV(1, 2)] @@ Common,
  [a |-> FracV(1, 2),  b |-> FracV(-3, 2), c |-> FracV(2, 3)] @@ Common,
  [a |-> IntV(0),      b |-> IntV(2),      c |-> IntV(-1)]    @@ Common
>>
\* the environment an evaluator instance is created with
EnvOfInst(i) == ((i - 1) % Len(Envs)) + 1
=============================================================================
