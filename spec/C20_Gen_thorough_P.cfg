CONSTANT Tier = "thorough"
CONSTANT MaxN = 5
CONSTANT Modes = {"P", "K"}
INIT Init
NEXT Next
INVARIANT GeneratedWellFormed
INVARIANT TRUnique
INVARIANT TRPreservesReachabilityL
INVARIANT AlgoRefinesMeaning
INVARIANT Emit
CHECK_DEADLOCK FALSE
