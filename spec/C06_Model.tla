------------------------------ MODULE C06_Model ------------------------------
(***************************************************************************)
(* C06 on the model: the transcribed printer (C06_Stringify) composed with *)
(* the transcribed parser (C07_Parser), judged by the statement's clauses  *)
(* (M-layer: Norm, Eval).  Used by C06_Gen for the design-level check and  *)
(* by C06_Judge for the implementation-level verdicts and the drift report.*)
(***************************************************************************)
EXTENDS C07_Parser, C06_Stringify, C03_Env

\* flatten nested sums/products; constants compared by value (Python ==)
RECURSIVE Norm(_)
NormKids(e) == [i \in 1..Len(Kids(e)) |-> Norm(Kids(e)[i])]
Splice(kind, ks) ==
    LET RECURSIVE Go(_)
        Go(i) == IF i > Len(ks) THEN << >>
                 ELSE (IF ks[i].t = kind THEN ks[i].c ELSE << ks[i] >>) \o Go(i + 1)
    IN Go(1)
Norm(e) ==
    IF e.t = "Const" THEN
        (IF IsNum(e.v) THEN [t |-> "Const", v |-> [k |-> "num", n |-> e.v.n, d |-> e.v.d]] ELSE e)
    ELSE IF e.t \in {"Sum", "Product"} THEN [t |-> e.t, c |-> Splice(e.t, NormKids(e))]
    ELSE WithKids(e, NormKids(e))

ValueClause(e, e2) ==
    \A i \in 1..Len(Envs) :
        LET a == Eval(e, Envs[i]) b == Eval(e2, Envs[i]) IN
        IsUnrep(a) \/ IsUnrep(b) \/ (IsErr(a) /\ IsErr(b)) \/ (IsNum(a) /\ IsNum(b) /\ ValEq(a, b))
        \/ (~IsNum(a) /\ ~IsErr(a) /\ ~IsNum(b) /\ ~IsErr(b) /\ ValEq(a, b))

\* the statement's clauses for an observed round trip
\*   parsed: [r |-> "ok", e |-> tree] | [r |-> "err", ...];  s1, s2: first / second printed form
RoundTripClauses(e, parsed, sameText) ==
    IF parsed.r = "noprint" THEN << "print-raises" >>   \* the printer itself raised: there is no text
    ELSE IF parsed.r = "err" THEN << "parse-error" >>
    ELSE IF parsed.r # "ok" THEN << "SKIP" >>
    ELSE (IF Norm(parsed.e) # Norm(e) THEN << "tree" >> ELSE << >>)
      \o (IF ~sameText THEN << "text" >> ELSE << >>)
      \o (IF ~ValueClause(e, parsed.e) THEN << "value" >> ELSE << >>)

\* the same round trip on the model (A-layer printer and parser)
ModelRoundTrip(e) ==
    LET toks == Stringify(e) IN
    IF ~Printable(toks) THEN << "SKIP" >>
    ELSE LET p == Parse(toks) IN
         IF ~p.ok THEN << "parse-error" >>
         ELSE RoundTripClauses(e, [r |-> "ok", e |-> p.e], Stringify(p.e) = toks)
=============================================================================
