CONSTANT Bug = "cseoff"
INIT Init
NEXT Next
INVARIANT NegRefines
CHECK_DEADLOCK FALSE
