----------------------------- MODULE C14_NamesGen -----------------------------
(***************************************************************************)
(* Stage (1) for the name half of C14: TLC model-checks the name-table     *)
(* state machine C14_CCodeNames over ALL histories of MaxGen calls on one  *)
(* mapper and its copies (bounded pools, see C14_CCodeNames) and prints    *)
(* every complete history as one JSON line for the driver (G-hist,         *)
(* DESIGN 3.3).                                                            *)
(***************************************************************************)
EXTENDS C14_CCodeNames, Json

Complete == cur = 0 /\ NGen(hist) = MaxGen
Emit == Complete => PrintT(ToJson([hist |-> hist]))
=============================================================================
