CONSTANT Tier = "quick"
INIT Init
NEXT Next
INVARIANT OracleLaws
INVARIANT Emit
CHECK_DEADLOCK FALSE
